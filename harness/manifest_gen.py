"""Regenerates MANIFEST.json from the table below (single source of truth for what is claimed)."""
import json
import os

ROOT = os.path.dirname(os.path.dirname(os.path.abspath(__file__)))

BASELINE_CMD = "cd /repo && /venv/bin/python -m pytest -ra -q -p no:cacheprovider --timeout=900 --continue-on-collection-errors"

# id -> (design_ref, technique, level text, level_note)
CLAIMED = {
    "C17": (
        "DESIGN.md section 5, C17",
        "Lean 4 theorems over a hand-written model of from_textfile/filenames (induction over reads; chunking independence of str.split) + differential correspondence against the real sources on real files on a virtual-time loop",
        "Proof: for every non-empty delimiter and every list of reads the emitted records and the held-back tail equal the one-pass split of the concatenated text (run_chunking_independent), nothing lost/duplicated/modified (run_conserves), every record is one delimiter-terminated record (records_wellformed), filenames emits each path exactly once in sorted batches (fpoll_spec, frun_exactly_once, frun_complete). The model is tied to the code by running the real sources and Python's str.split against the model's executable definitions on every run.",
        "Trusted: Lean kernel (+propext, Classical.choice, Quot.sound); the hand-written model of _run bodies, str.split, glob/sorted; text-mode decoding below file.read() is outside the model; paths modelled as naturals.",
    ),
}

CLAIMED["C13"] = (
    "DESIGN.md section 5, C13",
    "Lean 4 theorems over a hand-written functional + event-loop (LTS) model of rate_limit and delay (invariants over every action sequence) + exact-time differential correspondence against the real nodes on a virtual-time loop",
    "Proof: for every interval I >= 0 and every arrival pattern (bursts, ties, several producers) any two deliveries are >= I apart (rate_limit_spacing, rate_limit_loop_spacing), delivery order = arrival order, nothing lost (rate_limit_plan_in_arrival_order, rate_limit_loop_order, rate_limit_loop_none_lost), no delay after an idle interval (rate_limit_no_delay_after_idle, rate_limit_loop_idle), liveness of draining; delay keeps order and count (delay_loop_prefix, delay_loop_none_lost, delay_plan_order_count). Tied to the code by replaying observed arrive/deliver events of the real nodes through the model (each must be an enabled action) and comparing delivery instants exactly.",
    "Trusted: Lean kernel (+propext, Classical.choice, Quot.sound); the hand-written model of rate_limit.update/delay.cb and tornado Queue/gen.sleep; timers fire at their due time on the virtual loop (real timer lateness is not modelled); CPython 3.12 asyncio private attributes used by the virtual loop.",
)

CLAIMED["C18"] = (
    "DESIGN.md section 5, C18",
    "Lean 4 theorems over a hand-written labelled-transition model of Source.start/stop/run and from_iterable (invariants over every history of start | stop | resume i) + trace-acceptance correspondence against the real sources on a virtual-time loop with start/stop placed at every suspension point",
    "Proof: for every history at most one run() invocation is live (poll_at_most_one_loop, iter_at_most_one_loop), no polling cycle begins between a stop and the next start, redundant start/stop are identities, from_iterable emits a prefix of its items in order and takes the next item only when nothing is pending downstream; the original (pre-fix) mechanism is kept as a second model with the negation proved on a concrete witness (orig_two_live_loops, orig_iter_interleaves). Tied to the code by cutting the observed log of the real sources into model actions and comparing events, `stopped` and `_run_live` after every action.",
    "Trusted: Lean kernel (+propext, Classical.choice, Quot.sound); the hand-written model (a polling cycle is atomic; one loop thread only); sources that override start/stop themselves (kafka, tcp, http, websocket) are not covered; virtual loop relies on CPython 3.12 asyncio internals.",
)

CLAIMED["C09"] = (
    "DESIGN.md section 5, C09",
    "Lean 4 theorems over a hand-written state-machine model of FromKafkaBatched (poll loop, completion/commit, crash+restart; invariants over every action sequence) + deterministic differential correspondence of the real source against an in-memory fake confluent_kafka on a virtual-time loop, with a crash after every event in the thorough tier",
    "Proof: for every production history, partition count, max_batch_size, completion order and crash point: ranges are bounded by the high watermark and the batch size (ranges_bounded), ordered and disjoint, contiguous unless clamped by retention (ranges_contiguous, ranges_gap_only_by_truncation), start at the committed offset or the reset position (starts_at_committed, reset_position_*), the committed offset only ever becomes hi+1 of a completed batch (commit_only_on_completion, commit_after_processing), and with in-order completion every unprocessed offset is re-delivered after a crash at any instant (at_least_once, redelivery, crash_redelivers_unprocessed); the in-order hypothesis is shown necessary by a proved counter-example. One recorded finding (latest + nothing committed) is excluded by an explicit hypothesis and proved as a witness.",
    "Trusted: Lean kernel (+propext, Classical.choice, Quot.sound); the hand-written model; the fake confluent_kafka client (the real librdkafka client and a real broker are not exercised); 'completely processed' is as strong as C04 for the pipeline downstream of the source.",
)
CLAIMED["C20"] = (
    "DESIGN.md section 5, C20",
    "Lean 4 theorems (per-kind simulation: erasing the future wrapper maps every Dask step to the local step) over a hand-written model of DaskStream's re-implemented nodes, scatter and gather + sampled differential correspondence of real pipelines on an in-process dask cluster against the same pipeline run locally",
    "Proof: step_simulation / segment_erasure (the Dask segment erases to the local one for every segment, input and completion-time assignment), locked_gather_in_arrival_order (the repaired gather emits in arrival order for every schedule), dask_equiv_local_locked_partial (sink sequence equals the local one; partial: the acknowledgement order of concurrent client.scatter calls is a hypothesis), counters balanced as locally and never zero while an element waits in scatter/gather. The pre-fix gather is kept as a model with the reordering proved on witnesses.",
    "Trusted: Lean kernel (+propext, Classical.choice, Quot.sound); the hand-written model; the Dask scheduler's choices are sampled on a real in-process cluster (real-time loop; a timeout is a harness error, never a violation), not modelled.",
)

CLAIMED["C01"] = (
    "DESIGN.md section 5, C01",
    "Lean 4 theorems over a hand-written executable model of Stream._emit and every synchronous node's update() (mutual structural recursion on fuel; big-step relation; induction) + deterministic differential correspondence of the full ordered arrive/emit log of every node against the real pipelines",
    "Proof: (graph level, Props/C01.lean) in every acyclic pipeline each node's state and emissions are exactly its local update function folded over what arrived (run_projects, emits_are_local_outputs), every emission reaches every attached downstream in attachment order and nothing travels where there is no edge (emit_delivers_snapshot, edge_consistency, edge_no_loss_dup_reorder, no_edge_no_arrival), deliveries are depth-first (depth_first), the run terminates and is fuel-independent (dag_terminates, fuel_mono); (node level, Props/C01Sem.lean) for every arrival list the local run of each kind equals its documented list-level meaning written without state: map, starmap, filter, accumulate (all flag combinations), slice = list[start:stop:step], partition (chunks; keyed), partition_unique, sliding_window, unique (unbounded and LRU), flatten, pluck, collect+flush, zip = transpose independent of interleaving (any arity, literals), combine_latest, zip_latest, union. Feedback edges are exercised by the correspondence only (the projection theorem needs acyclicity: a re-entered node with post-emission state updates is outside the model's fidelity, stated in DESIGN.md).",
    "Trusted: Lean kernel (+propext, Classical.choice, Quot.sound); the hand-written model; user functions from a fixed catalogue with Python twins; zip built with a large maxsize here (its backpressure is C03's); per-instance wrappers of update/_emit for observation.",
)
CLAIMED["C19"] = (
    "DESIGN.md section 5, C19",
    "Lean 4 theorems over a hand-written model of Stream.__init__ (the four configuration steps, percolation in both directions with its exceptions, get_io_loop) + complete enumeration of small configurations against the real constructors (every node/source type, asynchronous x loop x construction order), thread creation observed",
    "Proof: children inherit loop and truthy asynchronous (child_inherits_loop/async, child_shares_loop/mode), explicit conflicting loop or mode raises (explicit_*_conflict_raises), a binding never changes afterwards, along every edge the two loops agree or one is unset for histories of any length (history_edges_agree; hypotheses: no raising construction, no multi-input node over inputs already bound to different loops - shown necessary by proved examples), a node declared asynchronous stays on the caller's loop and never creates the background loop (declared_async_*), an undeclared loop-requiring node gets the shared background loop, created at most once (undeclared_ensure_gets_background, history_one_background_loop). The pre-fix clause is kept as a `legacy` world with the negation proved on a witness.",
    "Trusted: Lean kernel (+propext, Classical.choice, Quot.sound); the hand-written model; thread creation is observed on the implementation (threads / _io_loops), not modelled.",
)

CLAIMED["C10"] = (
    "DESIGN.md section 5, C10",
    "Lean 4 theorems about the metadata component of every node's update program (per-kind lemmas over arbitrary arrival lists, closure induction over the interpreter) + deterministic differential correspondence of the tag lists at every arrive/emit event",
    "Proof: one-to-one kinds pass metadata unchanged (oneToOne_passes_metadata and per-kind theorems), flatten attaches it to the last piece (flatten_metadata), batching and combining kinds deliver the concatenation for the members in member order (partition_metadata, partitionUnique_metadata, slidingWindow_metadata incl. after a downstream failure, collect_flush_metadata, zip_metadata, combineLatest_metadata, zipLatest_metadata), nothing in means nothing out (no_metadata_in_no_metadata_out), and at graph level every entry anywhere in any session comes from a top-level emission (tags_come_from_input; any graph, cyclic included, failing runs included). Flatness is by typing in the model; the implementation's shape (list of dicts) is checked by the correspondence.",
    "Trusted: Lean kernel (+propext, Classical.choice, Quot.sound); the hand-written model; metadata dictionaries identified by integer tags in the harness.",
)
CLAIMED["C15"] = (
    "DESIGN.md section 5, C15",
    "Lean 4 theorems over a hand-written model of connect/disconnect/destroy, the _add/_remove_upstream overrides of zip and combine_latest, and liveness under garbage collection (invariants over every valid edit history) + deterministic differential correspondence of both link directions, liveness and deliveries after every operation",
    "Proof: links stay mutually consistent under every operation and every run (links_consistent_*, links_consistent), a disconnect raises exactly when the edge is absent and then changes nothing, per-input state of zip/combine_latest stays aligned with the upstream list (zip_state_aligned, combine_state_aligned, state_aligned_history), deliveries follow exactly the current edges (delivery_follows_current_edges), a combining node after an edit equals a fresh node over its current inputs holding the same per-input data (combine_latest_after_edit; zip_after_disconnect_partial under the explicit hypothesis that some remaining buffer is empty - the recorded finding zip_stuck_after_disconnect is proved as the negation witness), liveness = reachability from held nodes and undestroyed sinks, dead branches receive nothing, sinks stay active until destroyed (alive_iff_reachable, dead_branch_receives_nothing, sink_stays_active).",
    "Trusted: Lean kernel (+propext, Classical.choice, Quot.sound); the hand-written model; garbage collection is forced in the harness (gc.collect()) and represented by an explicit collect step; 'referenced by the program' = held by the harness; connect only between held streams and never a parallel edge.",
)
CLAIMED["C16"] = (
    "DESIGN.md section 5, C16",
    "Lean 4 theorems about the abort semantics of the interpreter and the error branch of every node's update program + deterministic differential correspondence with failing user functions, sinks and consumers; metamorphic oracle against a fresh node of the real class; threaded blocking-emit sample",
    "Proof: a raise anywhere reaches the emitter (failure_reaches_emitter; with a coroutine-style node: or the awaitable, failure_reaches_emitter_or_awaitable), errors come only from nodes and the run stops at the raise (errors_come_from_nodes, abort_is_immediate), the failing node's state and emissions are untouched for every kind (failing_upd_keeps_state, failing_update_keeps_graph_state) so later elements are processed as if the failing one had not been offered (later_as_if_absent, survivors_never_fail), and the failed element's callback never fires, then or later (failed_never_fires_partial / _forever_partial: proved for graphs of non-buffering kinds of any topology; graphs with metadata-storing kinds are covered by the correspondence and oracle only), sinkFail releases nothing.",
    "Trusted: Lean kernel (+propext, Classical.choice, Quot.sound); the hand-written model; 'the node whose function raised' identified by a logging wrapper around the catalogue functions; threaded operation sampled in real time.",
)

CLAIMED["C07"] = (
    "DESIGN.md section 5, C07",
    "Lean 4 theorems (subtractive invariants over exact rationals) over a hand-written model of diff_iloc / diff_loc / diff_align, window_accumulator and windowed_groupby_accumulator with every aggregation's on_new/on_old + differential correspondence of the real API against the model and against pandas on the window",
    "Proof: for every N >= 1 / duration T >= 1 (non-decreasing index), every batch list and every k the retained frames concatenate to exactly the last N rows, resp. the rows with newest - T < idx (iloc_retained_eq_lastN, loc_retained_eq_within, diff_conserves), and the k-th result of sum, count, size, mean, var (ddof 0/1), value_counts and of the groupby variants (column or streaming grouper) equals the specification of the pandas aggregation on that window, with result keys exactly the keys that still have a row in the window (window_*, window_groupby_*); grouper history stays aligned and diff_align's assertions cannot fire. The pre-fix diff_loc and Mean are kept with witnesses of their failures. std is var ** 0.5 in a downstream map (checked against pandas only).",
    "Trusted: Lean kernel (+propext, Classical.choice, Quot.sound); the hand-written model; pandas reductions specified by their textbook definitions over Option Rat; binary floating point inside pandas is outside the model (data are small-integer valued so that sums are exact; quotients compared with tolerance).",
)
CLAIMED["C11"] = (
    "DESIGN.md section 5, C11",
    "Lean 4 theorems over a hand-written model of rolling_accumulator (parametric in the window reduction), _cumulative_accumulator, expanding and EWMean + differential correspondence of the real API against the model and against pandas in one pass, exhaustive over all compositions of small tables in the thorough tier",
    "Proof: for every table and every composition into batches (empty and shorter-than-window batches included) the concatenated per-batch outputs equal the one-pass definition: rolling over row-count and time windows for ANY window reduction (rolling_count_batching_independent, rolling_time_batching_independent), cumsum/cumprod/cummin/cummax with NaN skipping (cumulative_batching_independent), expanding sum/count/mean/var (expanding_*), ewm mean on NaN-free data (ewm_batching_independent: per batch the closed-form weighted mean at the last row seen). The pre-fix cumulative and EWM steps are kept with witnesses. One recorded finding: EWMean has no NaN handling (ewm-nan-unsupported).",
    "Trusted: Lean kernel (+propext, Classical.choice, Quot.sound); the hand-written model; the pandas window reductions are abstract in the theorems (concrete ones only in the driver); floating point outside the model (exact data; ewm compared at 1e-9 relative).",
)

CLAIMED["C05"] = (
    "DESIGN.md section 5, C05",
    "Lean 4 theorems (ghost holder count; invariant count = holders preserved by every top-level operation, for all 18 node kinds) over the reference-counting part of the dataflow model + deterministic differential correspondence of counts and callbacks after every operation + balance oracle on asynchronous pipelines at the final quiescent point",
    "Proof: every kind's update program is balanced (every_update_balanced), count - holders is invariant under _emit (excess_preserved), hence at every quiescent point count = number of legitimate holders (node buffers, unfinished consumers, suspended flushes) for every sequence of operations (count_eq_holders, count_eq_holders_always), counts are never negative at any prefix of a run (nonneg), the callback fires exactly when the count reaches zero (fire_iff_zero, fired_when_zero), never rises again (count_no_resurrection, completed_stays_completed), and dropped elements end at zero with the callback fired (dropped_is_zero). Asynchronous holding nodes: per-node models (Props/Async*.lean, C13, C14) and the model-free balance oracle.",
    "Trusted: Lean kernel (+propext, Classical.choice, Quot.sound); the hand-written model; node invariants (e.g. zip without a repeated upstream, sliding_window n >= 1); runs in which a user function raised are excluded from the balance oracle (retains of aborted frames stay, by design).",
)
CLAIMED["C04"] = (
    "DESIGN.md section 5, C04",
    "Lean 4 theorems on the dataflow model (state-at-the-moment-of-the-signal via a run relation tagged with intermediate states) + per-node event-loop models for the asynchronous holders + deterministic differential of callbacks/counts with failing functions, consumers and map_async jobs + model-free holder oracle on asynchronous pipelines",
    "Proof (synchronous nodes, asynchronous consumers, partition's suspended flush): at every completion signal the count is 0, the rest of the operation never touches the reference, no pending consumer and no suspended flush carries it and no node other than the one executing the release holds it (sync_never_early, sync_never_early_moment), a pending consumer blocks the signal (sync_pending_consumer_blocks), signals fire once (sync_fires_once); failed elements never fire (C16: failed_never_fires_*). Asynchronous holders (rate_limit, delay, buffer, map_async, timed windows, latest, zip with maxsize): node-group theorems `c04_*` where delivered, otherwise the model-free oracle (no callback while the entry sits in a holding node or an unfinished consumer; no callback for an element whose job or consumer failed).",
    "Trusted: Lean kernel (+propext, Classical.choice, Quot.sound); the hand-written models; 'derived from' = carries the metadata entry; holders evaluated when the loop has settled after the operation in which the callback fired.",
)
CLAIMED["C14"] = (
    "DESIGN.md section 5, C14",
    "Lean 4 theorems over a labelled transition system of latest that keeps the wake-up mechanism explicit (slot, pending notify callbacks, coroutine state; invariant over every accepted action sequence) + trace-acceptance correspondence in one-handle step mode (arrivals placed between a notify callback and the coroutine's resumption), exhaustive interleavings of <= 4/5 arrivals",
    "Proof: deliveries are a strictly increasing subsequence of the arrivals (deliveries_subsequence_of_arrivals, deliveries_strictly_increasing), a full slot with a waiting coroutine always has a notify pending (no_lost_wakeup), in every quiescent state with the consumer free the newest arrival has been delivered, and arrival-free continuations are bounded so that state is reached (newest_delivered_at_quiescence, arrival_free_runs_are_bounded, newest_delivered_after_input_stops). The original mechanism is kept as a second model: both negations proved on witnesses, and on a tree without the fix every rejected trace is accepted by it.",
    "Trusted: Lean kernel (+propext, Classical.choice, Quot.sound); the hand-written model of tornado Condition.notify / add_callback order; CPython 3.12 asyncio internals used by the stepping loop.",
)
CLAIMED["C06"] = (
    "DESIGN.md section 5, C06",
    "Lean 4 theorems (monoid-homomorphism facts over exact rationals, finite maps for groupby) over a hand-written model of every Aggregation's initial/on_new and of the per-batch expression layer + two-level differential correspondence (Aggregation objects directly; the full streaming DataFrame API) against the model and against pandas on the concatenated prefix",
    "Proof: for every batch list and every k the k-th emission of sum, count, size, mean, var (two-moment formula = textbook variance, ddof 0/1), std, value_counts and groupby sum/count/size/mean/var/std (column or streaming-series grouper; NaN keys dropped, vanished keys kept) equals the specified pandas aggregation of the concatenation of the first k batches (…_stream_eq_pandas) - row-less prefixes included: var is NaN there (var_stream_no_row_is_nan; the ZeroDivisionError of the unrepaired code is gone from the model) -, element-wise expressions, filters, selection and assignment give per batch what pandas gives (expr_/mask_/pipeline_stream_eq_pandas_per_batch) and compose end to end (pipeline_prefix_concat, mean_of_pipeline_eq_pandas). The pre-fix Mean is kept with its witness ([] then [1,2,3]).",
    "Trusted: Lean kernel (+propext, Classical.choice, Quot.sound); the hand-written model; pandas reductions specified by textbook definitions over Option Rat; floating point outside the model (small-integer data, quotients within 1 ulp / 1e-9); the diamond zip of derived streams is C01's diamond_zip.",
)

CLAIMED["C02"] = (
    "DESIGN.md section 5, C02 and section 0.2",
    "Lean 4 theorems over per-node event-loop models of every lossless asynchronous node kind (actions: arrival, downstream completion, job completion, clock advance; invariants over every action sequence), composed through C01's edge-consistency theorem + node-group correspondences replaying the observed behaviour of the real nodes through the models + model-free differential oracle on random multi-node asynchronous pipelines against the same pipeline with the timing removed, three consumer flavours",
    "Proof: for every interleaving, outputs are a prefix of the inputs in order, each element handed on exactly once, equal at quiescence - rate_limit and delay (Props/C13.lean), timed_window and partition with timeout (batches' concatenation; per key) (c02_window_lossless, c02_partition_lossless), zip of any arity = transpose independent of interleaving (c02_zip_transpose, c02_zip_interleaving_independent), buffer and map_async for any completion order of the user coroutines (c02_buffer_*, c02_map_async_order, when Props/AsyncBuffer.lean is present), union and all synchronous kinds by C01. Consumer flavours (Future, native coroutine, tornado coroutine) are a correspondence obligation, not a theorem.",
    "Trusted: Lean kernel (+propext, Classical.choice, Quot.sound); hand-written models at settled granularity (interleavings inside one settle of the loop are not distinguished; see DESIGN 0.2); tornado Queue/Condition/gen.sleep semantics modelled by a few equations; CPython 3.12 asyncio internals used by the virtual loop.",
)
CLAIMED["C03"] = (
    "DESIGN.md section 5, C03",
    "Lean 4 theorems: (clause 1) on the dataflow model - the awaitables returned by an emission are exactly the tokens of the consumer invocations it started, for every graph; (bounds, no deadlock) per-node event-loop models of buffer, map_async, zip(maxsize), timed windows + deterministic differential of emit-awaitable status while consumers are completed one by one + model-free backpressure oracle on asynchronous pipelines + threaded blocking-emit sample",
    "Proof: every kind except collect hands back the awaitables of its emissions (kinds_transparent), so r.toks = the sinkStart tokens of the run (emit_waits, emit_waits_every_graph) and the emit awaitable cannot be done before every started consumer has finished (emit_done_implies_consumers_done, emit_done_needs_every_sinkDone); a dropped element completes at once and collect is a boundary (dropped_emit_completes, collect_crosses); zip(maxsize): blocked producers are really more than maxsize ahead, every emitted tuple wakes everybody, bound maxsize (+1 buffered) for disciplined producers (c03_zip_*; the recorded finding c03_zip_admits_all_blocked is proved as the witness that the discipline hypothesis is needed); timed windows: producers wait for the previous batch and never get stuck (c03_window_*); buffer / map_async bounds and liveness in Props/AsyncBuffer.lean (map_async: parallelism+1, recorded finding).",
    "Trusted: Lean kernel (+propext, Classical.choice, Quot.sound); the hand-written models; threaded operation (loop in a background thread) is sampled in real time, OS scheduling not modelled; two recorded findings (map_async parallelism+1, zip notify_all).",
)
CLAIMED["C08"] = (
    "DESIGN.md section 5, C08",
    "Lean 4 theorems over transition systems of timed_window / timed_window_unique / partition(n, timeout, key) with an explicit virtual clock and timer handles (invariants over every action sequence) + exact-instant correspondence of the real nodes on the virtual-time loop + model-free oracle on the (time, batch) log",
    "Proof: every arrival is in exactly one batch in order (c08_timed_window_conservation, c08_partition_conservation per key), timed_window_unique emits the keep-first/keep-last reduction of each window (c08_timed_window_unique_conservation, _batch_spec), partitions have 1..n elements of one key, fewer than n only from the timer at first arrival + T, a timer is live for a key iff 0 < len < n, none is ever armed for n = 1 (c08_partition_size, c08_partition_timer_iff, c08_partition_no_timer_for_n1), deadlines: emission <= arrival + interval + time blocked downstream, resp. <= arrival + T (c08_timed_window_deadline, c08_partition_deadline), nothing buffered is ever overdue.",
    "Trusted: Lean kernel (+propext, Classical.choice, Quot.sound); the hand-written model; timers fire at their due time (virtual loop; real timer lateness shifts the deadline and is not modelled); same-instant timers of different keys fire in asyncio heap order (taken from the observation).",
)

CLAIMED["C12"] = (
    "DESIGN.md section 5, C12",
    "Lean 4 theorem generic over any pure step function (resume = foldl_append), instantiated for every aggregation model of C06/C07/C11, + the correspondence that carries the weight: real pipelines resumed from the un-copied state object emitted by the first pipeline, at every cut point, under four interleavings of the two pipelines, with snapshot checks of every emitted state",
    "Proof of the model statement (resume, resume_with_state, resume_many, resume_fallible; instantiations resume_rolling_count/time, resume_expanding, resume_ewm, resume_cumulative, resume_aggregation, resume_window, resume_windowed_groupby; witnesses that hidden state / a dropped old_wt break it). It is simple because the models are pure functions of the emitted state; what can really go wrong in the code - state kept outside the emitted state, aliasing between the emitted object and the one the first pipeline keeps mutating, an emitted state that does not contain everything, start= ignored on some path - is what the correspondence exercises.",
    "Trusted: Lean kernel (+propext, Classical.choice, Quot.sound); the models of C06/C07/C11; for families without with_state (reductions, groupby sum/count) the state is read from the accumulate node; groupby size/var through the private GroupBy._accumulate; std()/apply() with with_state=True cannot digest the tuple (API limitation, recorded as assumption).",
)

NOT_YET = {}


CORPUS_TECH = (" + regression corpus (corpus/<id>.jsonl: minimised inputs on which a seeded change or a repaired defect violated the property, "
               "evaluated by the same oracles on every run)")
EXTRA_TECH = {
    "C01": " + model-free oracle for exceptions raised by Stream._emit itself (no node, no user function raised)",
    "C02": " + emissions placed an exact number of event-loop iterations after a completion and directed map_async saturation races",
    "C03": " + source histories (from_periodic / from_textfile / filenames / from_iterable under start/stop with a pending consumer): a source reads on only when its emission's awaitables are done",
    "C04": " + scatter()/gather() segments on an in-process Dask cluster (no result carrying a reference reaches the sink after its counter hit zero); pre-failed awaitable consumers; a user-defined coroutine node below every holding node type",
    "C06": " + statement programs (groupby / in-place assignment / select / filter in any order) run by one interpreter on the streaming objects and on pandas; falsy and non-string column labels",
    "C10": " + 20 c10_ theorems over the event-loop models of the asynchronous node groups (Props/AsyncMetadata.lean: every batch / tuple carries exactly its members' metadata in member order, for every action sequence) with their correspondences + model-free metadata oracle on asynchronous pipelines (buffer/delay/rate_limit/map_async/timed_window/partition with timeout) against the same pipeline with the timing removed",
    "C11": " + defect-mirroring model of EWMean on NaN cells and a pandas NaN specification (recorded finding), both compared with the real code",
    "C12": " + Props/C12Graph.lean on the dataflow model (the state inside an emitted pair IS the retained state whatever fails downstream; resumption from it, for every arrival list; the swapped order refuted on a witness) + an uninterrupted run in which a consumer rejects one delivery while the producer carries on",
    "C13": " + rejecting consumers and falsy payloads; Python-int and numpy intervals",
    "C14": " + None/falsy payloads, late-attached consumers, detach/re-attach of the node from its upstream; combining nodes below latest (nested awaitable results)",
    "C15": " + asynchronous nodes rewired while they hold data (random and directed), every form of emit_on; destroy(streams=selection) in the model (destroySel, 5 theorems: empty selection is a no-op, a selection is its disconnects, exactly the selected edges go) and in the histories",
    "C16": " + failing awaitable consumers must reach the emitter; sink_to_textfile with closed / failing files; exception type of the failing functions as a case parameter (StopIteration, KeyError, OSError, falsy exception); keys whose __eq__/__hash__ raise inside unique",
    "C17": " + raising consumers, stop/start, a second source over the same directory",
    "C18": " + tailing from_end on a file with a real read position; poll-before-downstream-done; real-socket from_tcp and real-HTTP from_http_server samples (oracle only); Model/SourceFuture.lean + Props/SourceFuture.lean (a Source whose run() returns a Future: between the end of run() and the wake-up of _run_once a start() is never lost - invariant over all histories, witness for the unrepaired start()) with its own correspondence driving a real tornado-style source atom by atom",
    "C19": " + Kafka histories on the in-memory broker observed for background loops / threads",
    "C20": " + model of failing tasks (Model/DaskFail.lean, Props/C20Fail.lean: equivalence where no stateful node follows a failure, recorded accumulate divergence with witness) compared with both real pipelines; same-named closures, two-branch fan-out, late attachment",
}


def build():
    props = [json.loads(l) for l in open(os.path.join(ROOT, "properties.jsonl"))]
    checks = []
    na = []
    for p in props:
        pid = p["id"]
        if pid in CLAIMED:
            ref, tech, text, note = CLAIMED[pid]
            tech = tech + EXTRA_TECH.get(pid, "") + CORPUS_TECH
            checks.append({
                "property_id": pid,
                "quick_cmd": "./check %s --tier quick" % pid,
                "thorough_cmd": "./check %s --tier thorough" % pid,
                "evidence_file": "evidence/%s.json" % pid,
                "replay_cmd_template": "./check %s --replay {path}" % pid,
                "engine": "lean+harness",
                "level_claimed": {"category": "proof", "text": text, "design_ref": ref},
                "level_note": note,
                "technique": tech,
            })
        else:
            na.append({"property_id": pid, "reason": NOT_YET.get(pid, "not claimed yet: model, theorems and correspondence check for this property are still being built (see DESIGN.md section 5 for the plan); nothing is asserted about it")})
    man = {
        "version": 1,
        "setup_cmd": "cd lean && lake build && cd .. && ./check --selftest",
        "hooks": {
            "guard": "STREAMZ_VERIF",
            "enable": "no hooks are needed: observation uses streamz's public extension API; checks import streamz from /repo's working tree (editable install in /venv)",
            "baseline_off_cmd": BASELINE_CMD,
            "source_commits": [],
            "add_only": True,
        },
        "engines": [
            {"name": "lean", "path": "lean/", "serves_properties": sorted(CLAIMED), "kind_free_text": "Lean 4.33 library StreamzVerif: executable models (Model/), helper lemmas (Proofs/), property theorems (Props/Cxx.lean), line-protocol drivers (Drivers/)"},
            {"name": "harness", "path": "harness/", "serves_properties": sorted(CLAIMED), "kind_free_text": "Python correspondence harness: runs the real streamz code and the Lean drivers on the same generated cases, model-free oracles for failing-input search, virtual-time event loop"},
        ],
        "checks": checks,
        "not_applicable": na,
        "notes": "Family of technique: machine-checked proof in Lean 4 with hand-written models tied to the code by a correspondence check on every run. See DESIGN.md.",
    }
    with open(os.path.join(ROOT, "MANIFEST.json"), "w") as f:
        json.dump(man, f, indent=1)
    return man


if __name__ == "__main__":
    m = build()
    print("claimed:", [c["property_id"] for c in m["checks"]])
