"""./check driver: dispatches to harness/props/<cxx>.py (see common.py for the exit protocol)."""
import argparse
import importlib
import json
import os
import sys
import traceback

from . import common


def main(argv=None):
    ap = argparse.ArgumentParser()
    ap.add_argument("prop", nargs="?")
    ap.add_argument("--tier", default=os.environ.get("VERIF_TIER") or "quick", choices=["quick", "thorough"])
    ap.add_argument("--replay")
    ap.add_argument("--selftest", action="store_true")
    args = ap.parse_args(argv)
    if args.selftest:
        ok, log = common.lean_build()
        hits = common.forbidden_scan()
        if not ok or hits:
            print(log[-3000:])
            print("\n".join(hits))
            return 2
        print("selftest ok: lean library builds, no forbidden tokens")
        return 0
    if not args.prop:
        ap.error("property id required")
    try:
        seed = int(os.environ.get("VERIF_SEED", "0") or 0)
    except ValueError:
        seed = 0
    prop = args.prop.upper()
    try:
        mod = importlib.import_module("harness.props." + prop.lower())
    except ImportError as e:
        print("no check for %s: %s" % (prop, e))
        return 2
    import logging
    import warnings
    warnings.simplefilter("ignore")     # un-awaited consumer coroutines are part of what is exercised
    logging.disable(logging.CRITICAL)   # streamz logs every user-function exception; they are expected here
    ctx = common.Ctx(prop, args.tier, seed, level=getattr(mod, "LEVEL", "proof"))
    try:
        if args.replay:
            ctx.evidence_suffix = ".replay"      # a replay must not clobber the evidence of the last full run
            data = json.load(open(args.replay))
            if data.get("kind") == "no-failing-input-found":
                # nothing concrete to replay: re-run the whole check
                mod.run(ctx)
            else:
                mod.replay(ctx, data)
        else:
            mod.run(ctx)
            corpus = [] if os.environ.get("VERIF_NO_CORPUS") else common.regression_corpus(prop)   # (switch used to measure the generators alone)
            if corpus and hasattr(mod, "replay"):
                rule = ctx.coverage.get("rule")
                cap = None if ctx.thorough() else getattr(mod, "CORPUS_QUICK_CAP", 60)
                for entry in corpus[:cap]:
                    mod.replay(ctx, entry)
                    ctx.count("regression-corpus")
                ctx.coverage["rule"] = (rule or "") + " Plus the regression corpus corpus/%s.jsonl (%d recorded inputs on which a seeded " \
                    "change or a repaired defect violated the property)." % (prop, len(corpus[:cap]))
        return ctx.finish()
    except Exception:
        traceback.print_exc()
        print("HARNESS-ERROR property=%s (exit 2; not a violation)" % prop)
        return 2


if __name__ == "__main__":
    sys.exit(main())
