"""Model-free oracle for the synchronous node catalogue.

For one node kind and the list of arrivals it *observed* (who, value, tags), computes
what the documented list-level meaning says the node must have emitted, with the
metadata tags each output must carry (C10), and which entries it may still hold
(C05).  Written from the docstrings in core.py, independently of the Lean model.

An arrival is (who, x, tags); an output is (value, tags); `held` is a list of tag lists.
`flush` pseudo-arrivals are ("flush",) tuples (collect only).
"""
from . import catalogue


class OracleError(Exception):
    """The node's own function failed on this arrival (class name in .args[0])."""


def _call(f, *a):
    try:
        return f(*a)
    except Exception as e:  # noqa: BLE001
        raise OracleError(type(e).__name__)


def flat(tagss):
    return [t for ts in tagss for t in ts]


def pack_literals(literals, tup):
    """positions of literals are positions in the final tuple"""
    out = list(tup)
    for pos, val in sorted(literals):
        out.insert(pos, val) if pos <= len(out) else out.append(val)
    return tuple(out)


class NodeOracle:
    """Incremental evaluation so that a failing arrival can be skipped (C16)."""

    def __init__(self, nd, ups):
        self.nd = nd
        self.kind = nd["kind"]
        self.ups = list(ups)
        k = self.kind
        self.idx = 0
        self.state = None
        self.outs = []
        if k in ("map", "filter", "starmap"):
            self.f = catalogue.make_fn(nd["f"])
        if k == "accumulate":
            self.f = catalogue.make_fn2(nd["f"])
            self.has_state = bool(nd.get("has_start"))
            from .graphlib import decanon
            self.state = decanon(nd["start"]) if self.has_state else None
        if k in ("partition", "partition_unique", "unique"):
            self.key = catalogue.make_fn(nd["key"]) if nd.get("key") else (lambda x: None)
        if k == "partition":
            self.groups = {}
            self.order = []
        if k == "partition_unique":
            self.group = []          # list of [key, x, tags]
        if k == "sliding_window":
            self.win = []
        if k == "unique":
            self.lru = []            # most recent first
        if k == "collect":
            self.cache = []
        if k == "zip":
            self.queues = {u: [] for u in self.ups}
        if k in ("combine_latest", "zip_latest"):
            self.latest = {}
            self.pending_lossless = []
            eo = nd.get("emit_on")
            self.emit_on = set(self.ups) if eo is None else {self.ups[i] for i in eo if i < len(self.ups)}

    # what the node may legitimately still hold (tag lists)
    def held(self):
        k = self.kind
        if k == "partition":
            return [it[1] for key in self.order for it in self.groups[key]]
        if k == "partition_unique":
            return [it[2] for it in self.group]
        if k == "sliding_window":
            n = self.nd["n"]
            # a full window has released its oldest member after emitting
            w = self.win
            return [it[1] for it in (w[1:] if len(w) >= n else w)]
        if k == "collect":
            return [it[1] for it in self.cache]
        if k == "zip":
            return [it[1] for u in self.ups for it in self.queues.get(u, [])]
        if k == "combine_latest":
            return [v[1] for v in self.latest.values()]
        if k == "zip_latest":
            return [v[1] for u, v in self.latest.items() if u != self.ups[0]] + [it[1] for it in self.pending_lossless]
        return []

    def feed(self, arrival):
        """Returns the outputs [(value, tags)] this arrival must cause; raises OracleError if the
        node's own function fails (state unchanged in that case)."""
        k = self.kind
        nd = self.nd
        if arrival[0] == "flush":
            out = [(tuple(x for x, _ in self.cache), flat(t for _, t in self.cache))]
            self.cache = []
            return out
        who, x, tags = arrival
        if k in ("source", "union", "plain"):      # plain: a Stream built through the class over an upstream - the pass-through update()
            return [(x, tags)]
        if k == "map":
            return [(_call(self.f, x), tags)]
        if k == "starmap":
            if type(x) is not tuple:
                raise OracleError("TypeError")
            return [(_call(self.f, x), tags)]
        if k == "filter":
            return [(x, tags)] if _call(self.f, x) else []
        if k == "accumulate":
            ws = nd.get("with_state", False)
            if not self.has_state:
                self.has_state, self.state = True, x
                return [((x, x) if ws else x, tags)]
            r = _call(self.f, self.state, x)
            if nd.get("returns_state"):
                try:
                    st, res = r
                except TypeError:
                    raise OracleError("TypeError")
                except ValueError:
                    raise OracleError("ValueError")
            else:
                st = res = r
            self.state = st
            return [((st, res) if ws else res, tags)]
        if k == "slice":
            i = self.idx
            self.idx += 1
            start, end, step = nd.get("start") or 0, nd.get("end"), nd.get("step") or 1
            # "works like list[] syntax"
            if i >= start and (i - start) % step == 0 and (not end or i < end):
                return [(x, tags)]
            return []
        if k == "partition":
            key = _call(self.key, x)
            if key not in self.groups:
                self.groups[key] = []
                self.order.append(key)
            self.groups[key].append((x, tags))
            if len(self.groups[key]) == nd["n"]:
                g = self.groups.pop(key)
                self.order.remove(key)
                return [(tuple(v for v, _ in g), flat(t for _, t in g))]
            return []
        if k == "partition_unique":
            key = _call(self.key, x)
            present = [it for it in self.group if it[0] == key]
            if nd.get("keep", "first") == "last":
                self.group = [it for it in self.group if it[0] != key] + [[key, x, tags]]
            elif not present:
                self.group.append([key, x, tags])
            if len(self.group) == nd["n"]:
                g, self.group = self.group, []
                return [(tuple(it[1] for it in g), flat(it[2] for it in g))]
            return []
        if k == "sliding_window":
            n = nd["n"]
            self.win = (self.win + [(x, tags)])[-n:]
            if nd.get("partial", True) or len(self.win) == n:
                return [(tuple(v for v, _ in self.win), flat(t for _, t in self.win))]
            return []
        if k == "unique":
            y = _call(self.key, x)
            hit = y in self.lru
            self.lru = [y] + [z for z in self.lru if z != y]
            if nd.get("maxsize"):
                self.lru = self.lru[:nd["maxsize"]]
            return [] if hit else [(x, tags)]
        if k == "flatten":
            if type(x) not in (tuple, list, str):
                raise OracleError("TypeError")
            items = list(x)
            return [(it, tags if i == len(items) - 1 else []) for i, it in enumerate(items)]
        if k == "pluck":
            pick = nd["pick"]

            def one(i):
                if type(x) not in (tuple, list, str):
                    raise OracleError("TypeError")
                if i >= len(x):
                    raise OracleError("IndexError")
                return x[i]
            if isinstance(pick, list):
                return [(tuple(one(i) for i in pick), tags)]
            return [(one(pick), tags)]
        if k == "collect":
            self.cache.append((x, tags))
            return []
        if k == "zip":
            if who not in self.queues:
                raise OracleError("KeyError")
            self.queues[who].append((x, tags))
            if all(self.queues[u] for u in self.ups):
                heads = [self.queues[u].pop(0) for u in self.ups]
                tup = pack_literals([(p, _dec(v)) for p, v in nd.get("literals", [])], tuple(v for v, _ in heads))
                return [(tup, flat(t for _, t in heads))]
            return []
        if k == "combine_latest":
            self.latest[who] = (x, tags)
            if all(u in self.latest for u in self.ups) and who in self.emit_on:
                return [(tuple(self.latest[u][0] for u in self.ups), flat(self.latest[u][1] for u in self.ups))]
            return []
        if k == "zip_latest":
            lossless = self.ups[0]
            if who == lossless:
                self.pending_lossless.append((x, tags))
            else:
                self.latest[who] = (x, tags)
            out = []
            if all(u in self.latest for u in self.ups[1:]) and (self.pending_lossless or who == lossless):
                have_lossless = True
                for v, t in self.pending_lossless:
                    vals = [(v, t)] + [self.latest[u] for u in self.ups[1:]]
                    out.append((tuple(a for a, _ in vals), flat(b for _, b in vals)))
                self.pending_lossless = []
                _ = have_lossless
            return out
        if k == "sink":
            if nd.get("mode") != "async":
                _call(catalogue.make_fn(nd["f"]), x)
            return []
        raise KeyError(k)


def _dec(v):
    from .graphlib import decanon
    return decanon(v)
