"""Fine-grained correspondence for `buffer(n)`: the real node, ONE LOOP HANDLE AT A TIME.

The settled-granularity correspondence (corr_asyncbuffer.py) observes the node only when the loop has nothing left
to run.  Here the real pipeline  source -> buffer(n) -> consumer  runs on the virtual loop in `step_mode` (one ready
handle per loop iteration); a *schedule* is a word over
    a  arrive   (a producer emits the next element, without awaiting the previous emits: several producers)
    h  handle   (let the loop run its next ready handle)
    d  done     (the consumer releases its reference and completes the awaitable it returned)
executed from the loop's `after_handle` hook, so an arrival can be placed between ANY two handles — between tornado's
hand-off of an item to the waiting getter and the resumption of `buffer.cb`, between the consumer's completion and
`cb`'s release, between the promotion of a parked producer and the callback that completes its `emit` awaitable.

What each step did is translated into actions of the Lean transition system Model/AsyncBufferFine.lean
(A<v> arrive, R resumeCb, D downDone, K ack; a handle that did nothing observable — tornado's `multi_future`
callback, the self-pipe read — is the empty action list) and the model must ACCEPT the observed action sequence and
agree after EVERY step on: queue content, parked producers, whether the coroutine waits for input / which element the
consumer is busy with, elements handed downstream, producers notified, every reference count, callbacks fired.

The consumer is a downstream node whose `update` retains the element's references, returns a Future and releases
when the harness completes it (the protocol of `sinks.Sink` with an awaitable consumer, with the release at the
completion instead of one loop handle later; the real `Sink` is exercised by corr_asyncbuffer.py).

Schedules: a corpus, seeded random words in several styles, and EXHAUSTIVE enumeration of every maximal interleaving
of {a, h, d} for up to `max_arrivals` arrivals.  No oracle is evaluated here.
"""
from . import common, vloop

GROUP = "AsyncBufferFine"


def _is_read_self(h):
    return getattr(h._callback, "__name__", "") == "_read_from_self"


class _Immediate:
    def add_callback(self, cb, *a, **k):
        cb(*a, **k)


class Exec:
    """One run of the real node under one schedule."""

    def __init__(self, case, chooser=None):
        self.case = case
        self.n = case["n"]
        self.tokens = list(case.get("tokens", ""))
        self.max_arrivals = case.get("max_arrivals")
        self.chooser = chooser
        self.executed = []
        self.pos = 0
        self.events = []
        self.steps = []              # {"tok", "acts", "obs"}
        self.values = []             # value of arrival i
        self.refs = []
        self.emits = []              # awaitables returned by emit
        self.acked = set()
        self.delivered = []          # arrival indices in delivery order
        self.fired = []
        self.outstanding = None      # (index, future, metadata)
        self.driving = False
        self.error = None
        self.window_arrivals = 0     # arrivals inside the hand-off window / before cb's release / before an ack
        self.parked_seen = 0

    # ------------------------------------------------------------ pipeline
    def setup(self, loop):
        from streamz import Stream
        from streamz.core import RefCounter
        ex = self
        self.loop = loop
        self.RefCounter = RefCounter

        class Consumer(Stream):
            def update(self, x, who=None, metadata=None):
                return ex.on_deliver(x, metadata)

        self.source = Stream(asynchronous=True)
        self.node = self.source.buffer(self.n)
        self.consumer = Consumer(self.node)
        self.finished = loop.create_future()

    def on_deliver(self, x, metadata):
        idx = self.values.index(x) if x in self.values else -1
        self.events.append(("deliver", idx))
        self.delivered.append(idx)
        for m in metadata or []:
            m["ref"].retain()
        fut = self.loop.create_future()
        self.outstanding = (idx, fut, metadata)
        return fut

    # ------------------------------------------------------------ observation
    def _ids(self, entries):
        return [self.values.index(e[0]) if e[0] in self.values else -1 for e in entries]

    def observe(self):
        q = self.node.queue
        getters = sum(1 for g in q._getters if not g.done())
        cb = "W" if getters else ("E%d" % self.outstanding[0] if self.outstanding is not None else "-")
        for i, e in enumerate(self.emits):
            if e is not None and e.done():
                self.acked.add(i)
        return {"items": self._ids(list(q._queue)), "putters": self._ids([p[0] for p in q._putters if not p[1].done()]),
                "cb": cb, "getters": getters, "acked": sorted(self.acked), "outs": list(self.delivered),
                "cnt": [r.count for r in self.refs], "fired": list(self.fired)}

    def record(self, tok, lead):
        before = self.steps[-1]["obs"] if self.steps else {"getters": 0, "acked": []}
        obs = self.observe()
        acts = list(lead)
        if tok == "h":
            if any(e[0] in ("deliver", "fire") for e in self.events) or obs["getters"] > before["getters"]:
                acts.append("R")
            acts += ["K"] * (len(obs["acked"]) - len(before["acked"]))
        self.steps.append({"tok": tok, "acts": acts, "obs": obs, "events": list(self.events)})
        self.events = []
        self.executed.append(tok)

    # ------------------------------------------------------------ driving
    def ready(self):
        return [h for h in self.loop._ready if not h._cancelled]

    def enabled(self):
        en = []
        if self.max_arrivals is None or len(self.values) < self.max_arrivals:
            en.append("a")
        if self.ready():
            en.append("h")
        if self.outstanding is not None:
            en.append("d")
        return en

    def next_token(self):
        if self.chooser is not None:
            en = self.enabled()
            if "h" in en and _is_read_self(self.ready()[0]):
                return "h"          # a self-pipe read commutes with everything: no branching
            if not en:
                return None
            return self.chooser(en)
        if self.pos < len(self.tokens):
            t = self.tokens[self.pos]
            self.pos += 1
            return t
        if self.ready():            # drain
            return "h"
        if self.outstanding is not None:
            return "d"
        return None

    def hook(self, handle):
        try:
            if self.driving:
                self.record("h", [])
            self.driving = True
            budget = 100000
            while budget:
                budget -= 1
                tok = self.next_token()
                if tok is None:
                    self.finish()
                    return
                if tok == "h":
                    if self.ready():
                        return
                    continue
                if tok == "a":
                    if self.max_arrivals is not None and len(self.values) >= self.max_arrivals:
                        continue
                    self.do_arrive()
                elif tok == "d":
                    if self.outstanding is None:
                        continue
                    self.do_done()
            raise RuntimeError("schedule did not terminate")
        except Exception as e:       # noqa: BLE001 - never let an exception escape into the loop machinery
            self.error = e
            self.finish()

    def do_arrive(self):
        i = len(self.values)
        val = 10 + i
        ref = self.RefCounter(cb=lambda i=i: (self.fired.append(i), self.events.append(("fire", i))), loop=_Immediate())
        self.values.append(val)
        self.refs.append(ref)
        if self.steps:
            o = self.steps[-1]["obs"]
            if o["cb"] == "-" and (self.ready() and not all(_is_read_self(h) for h in self.ready())):
                self.window_arrivals += 1
        try:
            self.emits.append(self.source.emit(val, metadata=[{"ref": ref}]))
        except Exception as e:       # noqa: BLE001
            self.emits.append(None)
            self.events.append(("raised", type(e).__name__))
        self.record("a", ["A%d" % val])
        if self.steps[-1]["obs"]["putters"]:
            self.parked_seen += 1

    def do_done(self):
        idx, fut, metadata = self.outstanding
        self.outstanding = None
        for m in metadata or []:
            m["ref"].release()
        fut.set_result(None)
        self.record("d", ["D"])

    def finish(self):
        self.driving = False
        self.loop.after_handle = None
        if not self.finished.done():
            self.finished.set_result(None)

    async def main(self, loop):
        self.setup(loop)
        loop.after_handle = self.hook
        await self.finished
        loop.after_handle = None
        if self.error is not None:
            raise self.error
        return self


def execute(case, chooser=None):
    ex = Exec(case, chooser)
    vloop.run(ex.main, step_mode=True)
    return ex


def enumerate_paths(base_case, limit=None):
    """Stateless depth-first enumeration of every maximal interleaving of the enabled tokens."""
    prefix = []
    k = 0
    while True:
        trace = []

        def chooser(en, trace=trace, prefix=prefix):
            j = len(trace)
            idx = prefix[j][0] if j < len(prefix) else 0
            trace.append((idx, len(en)))
            return en[idx]

        yield execute(dict(base_case), chooser)
        k += 1
        if limit is not None and k >= limit:
            return
        while trace and trace[-1][0] + 1 >= trace[-1][1]:
            trace.pop()
        if not trace:
            return
        trace[-1] = (trace[-1][0] + 1, trace[-1][1])
        prefix = trace


# ------------------------------------------------------------------ schedules

CORPUS = [
    # arrival before the coroutine has started at all; burst in one loop turn
    {"n": 1, "tokens": "aaa", "style": "corpus:before-start"},
    # arrival in the hand-off window (between the put that resolved the getter and cb's resumption)
    {"n": 1, "tokens": "hahaahdhhhh", "style": "corpus:hand-off-window"},
    {"n": 1, "tokens": "haaahhdhhhdhhh", "style": "corpus:hand-off-window-burst"},
    # arrival between the consumer's completion and cb's release / next get
    {"n": 1, "tokens": "hahhadahhhh", "style": "corpus:after-done"},
    {"n": 1, "tokens": "hahhadhahhhh", "style": "corpus:after-done-one-handle-later"},
    # parked producers promoted one by one; arrival between a promotion and the producer's notification
    {"n": 1, "tokens": "hahhaaaadhhahhdhhhdhhhdhhh", "style": "corpus:parked"},
    {"n": 2, "tokens": "hahhaaaadhhhadhhhdhhh", "style": "corpus:parked-n2"},
    {"n": 3, "tokens": "haaaaahhdhhdhhdhhdhhdhh", "style": "corpus:n3"},
    {"n": 1, "tokens": "", "style": "corpus:no-input"},
    {"n": 2, "tokens": "hhhdah", "style": "corpus:done-without-delivery"},
]


def gen_case(rng):
    style = rng.choice(["uniform", "eager-loop", "slow-loop", "burst", "turn-apart"])
    n = rng.choice([1, 1, 2, 3])
    if style == "burst":
        toks = []
        for _ in range(rng.randint(1, 3)):
            toks += ["h"] * rng.randint(0, 3) + ["a"] * rng.randint(2, 5) + list(rng.choices("hd", k=rng.randint(1, 8)))
    elif style == "turn-apart":
        toks = ["h"] * rng.randint(0, 2)
        for _ in range(rng.randint(2, 8)):
            toks += ["a"] + ["h"] * rng.choice([0, 1, 1, 2]) + (["d"] if rng.random() < 0.5 else [])
    else:
        w = {"uniform": (3, 4, 2), "eager-loop": (2, 8, 2), "slow-loop": (4, 2, 2)}[style]
        toks = rng.choices("ahd", weights=w, k=rng.choice([6, 10, 16, 25]))
    return {"n": n, "tokens": "".join(toks), "style": style}


# ------------------------------------------------------------------ judging

def case_json(ex):
    c = dict(ex.case)
    c["tokens"] = "".join(ex.executed)
    c.pop("max_arrivals", None)
    return c


def project(ms):
    cb = ms["cb"]
    return {"items": ms["items"], "putters": ms["putters"], "cb": cb if cb[0] in "WE" else "-",
            "acked": sorted(ms["acked"]), "outs": [o[0] for o in ms["outs"]],
            "cnt": [c[1] for c in sorted(ms["cnt"])], "fired": ms["fired"]}


def compare(ex, ans, aspects):
    if "accepted" not in ans:
        return "driver answered %r" % (ans,)
    if not ans["accepted"]:
        i = ans["at"]
        st = ex.steps[i]
        return ("the model rejects step %d (%s, actions %r, events %r): %s is not enabled in model state %s"
                % (i, st["tok"], st["acts"], st["events"], ans["act"], (ans["states"] or [{"cb": "init"}])[-1]))
    for i, (st, ms) in enumerate(zip(ex.steps, ans["states"])):
        pm = project(ms)
        for k in aspects:
            if pm[k] != st["obs"][k]:
                return ("after step %d (%s, actions %r) %s: node %r, model %r (model state %s)"
                        % (i, st["tok"], st["acts"], k, st["obs"][k], pm[k], ms["cb"]))
    last = ans["states"][-1] if ans["states"] else None
    if last is not None and not (last["cb"] == "W" and not last["acks"] and not last["items"] and not last["putters"]):
        return "the run was drained (loop idle, consumer free) but the model is not at rest: %r" % (last,)
    return None


ASPECTS = {
    "C02": ("items", "putters", "cb", "outs"),
    "C03": ("items", "putters", "cb", "acked"),
    "C04": ("cnt", "fired", "outs"),
    "C05": ("cnt", "fired"),
}


def run(ctx, prop, n_cases):
    if prop not in ASPECTS:
        return
    aspects = ASPECTS[prop]
    rng = ctx.rng
    execs = []
    for c in CORPUS:
        execs.append((execute(dict(c)), "corpus"))
    for _ in range(n_cases):
        execs.append((execute(gen_case(rng)), "random"))
    thorough = ctx.thorough()
    # parking needs n + 2 arrivals: (n, max arrivals)
    plan = [(1, 4), (2, 4), (3, 4)] if not thorough else [(1, 5), (2, 5), (3, 5)]
    cap = 200000 if thorough else 20000
    # random maximal interleavings of the trees that are too large to enumerate in this tier
    for n, amax, k in ([(3, 5, 300), (1, 6, 200)] if not thorough else [(1, 7, 3000), (2, 8, 3000), (3, 9, 3000)]):
        for _ in range(k):
            execs.append((execute({"n": n, "max_arrivals": amax, "style": "random-walk"}, chooser=lambda en: rng.choice(en)), "random-walk"))
    for n, amax in plan:
        k = 0
        for ex in enumerate_paths({"n": n, "max_arrivals": amax, "style": "exhaustive"}):
            execs.append((ex, "exhaustive"))
            ctx.count("fine:exhaustive:n=%d:arrivals<=%d" % (n, amax))
            k += 1
            if k >= cap:
                ctx.count("fine:exhaustive-truncated:n=%d" % n)
                ctx.unchecked.append("corr_asyncbufferfine: exhaustive enumeration n=%d, <=%d arrivals exceeded %d interleavings" % (n, amax, cap))
                break
    lines = [{"op": "trace", "n": ex.n, "steps": [s["acts"] for s in ex.steps]} for ex, _ in execs]
    answers = common.lean_driver(GROUP, lines) if lines else []
    for (ex, kind), ans in zip(execs, answers):
        ctx.count("fine:kind:" + kind)
        ctx.count("fine:n=%d" % ex.n)
        ctx.count("fine:arrivals:%s" % (len(ex.values) if len(ex.values) < 5 else "5+"))
        if ex.window_arrivals:
            ctx.count("fine:arrival-between-two-handles-of-one-wake-up")
        if ex.parked_seen:
            ctx.count("fine:producer-parked")
        why = compare(ex, ans, aspects)
        if why is None:
            ctx.coverage["traces_validated_against_impl"] += 1
        else:
            ctx.disagreement("buffer(%d) vs Model/AsyncBufferFine.lean: %s" % (ex.n, why), dict(case_json(ex), runner="corr_asyncbufferfine.replay"))


def replay(case):
    ex = execute(dict(case))
    ans = common.lean_driver(GROUP, [{"op": "trace", "n": ex.n, "steps": [s["acts"] for s in ex.steps]}])[0]
    return {p: compare(ex, ans, ASPECTS[p]) for p in ASPECTS}
