"""Asynchronous pipelines on the virtual-time loop: generator, adaptive schedules and the
model-free oracles for C02 (lossless delivery), C03 (backpressure), C04 (no early completion
signal), C05 (balance at quiescence) and C08 (time windows).

Pipelines are chains  source -> sync* -> A -> sync* [-> A' -> sync*] -> sink(s)  or two sources
joined by zip(maxsize); A ranges over buffer, delay, rate_limit, map_async, timed_window,
timed_window_unique, partition(timeout), latest.  Schedules interleave emissions (awaited or
not), consumer completions, map_async job completions (any order) and clock advances.
"""
import copy

from . import gen_graph, graphlib, vloop

HOLDING = ("buffer", "delay", "rate_limit", "map_async", "timed_window", "timed_window_unique",
           "partition_timeout", "latest", "zipmax")
BUFFERING = ("buffer", "delay", "map_async", "timed_window", "timed_window_unique", "partition_timeout", "latest", "zipmax",
             "partition", "collect", "zip", "sliding_window", "combine_latest", "zip_latest", "partition_unique")
BATCHING = ("timed_window", "partition_timeout", "timed_window_unique")
LOSSY = ("latest", "timed_window_unique")


def subops(op):
    """The elementary operations of `op` ({"op":"multi","ops":[...]} = several operations in one loop callback)."""
    return [s for sub in op["ops"] for s in subops(sub)] if op["op"] in ("multi", "after") else [op]


def elementary(case):
    return [s for op in case["ops"] for s in subops(op)]


# ------------------------------------------------------------------ generation

def with_interval_form(rng, nd):
    """a quarter of the timing nodes get their interval as a string ('1s', '250ms') instead of a number of seconds"""
    r = rng.random()
    if r < 0.25:
        nd["interval_str"] = "ms" if r < 0.12 else "s"
    elif r < 0.37:
        nd["interval_str"] = "np"      # ... and an eighth as a numpy scalar
    return nd


def gen_async_node(rng, kinds):
    k = rng.choice(kinds)
    if k == "buffer":
        return {"kind": "buffer", "n": rng.choice([1, 1, 2, 3])}
    if k == "delay":
        return with_interval_form(rng, {"kind": "delay", "interval": rng.choice([0.5, 1])})
    if k == "rate_limit":
        return with_interval_form(rng, {"kind": "rate_limit", "interval": rng.choice([0.25, 1])})
    if k == "map_async":
        nd = {"kind": "map_async", "f": rng.choice([["inc"], ["dbl"], ["id"]]), "parallelism": rng.choice([1, 1, 2, 3])}
        if rng.random() < 0.2:
            nd["callfail"] = [3, rng.choice([0, 1, 2])]     # the callable itself raises for some arguments
        r = rng.random()
        if r < 0.3 and not nd.get("callfail"):
            nd["call_form"] = "args" if r < 0.15 else "kwargs"      # map_async(func, *args, **kwargs) calls func(x, *args, **kwargs)
        return nd
    if k == "timed_window":
        return with_interval_form(rng, {"kind": "timed_window", "interval": rng.choice([1, 2])})
    if k == "timed_window_unique":
        return with_interval_form(rng, {"kind": "timed_window_unique", "interval": rng.choice([1, 2]),
                                        "key": rng.choice([["modk", 2], ["modk", 3], ["id"], ["bucketNone", 2], ["bucketNone", 3]]),
                                        "keep": rng.choice(["first", "last"])})
    if k == "partition_timeout":
        return {"kind": "partition_timeout", "n": rng.choice([2, 3, 2, 3, 1]), "timeout": rng.choice([1, 1, 2, 2, 0]), "key": rng.choice([None, None, ["modk", 2]])}     # (timeout=0: flushed at once)
    if k == "latest":
        return {"kind": "latest"}
    raise KeyError(k)


def gen_sync_node(rng, order_free=False):
    # after a keyed partition the cross-key order is legitimately timing dependent: only position-independent nodes
    k = rng.choice(["map", "map", "filter"] if order_free else ["map", "map", "filter", "slice", "sliding_window"])
    if k == "map":
        nd = {"kind": "map", "f": rng.choice([["inc"], ["dbl"], ["id"]])}
        if rng.random() < 0.3:
            nd["call_form"] = rng.choice(["args", "kwargs"])
        return nd
    if k == "filter":
        nd = {"kind": "filter", "f": rng.choice([["isEven"], ["gt", 1]])}
        if rng.random() < 0.3:
            nd["call_form"] = rng.choice(["args", "kwargs"])
        return nd
    if k == "slice":
        return {"kind": "slice", "start": rng.choice([None, 1]), "end": None, "step": rng.choice([None, 2])}
    return {"kind": "sliding_window", "n": 2, "partial": True}


def gen_pipeline(rng, kinds, allow_zip=True, two_async=0.3, sink_async=0.7, p_zip=0.15):
    nodes = [{"kind": "source", "ups": []}]
    if allow_zip and rng.random() < p_zip:
        nodes.append({"kind": "source", "ups": []})
        if rng.random() < 0.4:
            nodes.append({"kind": "source", "ups": []})
        k = len(nodes)
        nodes.append({"kind": "zipmax", "ups": list(range(k)), "maxsize": rng.choice([1, 2])})
        last = k
        if rng.random() < 0.3:
            # a consumer that raises on some tuples: the zip must stay usable afterwards
            nodes.append({"kind": "map", "f": ["sumTup"], "ups": [last]})
            nodes.append({"kind": "sink", "mode": "sync", "f": ["failIf", 3, rng.choice([0, 1, 2])], "ups": [last + 1]})
            return nodes
    else:
        last = 0
        n_async = 2 if rng.random() < two_async else 1
        keyed = False
        for a in range(n_async):
            if rng.random() < 0.35:
                nd = gen_sync_node(rng, order_free=keyed)
                nd["ups"] = [last]
                nodes.append(nd)
                last = len(nodes) - 1
                if nd["kind"] == "sliding_window":
                    nodes.append({"kind": "map", "f": ["sumTup"], "ups": [last]})
                    last += 1
            nd = gen_async_node(rng, kinds)
            if a > 0 or any(n["kind"] not in ("source", "map") for n in nodes):
                # a callable that raises is only generated where the exception reaches the emitter directly
                # (downstream of a buffering node it would end that node's delivery coroutine)
                nd.pop("callfail", None)
            nd["ups"] = [last]
            nodes.append(nd)
            last = len(nodes) - 1
            keyed = keyed or (nd["kind"] == "partition_timeout" and bool(nd.get("key")))
            if nd["kind"] in BATCHING and (a + 1 < n_async or rng.random() < 0.5):
                nodes.append({"kind": "flatten", "ups": [last]})
                last = len(nodes) - 1
        if rng.random() < 0.25:
            nd = gen_sync_node(rng, order_free=keyed)
            if nd["kind"] != "sliding_window" and nodes[last]["kind"] not in BATCHING:
                nd["ups"] = [last]
                nodes.append(nd)
                last = len(nodes) - 1
    nodes.append({"kind": "sink", "mode": "async" if rng.random() < sink_async else "sync", "f": ["id"], "ups": [last]})
    if rng.random() < 0.15:
        nodes.append({"kind": "sink", "mode": "sync", "f": ["id"], "ups": [last]})
    return nodes


def choose_op(rng, run, nodes, st, opts):
    sources = [i for i, n in enumerate(nodes) if n["kind"] == "source"]
    pend = sorted(run.pending)
    jobs = sorted(run.jobs)
    r = rng.random()
    awaiting = opts.get("awaiting", False)
    can_emit = (not awaiting) or all(f is None or f.done() for f in run.emits)
    if rng.random() < opts.get("p_rewire", 0.0):
        # detach / re-attach an asynchronous node from its (only) producer while it may hold data, wait for a timer or a consumer
        edges = []
        for srcn in sources:
            downs = [i for i, n in enumerate(nodes) if srcn in n.get("ups", [])]
            if len(downs) == 1 and nodes[downs[0]].get("ups") == [srcn] and nodes[downs[0]]["kind"] in HOLDING \
                    and nodes[downs[0]]["kind"] != "zipmax" and not nodes[downs[0]].get("callfail"):
                edges.append((srcn, downs[0]))
        if edges:
            e = rng.choice(edges)
            det = st.setdefault("detached", set())
            if e in det:
                det.discard(e)
                return {"op": "connect", "up": e[0], "down": e[1]}
            det.add(e)
            return {"op": "disconnect", "up": e[0], "down": e[1]}
    if rng.random() < opts.get("p_start", 0.0):
        # start() on some node of the running pipeline (e.g. after attaching a branch): it walks upstream; data in flight is unaffected
        kind = "restart" if rng.random() < opts.get("p_restart", 0.0) else "start"
        return {"op": kind, "node": rng.choice([i for i, n in enumerate(nodes) if n["kind"] != "source"])}
    if (pend or jobs) and can_emit and rng.random() < opts.get("p_multi", 0.0):
        # a completion and one or two emissions in ONE loop callback: the emission races the wake-ups the completion causes
        if jobs and (not pend or rng.random() < 0.6):
            subs = [{"op": "jobdone", "job": rng.choice(jobs)}]
        else:
            subs = [{"op": "sinkdone", "tok": rng.choice(pend)}]
        if rng.random() < 0.35 * opts.get("p_turns", 0.0):
            # straddle: one emission queued before and one after the wake-ups of the completion, both landing k iterations later
            k = rng.randint(1, 8)
            ems = []
            for _ in range(2):
                st["val"] += 1
                st["tag"] += 1
                st["ref"] += 1
                ems.append({"op": "emit", "node": rng.choice(sources), "val": st["val"], "md": [{"tag": st["tag"], "ref": st["ref"]}]})
            return {"op": "multi", "ops": [{"op": "after", "n": k, "ops": [ems[0]]}, subs[0], {"op": "after", "n": k, "ops": [ems[1]]}]}
        for _ in range(rng.choice([1, 1, 2])):
            st["val"] += 1
            st["tag"] += 1
            st["ref"] += 1
            if rng.random() < opts.get("p_turns", 0.0):
                # ... or a chosen number of loop iterations after it: every alignment of the emission with the turn in which a
                # woken coroutine (worker, delivery loop, blocked producer) runs is reachable
                subs.append({"op": "turns", "n": rng.randint(1, 9)})
            subs.append({"op": "emit", "node": rng.choice(sources), "val": st["val"], "md": [{"tag": st["tag"], "ref": st["ref"]}]})
        return {"op": "multi", "ops": subs}
    if pend and r < 0.28:
        return {"op": "sinkdone", "tok": rng.choice(pend)}
    if jobs and r < 0.5:
        if rng.random() < opts.get("p_jobfail", 0.0):
            return {"op": "jobfail", "job": rng.choice(jobs)}
        return {"op": "jobdone", "job": rng.choice(jobs)}
    if r < 0.68 or not can_emit:
        return {"op": "advance", "dt": rng.choice([0.25, 0.25, 0.5, 1, 1, 2])}
    st["val"] += 1
    st["tag"] += 1
    st["ref"] += 1
    src = rng.choice(sources)
    if len(sources) > 1 and st.get("last_src") is not None and rng.random() < 0.6:
        src = st["last_src"]        # let one producer of a zip run ahead of the other
    st["last_src"] = src
    val = st["val"] if not opts.get("small_alphabet") else rng.choice([0, 1, 2, 3])
    if opts.get("none_ok") and rng.random() < 0.25:
        val = None          # a None element (the key function maps it to a bucket shared with other elements)
    if rng.random() < opts.get("p_nomd", 0.0):
        return {"op": "emit", "node": src, "val": val, "md": []}     # e.g. a heartbeat mixed into checkpointed traffic
    return {"op": "emit", "node": src, "val": val, "md": [{"tag": st["tag"], "ref": st["ref"]}]}


NONE_SAFE = ("source", "timed_window_unique", "timed_window", "flatten", "sink", "buffer", "delay", "rate_limit", "latest")


def none_ok(nodes):
    """None elements may be emitted: every node tolerates them and some key function buckets them."""
    return all(n["kind"] in NONE_SAFE for n in nodes) and \
        any(n["kind"] == "timed_window_unique" for n in nodes) and \
        all((n.get("key") or ["bucketNone"])[0] == "bucketNone" for n in nodes if n["kind"] == "timed_window_unique")


def max_interval(nodes):
    m = 1
    for n in nodes:
        for k in ("interval", "timeout"):
            if n.get(k):
                m = max(m, n[k])
    return m


async def _drain(run, do, nodes, obs):
    """Bring the pipeline to quiescence: finish consumers and jobs, let timers expire, until nothing but empty ticks happens."""
    # drain
    big = 2 * max_interval(nodes) + 1
    for _ in range(80):
        if run.pending:
            await do({"op": "sinkdone", "tok": sorted(run.pending)[0]})
        elif run.jobs:
            await do({"op": "jobdone", "job": sorted(run.jobs)[0]})
        elif not all(f is None or f.done() for f in run.emits):
            await do({"op": "advance", "dt": big})
            if not run.pending and not run.jobs and not all(f is None or f.done() for f in run.emits):
                await do({"op": "advance", "dt": big})
                if not run.pending and not run.jobs:
                    break
        else:
            break
    # keep going until nothing but empty time-window ticks happens any more
    def busy(o):
        return any(e[0] in ("arrive", "jobstart") and e[3 if e[0] == "arrive" else 3] not in ({"t": []}, [])
                   for e in o["log"] if e[0] in ("arrive", "jobstart"))
    calm = 0
    for _ in range(120):
        if run.pending:
            await do({"op": "sinkdone", "tok": sorted(run.pending)[0]})
            calm = 0
        elif run.jobs:
            await do({"op": "jobdone", "job": sorted(run.jobs)[0]})
            calm = 0
        else:
            await do({"op": "advance", "dt": big})
            calm = 0 if busy(obs[-1]) or run.jobs else calm + 1
            if calm >= 3:
                break
    # finish without letting time pass, so that the final observation is a quiescent point
    # (a timed window hands an empty batch to an asynchronous consumer at every tick)
    for _ in range(40):
        if run.pending:
            await do({"op": "sinkdone", "tok": sorted(run.pending)[0]})
        elif run.jobs:
            await do({"op": "jobdone", "job": sorted(run.jobs)[0]})
        else:
            break



def run_adaptive(nodes, rng, n_ops, opts=None, flavour="future"):
    """Returns (case, observations); the schedule ends with a drain to quiescence."""
    opts = opts or {}
    case = {"mode": "async", "nodes": nodes, "ops": [], "flavour": flavour}
    st = {"tag": 0, "ref": 0, "val": 0}

    async def main(loop):
        run = graphlib.Run(case, loop=loop, consumer_flavour=flavour)
        obs = []

        async def do(op):
            case["ops"].append(op)
            err = run.do_sync(op)
            if op["op"] == "advance":
                await vloop.advance(op["dt"], loop)
            await vloop.settle(loop, rounds=2)
            o = run.observe(op, err)
            o["counts"] = run.counts(list(range(1, st["ref"] + 1)))
            o["pending"] = sorted(run.pending)
            o["jobs"] = sorted(run.jobs)
            obs.append(o)
        try:
            await do({"op": "settle"})      # construction-time activity (timed windows emit an empty batch at once)
            script = list(opts.get("script", []))       # scripted prefix (directed scenarios), then random operations
            for _ in range(n_ops):
                if script:
                    op = script.pop(0)
                    if op["op"] == "complete-any":      # resolved against the run: finish a consumer, else a job, else let time pass
                        if run.pending:
                            op = {"op": "sinkdone", "tok": sorted(run.pending)[0]}
                        elif run.jobs:
                            op = {"op": "jobdone", "job": sorted(run.jobs)[0]}
                        else:
                            op = {"op": "advance", "dt": op.get("dt", 1)}
                    for sub in subops(op):
                        if sub["op"] == "emit":
                            st["val"] = max(st["val"], sub["val"] if isinstance(sub["val"], int) else 0)
                            for e in sub.get("md", []):
                                st["tag"] = max(st["tag"], e["tag"])
                                st["ref"] = max(st["ref"], e.get("ref") or 0)
                    await do(op)
                else:
                    await do(choose_op(rng, run, nodes, st, opts))
            await _drain(run, do, nodes, obs)
            return obs
        finally:
            run.cleanup()

    obs = vloop.run(main)
    return case, obs


def rerun(case, drain=True):
    """Re-execute the operations of `case` on the real code.  Unless `drain` is off the run is then brought to quiescence the way
    `run_adaptive` does and the operations that took are APPENDED to case["ops"] (a fresh list): the oracles speak about quiescent
    ends, so a shortened or hand-written schedule is completed rather than judged half-way."""
    nrefs = max([e.get("ref") or 0 for op in elementary(case) if op["op"] == "emit" for e in op.get("md", [])] + [0])
    given = list(case["ops"])
    case["ops"] = []

    async def main(loop):
        run = graphlib.Run(case, loop=loop, consumer_flavour=case.get("flavour", "future"))
        obs = []

        async def do(op):
            case["ops"].append(op)
            err = run.do_sync(op)
            if op["op"] == "advance":
                await vloop.advance(op["dt"], loop)
            await vloop.settle(loop, rounds=2)
            o = run.observe(op, err)
            o["counts"] = run.counts(list(range(1, nrefs + 1)))
            o["pending"] = sorted(run.pending)
            o["jobs"] = sorted(run.jobs)
            obs.append(o)
        try:
            for op in given:
                await do(op)
            if drain:
                await _drain(run, do, case["nodes"], obs)
            return obs
        finally:
            run.cleanup()
    try:
        return vloop.run(main)
    except BaseException:
        case["ops"] = given
        raise


# ------------------------------------------------------------------ reference (synchronous semantics)

def reference_case(case, keep_md=False):
    """Same pipeline with the timing removed: buffer/delay/rate_limit -> identity, map_async f -> map f (preceded by a
    failing map when the callable rejects some arguments), zip(maxsize) -> zip; batching nodes become element-wise."""
    nodes = []
    remap = {}
    for i, nd in enumerate(case["nodes"]):
        nd = copy.deepcopy(nd)
        nd["ups"] = [remap[u] for u in nd.get("ups", [])]
        k = nd["kind"]
        if k in ("buffer", "delay", "rate_limit"):
            nd = {"kind": "map", "f": ["id"], "ups": nd["ups"]}
        elif k == "map_async":
            if nd.get("callfail"):
                nodes.append({"kind": "map", "f": ["failIf", nd["callfail"][0], nd["callfail"][1]], "ups": nd["ups"]})
                nd = {"kind": "map", "f": nd["f"], "ups": [len(nodes) - 1]}
            else:
                nd = {"kind": "map", "f": nd["f"], "ups": nd["ups"]}
        elif k == "zipmax":
            nd = {"kind": "zip", "ups": nd["ups"], "literals": []}
        elif k in ("timed_window", "partition_timeout"):
            # element-wise view: a batching node followed by flatten is the identity on the element sequence
            nd = {"kind": "map", "f": ["pair1"], "ups": nd["ups"]}
        elif k == "sink":
            nd["mode"] = "sync"
            nd.setdefault("f", ["id"])
        nodes.append(nd)
        remap[i] = len(nodes) - 1
    ops = []
    for op in elementary(case):
        if op["op"] == "emit":
            md = [{"tag": e["tag"], "ref": None} for e in op.get("md", [])] if keep_md else []
            ops.append(dict(op, md=md, node=remap[op["node"]]))
        elif op["op"] in ("connect", "disconnect"):
            ops.append({"op": op["op"], "up": remap[op["up"]], "down": remap[op["down"]]})
    return {"mode": "sync", "nodes": nodes, "ops": ops, "remap": remap}


def subops_all(ops):
    out = []
    for op in ops:
        if op["op"] == "multi":
            out += list(op["ops"])
        else:
            out.append(op)
    return out


def flat(v):
    """Flatten one level of batches: a delivered value that is a batch contributes its members."""
    return v["t"] if isinstance(v, dict) and "t" in v else (v if isinstance(v, list) else [v])


def sink_sequences(case, obs):
    seqs = {i: [] for i, n in enumerate(case["nodes"]) if n["kind"] == "sink"}
    for o in obs:
        for e in o["log"]:
            if e[0] == "arrive" and e[1] in seqs:
                seqs[e[1]].append(e[3])
    return seqs


def upstream_chain(nodes, i):
    """kinds between the entry points and node i (exclusive), following first upstreams."""
    out = []
    seen = set()
    todo = list(nodes[i].get("ups", []))
    while todo:
        u = todo.pop()
        if u in seen:
            continue
        seen.add(u)
        out.append(u)
        todo += nodes[u].get("ups", [])
    return out


# ------------------------------------------------------------------ oracles

def oracle_lossless(case, obs):
    """C02: every sink receives exactly what the synchronous semantics prescribe, once, in order."""
    nodes = case["nodes"]
    if any(n["kind"] in LOSSY for n in nodes) or any(op["op"] == "jobfail" for op in elementary(case)):
        return []
    if any(n["kind"] == "sink" and (n.get("f") or [""])[0] == "failIf" for n in nodes):
        return []
    ref = reference_case(case)
    # batching nodes: compare element sequences
    for nd in ref["nodes"]:
        if nd.get("f") == ["pair1"]:
            nd["f"] = ["rep", 1]
    robs = graphlib.run_case(ref)
    want_ref = sink_sequences(ref, robs)
    got = sink_sequences(case, obs)
    want = {s: want_ref[ref["remap"][s]] for s in got}       # reference node ids -> ids of the real pipeline
    problems = []
    for s in want:
        ups_idx = upstream_chain(nodes, s)
        chain = [nodes[u]["kind"] for u in ups_idx]
        # does the sink see batches (nearest batching/flatten ancestor is a batching node)?
        sees_batches = False
        cur = s
        while nodes[cur].get("ups"):
            cur = nodes[cur]["ups"][0]
            if nodes[cur]["kind"] == "flatten":
                break
            if nodes[cur]["kind"] in BATCHING:
                sees_batches = True
                break
        w = [x for v in want[s] for x in (flat(v) if sees_batches else [v])]
        g = [x for v in got[s] for x in (flat(v) if sees_batches else [v])]
        keyed = any(nodes[u]["kind"] == "partition_timeout" and nodes[u].get("key") for u in ups_idx)
        if keyed:
            # a keyed partition keeps order per key only: compare as multisets
            w, g = sorted(map(repr, w)), sorted(map(repr, g))
        if g != w:
            if len(g) < len(w) and (keyed or g == w[:len(g)]):
                kind = "lost"
            elif len(g) > len(w):
                kind = "duplicated"
            else:
                kind = "reordered-or-altered"
            problems.append(("delivery-" + kind + ":" + "+".join(sorted({k for k in chain if k in HOLDING})),
                             "sink %d received %r; the synchronous semantics prescribe %r" % (s, g, w)))
    return problems


def sink_tag_sequences(case, obs):
    seqs = {i: [] for i, n in enumerate(case["nodes"]) if n["kind"] == "sink"}
    for o in obs:
        for e in o["log"]:
            if e[0] == "arrive" and e[1] in seqs:
                seqs[e[1]] += list(e[4])
    return seqs


def oracle_metadata(case, obs):
    """C10 on asynchronous pipelines: at quiescence every sink has received, in order, exactly the metadata entries the synchronous
    semantics deliver to it (batching concatenates its members' metadata in member order, so the concatenation over all deliveries
    does not depend on where the batch boundaries fall)."""
    nodes = case["nodes"]
    if any(n["kind"] in LOSSY for n in nodes) or any(op["op"] in ("jobfail", "sinkfail") for op in elementary(case)):
        return []
    if any(n["kind"] == "sink" and (n.get("f") or [""])[0] == "failIf" for n in nodes) or any(n.get("callfail") for n in nodes):
        return []
    ref = reference_case(case, keep_md=True)
    for nd in ref["nodes"]:
        if nd.get("f") == ["pair1"]:
            nd["f"] = ["rep", 1]
    robs = graphlib.run_case(ref)
    want_ref = sink_tag_sequences(ref, robs)
    got = sink_tag_sequences(case, obs)
    problems = []
    for s_ in got:
        w, g = want_ref[ref["remap"][s_]], got[s_]
        ups_idx = upstream_chain(nodes, s_)
        # flatten attaches a batch's metadata to its LAST piece: a node that drops pieces below a batching node legitimately drops
        # metadata depending on where the batch boundaries fell - no claim for such a sink
        dropping_below_batch, seen_drop = False, False
        cur = s_
        while nodes[cur].get("ups"):
            cur = nodes[cur]["ups"][0]
            if nodes[cur]["kind"] in ("filter", "slice", "unique", "sliding_window"):     # (a window re-associates pieces and metadata)
                seen_drop = True
            if nodes[cur]["kind"] in BATCHING and seen_drop:
                dropping_below_batch = True
        if dropping_below_batch:
            continue
        if any(nodes[u]["kind"] == "partition_timeout" and nodes[u].get("key") for u in ups_idx):
            w, g = sorted(w), sorted(g)
        if g != w:
            chain = "+".join(sorted({nodes[u]["kind"] for u in ups_idx if nodes[u]["kind"] in HOLDING}))
            problems.append(("metadata:" + chain, "sink %d received the metadata tags %r over all its deliveries; the elements it received carry %r "
                             "(synchronous semantics)" % (s_, g, w)))
    return problems


def tag_owner(case):
    """tag -> index of the emit op that introduced it; ref -> tag."""
    owner, ref_tag = {}, {}
    k = 0
    for op in elementary(case):
        if op["op"] == "emit":
            for e in op.get("md", []):
                owner[e["tag"]] = k
                if e.get("ref"):
                    ref_tag[e["ref"]] = e["tag"]
            k += 1
    return owner, ref_tag


class Holders:
    """Which tags are inside which holding node / unfinished consumer / running job, from the logs."""

    def __init__(self, nodes):
        self.nodes = nodes
        self.inside = {i: [] for i, n in enumerate(nodes) if n["kind"] in HOLDING}     # list of (tags, key, value)
        self.consumers = {}     # tok -> tags
        self.jobs = {}          # jid -> node
        self.keyfn = {}
        from . import catalogue
        for i, n in enumerate(nodes):
            if n["kind"] == "timed_window_unique":
                self.keyfn[i] = catalogue.make_fn(n["key"])

    def feed(self, op, o):
        prev = None
        for e in o["log"]:
            if e[0] == "arrive":
                prev = e
                d = e[1]
                if d in self.inside:
                    k = self.nodes[d]["kind"]
                    val = graphlib.decanon(e[3])
                    if k == "latest":
                        self.inside[d] = [(e[4], None, val)]
                    elif k == "timed_window_unique":
                        key = self.keyfn[d](val)
                        present = [it for it in self.inside[d] if it[1] == key]
                        if self.nodes[d].get("keep", "first") == "last":
                            self.inside[d] = [it for it in self.inside[d] if it[1] != key] + [(e[4], key, val)]
                        elif not present:
                            self.inside[d].append((e[4], key, val))
                    else:
                        self.inside[d].append((e[4], None, val))
            elif e[0] == "emit" and e[1] in self.inside:
                k = self.nodes[e[1]]["kind"]
                tags = set(e[3])
                if k == "latest":
                    pass        # latest keeps its slot (and its reference) until replaced
                else:
                    self.inside[e[1]] = [it for it in self.inside[e[1]] if not (set(it[0]) & tags) and it[0]] + \
                                        [it for it in self.inside[e[1]] if not it[0] and False]
            elif e[0] == "start" and prev is not None:
                self.consumers[e[2]] = prev[4]
        for sub in subops(op):
            if sub["op"] in ("sinkdone", "sinkfail"):
                self.consumers.pop(sub["tok"], None)
        for e in o["log"]:
            if e[0] == "jobstart":
                self.jobs[e[2]] = (e[1], e[3])
        for sub in subops(op):
            if sub["op"] == "jobfail" and sub["job"] in self.jobs:
                d, val = self.jobs[sub["job"]]
                # the failed element is logged and dropped by map_async: it is no longer "held"
                self.inside[d] = [it for it in self.inside.get(d, []) if graphlib.canon(it[2]) != val]

    def holding(self, tag):
        out = []
        for d, items in self.inside.items():
            if any(tag in it[0] for it in items):
                out.append("node %d (%s)" % (d, self.nodes[d]["kind"]))
        for tok, tags in self.consumers.items():
            if tag in tags:
                out.append("consumer invocation %d" % tok)
        return out


def oracle_early_callback(case, obs):
    """C04: a completion callback never fires while the element (or anything carrying its entry) is held."""
    nodes = case["nodes"]
    owner, ref_tag = tag_owner(case)
    h = Holders(nodes)
    problems = []
    job_val = {}            # job id -> (node, value)
    arr_tags = {}           # (node, repr(value)) -> tags
    failed_tags = set()
    for k, (op, o) in enumerate(zip(case["ops"], obs)):
        h.feed(op, o)
        for e in o["log"]:
            if e[0] == "jobstart":
                job_val[e[2]] = (e[1], repr(e[3]))
            elif e[0] == "arrive":
                arr_tags[(e[1], repr(e[3]))] = e[4]
        for sub in subops(op):
            if sub["op"] == "jobfail" and sub["job"] in job_val:
                failed_tags |= set(arr_tags.get(job_val[sub["job"]], []))
        for e in o["log"]:
            if e[0] == "fire" and ref_tag.get(e[1]) in failed_tags:
                problems.append(("failed-callback:map_async", "op %d %r: the completion callback of ref %d fired although the mapped coroutine raised for its element"
                                 % (k, op, e[1])))
                return problems
            if e[0] == "fire":
                who = h.holding(ref_tag.get(e[1]))
                who = [w for w in who if "(latest)" not in w or True]
                if who:
                    kinds = sorted({w.split("(")[1].rstrip(")") if "(" in w else "consumer" for w in who})
                    problems.append(("early-callback:" + "+".join(kinds),
                                     "op %d %r: the completion callback of ref %d fired while its element is still held by %s"
                                     % (k, op, e[1], ", ".join(who))))
                    return problems
    return problems


def oracle_balance(case, obs):
    """C05: at the final quiescent point count == legitimate holders; never negative; never rises after zero."""
    nodes = case["nodes"]
    owner, ref_tag = tag_owner(case)
    h = Holders(nodes)
    problems = []
    zero_seen = set()
    for k, (op, o) in enumerate(zip(case["ops"], obs)):
        h.feed(op, o)
        for e in o["log"]:
            if e[0] == "fire":
                zero_seen.add(e[1])
            elif e[0] == "retain" and e[1] in zero_seen:
                problems.append(("count-resurrected", "op %d %r: ref %d is retained again after its count had reached zero" % (k, op, e[1])))
                return problems
        for r, c in enumerate(o.get("counts", []), 1):
            if c < 0:
                problems.append(("negative-count", "op %d: ref %d has count %d" % (k, r, c)))
                return problems
    last = obs[-1]
    if last.get("pending") or last.get("jobs"):
        return problems
    if any(o.get("err") for o in obs) or any(str(x).startswith("raised") for x in last.get("emits", [])):
        return problems     # an element whose processing raised keeps the retains of the aborted frames, by design
    for r, c in enumerate(last.get("counts", []), 1):
        if r not in ref_tag:
            continue            # a reference id that no emission of this case carries
        tag = ref_tag.get(r)
        legit = 0
        for d, items in h.inside.items():
            kd = nodes[d]["kind"]
            if kd in ("latest", "zipmax") and any(tag in it[0] for it in items):
                legit += 1
        sw = [i for i, n in enumerate(nodes) if n["kind"] == "sliding_window"]
        if sw:
            continue        # the synchronous holder is covered by the deterministic model (C05 sync part)
        if c != legit:
            where = [nodes[u]["kind"] for u in range(len(nodes)) if nodes[u]["kind"] in HOLDING]
            problems.append(("final-count:" + "+".join(sorted(set(where))),
                             "at the final quiescent point ref %d has count %d but %d legitimate holder(s)" % (r, c, legit)))
            return problems
        if c == 0 and r not in zero_seen:
            problems.append(("callback-missing", "ref %d ended at count 0 but its completion callback never fired" % r))
            return problems
    return problems


def transparent_reach(nodes, sink):
    return all(nodes[u]["kind"] not in BUFFERING for u in upstream_chain(nodes, sink))


def oracle_backpressure(case, obs):
    """C03: emit waits for transparently reached consumers; bounds; no pending emit at final quiescence."""
    nodes = case["nodes"]
    owner, ref_tag = tag_owner(case)
    problems = []
    tsinks = [i for i, n in enumerate(nodes) if n["kind"] == "sink" and transparent_reach(nodes, i)]
    failing_sink = any(n["kind"] == "sink" and (n.get("f") or [""])[0] == "failIf" for n in nodes) or any(n.get("callfail") for n in nodes)
    consumers = {}      # tok -> (sink, tags)
    handed = {i: 0 for i, n in enumerate(nodes) if n["kind"] in ("buffer", "map_async")}
    first_after_source = {}
    for i in handed:
        chain = upstream_chain(nodes, i)
        if all(nodes[u]["kind"] in ("source", "map") for u in chain) and sum(1 for d in nodes if i in d.get("ups", [])) >= 0:
            fan = [j for j, n in enumerate(nodes) if any(u in chain for u in n.get("ups", [])) and j != i and j not in chain]
            if not fan:
                first_after_source[i] = True
    for k, (op, o) in enumerate(zip(case["ops"], obs)):
        prev = None
        for e in o["log"]:
            if e[0] == "arrive":
                prev = e
            elif e[0] == "start" and prev is not None:
                consumers[e[2]] = (e[1], prev[4])
            elif e[0] == "emit" and e[1] in handed:
                handed[e[1]] += 1
        for sub in subops(op):
            if sub["op"] in ("sinkdone", "sinkfail"):
                consumers.pop(sub["tok"], None)
        stats = o.get("emits", [])
        for ix, stat in enumerate(stats):
            if stat == "done":
                for tok, (s, tags) in consumers.items():
                    if s in tsinks and any(owner.get(t) == ix for t in tags):
                        problems.append(("emit-early", "op %d %r: the awaitable of emit #%d completed while consumer invocation %d (sink %d), "
                                         "reached without crossing a buffering node, has not finished" % (k, op, ix, tok, s)))
                        return problems
            if stat.startswith("raised") and not failing_sink:
                problems.append(("emit-raised", "op %d %r: the awaitable of emit #%d failed with %s" % (k, op, ix, stat)))
                return problems
        accepted = sum(1 for s in stats if s == "done")
        for i in first_after_source:
            bound = nodes[i]["n"] if nodes[i]["kind"] == "buffer" else nodes[i].get("parallelism", 1)
            if nodes[i]["kind"] == "map_async" and accepted - handed[i] == bound + 1:
                problems.append(("bound-exceeded-by-one:map_async",
                                 "op %d %r: %d emissions accepted but only %d handed on by node %d (map_async, parallelism %d): parallelism+1 jobs are in flight"
                                 % (k, op, accepted, handed[i], i, bound)))
                continue
            if accepted - handed[i] > bound:
                problems.append(("bound-exceeded:" + nodes[i]["kind"],
                                 "op %d %r: %d emissions accepted (awaitable completed) but only %d handed on by node %d (%s, bound %d)"
                                 % (k, op, accepted, handed[i], i, nodes[i]["kind"], bound)))
                return problems
    if problems:
        return problems[:1]
    last = obs[-1]
    zips = [i for i, n in enumerate(nodes) if n["kind"] == "zipmax"]
    if zips:
        # a producer that is ahead of the other one by more than maxsize is legitimately blocked
        z = zips[0]
        srcs = nodes[z]["ups"]
        per = {s: [] for s in srcs}
        ix = 0
        for op in elementary(case):
            if op["op"] == "emit":
                if op["node"] in per:
                    per[op["node"]].append(ix)
                ix += 1
        tuples = min(len(v) for v in per.values())
        stats = last.get("emits", [])
        if not last.get("pending") and not last.get("jobs"):
            for s_, idxs in per.items():
                for j, ix in enumerate(idxs):
                    may_block = j >= tuples + nodes[z]["maxsize"]
                    if ix < len(stats) and stats[ix] == "pending" and not may_block:
                        problems.append(("emit-stuck:zipmax", "emit #%d (element %d of source %d) never completed although only %d tuple(s) were formed and maxsize is %d"
                                         % (ix, j, s_, tuples, nodes[z]["maxsize"])))
                        return problems
                    if ix < len(stats) and stats[ix] in ("done",) and may_block:
                        problems.append(("zip-maxsize-admits-all-blocked", "emit #%d (element %d of source %d) was accepted although %d elements of that source are unmatched (maxsize %d)"
                                         % (ix, j, s_, len(idxs) - tuples, nodes[z]["maxsize"])))
                        return problems
        return problems
    if not last.get("pending") and not last.get("jobs"):
        for ix, stat in enumerate(last.get("emits", [])):
            if stat == "pending":
                problems.append(("emit-stuck:" + "+".join(sorted({n["kind"] for n in nodes if n["kind"] in HOLDING})),
                                 "every consumer has finished and time has passed, but the awaitable of emit #%d never completed" % ix))
                return problems
    return problems


def oracle_windows(case, obs):
    """C08: conservation, order, partition size, deadline, no spurious partial / empty partition."""
    nodes = case["nodes"]
    problems = []
    for i, nd in enumerate(nodes):
        k = nd["kind"]
        if k not in BATCHING:
            continue
        arrivals = []       # (time, value, tags)
        batches = []        # (time, [values], tags)
        blocked = []        # (from, to) downstream pending intervals of this node's emissions
        open_tok = {}
        for op, o in zip(case["ops"], obs):
            in_emit = False
            for e, t in zip(o["log"], o["t"]):
                if e[0] == "arrive" and e[1] == i:
                    arrivals.append((t, graphlib.decanon(e[3]), e[4]))
                    in_emit = False
                elif e[0] == "emit" and e[1] == i:
                    batches.append((t, list(graphlib.decanon(e[2])), e[3]))
                    in_emit = True
                elif e[0] == "start" and in_emit:
                    # a consumer invocation started by this node's emission: the node is blocked until it finishes
                    open_tok[e[2]] = t
            for sub in subops(op):
                if sub["op"] == "sinkdone" and sub["tok"] in open_tok:
                    blocked.append((open_tok.pop(sub["tok"]), o["now"]))
        end = obs[-1]["now"]
        for tok, t0 in open_tok.items():
            blocked.append((t0, end))
        vals = [v for _, v, _ in arrivals]
        below = [j for j in range(len(nodes)) if i in upstream_chain(nodes, j)]
        timing_below = any(nodes[j]["kind"] in HOLDING for j in below)
        if k == "timed_window":
            got = [x for _, b, _ in batches for x in b]
            if got != vals[:len(got)] or (len(got) != len(vals) and not obs[-1].get("pending")):
                problems.append(("window-conservation:timed_window", "node %d: arrivals %r, batches %r" % (i, vals, [b for _, b, _ in batches])))
                continue
            # deadline: emitted no later than one interval after arrival, plus the time blocked downstream
            pos = 0
            for tb, b, _ in batches:
                for x in b:
                    ta = arrivals[pos][0]
                    pos += 1
                    blk = sum(max(0, min(tb, b1) - max(ta, b0)) for b0, b1 in blocked)
                    if not timing_below and tb - ta > nd["interval"] + blk + 1e-9:
                        problems.append(("window-deadline:timed_window", "node %d: element %r arrived at %s and was emitted at %s (interval %s, blocked %s)"
                                         % (i, x, ta, tb, nd["interval"], blk)))
        elif k == "partition_timeout":
            n, T = nd["n"], nd["timeout"]
            from . import catalogue
            keyf = catalogue.make_fn(nd["key"]) if nd.get("key") else (lambda x: None)
            per_key_arr, per_key_out = {}, {}
            for t, v, _ in arrivals:
                per_key_arr.setdefault(keyf(v), []).append((t, v))
            for tb, b, _ in batches:
                if not b:
                    problems.append(("partition-empty", "node %d emitted an empty partition at %s" % (i, tb)))
                    continue
                if len(b) > n:
                    problems.append(("partition-oversize", "node %d emitted %r (n=%d)" % (i, b, n)))
                ks = {keyf(x) for x in b}
                if len(ks) != 1:
                    problems.append(("partition-mixed-keys", "node %d emitted %r" % (i, b)))
                    continue
                per_key_out.setdefault(ks.pop(), []).append((tb, b))
            for key, arr in per_key_arr.items():
                outs = per_key_out.get(key, [])
                got = [x for _, b in outs for x in b]
                want = [v for _, v in arr]
                if got != want[:len(got)] or (len(got) != len(want)):
                    problems.append(("window-conservation:partition", "node %d key %r: arrivals %r, partitions %r" % (i, key, want, [b for _, b in outs])))
                    continue
                pos = 0
                for tb, b in outs:
                    t_first = arr[pos][0]
                    t_last = arr[pos + len(b) - 1][0]
                    pos += len(b)
                    if len(b) < n and abs(tb - (t_first + T)) > 1e-9:
                        problems.append(("partition-spurious-partial", "node %d key %r: partial partition %r emitted at %s; its first element arrived at %s (timeout %s)"
                                         % (i, key, b, tb, t_first, T)))
                    if len(b) == n and abs(tb - t_last) > 1e-9 and not (n == 1):
                        problems.append(("partition-late-full", "node %d key %r: full partition %r emitted at %s, completed at %s" % (i, key, b, tb, t_last)))
                    if tb - t_first > T + 1e-9:
                        problems.append(("window-deadline:partition", "node %d key %r: %r first arrival %s emitted %s (timeout %s)" % (i, key, b, t_first, tb, T)))
        elif k == "timed_window_unique":
            from . import catalogue
            keyf = catalogue.make_fn(nd["key"])
            keep_last = nd.get("keep", "first") == "last"
            # a window is what arrived between two emissions, in event order
            cur = []
            for op, o in zip(case["ops"], obs):
                for e, t in zip(o["log"], o["t"]):
                    if e[0] == "arrive" and e[1] == i:
                        v = graphlib.decanon(e[3])
                        ky = keyf(v)
                        if keep_last:
                            cur = [w for w in cur if keyf(w) != ky] + [v]
                        elif all(keyf(w) != ky for w in cur):
                            cur.append(v)
                    elif e[0] == "emit" and e[1] == i:
                        b = list(graphlib.decanon(e[2]))
                        if b != cur:
                            problems.append(("window-conservation:timed_window_unique",
                                             "node %d: the window ending at %s must contain %r (keep=%s) but %r was emitted"
                                             % (i, t, cur, nd.get("keep", "first"), b)))
                        cur = []
    return problems


ORACLES = {"metadata": oracle_metadata, "lossless": oracle_lossless, "early": oracle_early_callback, "balance": oracle_balance,
           "backpressure": oracle_backpressure, "windows": oracle_windows}


def is_nontrivial(case, obs):
    ops = [op["op"] for op in elementary(case)]
    return ops.count("emit") >= 2 and sum(len(o["log"]) for o in obs) >= 8


def invalid_schedule(obs):
    return any((o.get("err") or "").startswith("invalid-op") for o in obs)


def evaluate(ctx, case, obs, oracles, signatures):
    if invalid_schedule(obs):
        # a recorded schedule (regression corpus, replay) completes a consumer / job that does not exist in this run: schedules are
        # generated against the behaviour of the tree they ran on; on this tree the recorded one is not a schedule at all
        ctx.count("recorded-schedule-not-applicable")
        return
    for n in case["nodes"]:
        ctx.count("kind:" + n["kind"])
    for op in case["ops"]:
        ctx.count("op:" + op["op"])
    ctx.count("flavour:" + case.get("flavour", "future"))
    ctx.case({"nodes": case["nodes"], "ops": case["ops"], "flavour": case.get("flavour")}, nontrivial=is_nontrivial(case, obs))
    for name in oracles:
        probs = [p for p in ORACLES[name](case, obs) if p[0].split(":")[0] in signatures]
        if probs:
            sig, what = probs[0]

            def still(trial):
                o2 = rerun(trial)
                if invalid_schedule(o2):
                    return False
                return any(p[0] == sig for p in ORACLES[name](trial, o2))
            ctx.failure(sig, what, shrink(case, still), oracle=name)
            return


def shrink(case, still_fails, budget=40):
    ops = list(case["ops"])
    n = 0
    changed = True
    while changed and n < budget:
        changed = False
        for i in range(len(ops) - 1, -1, -1):
            if n >= budget:
                break
            trial = dict(case, ops=ops[:i] + ops[i + 1:])
            n += 1
            try:
                if still_fails(trial):
                    ops = trial["ops"]
                    changed = True
            except Exception:  # noqa: BLE001
                pass
    return dict(case, ops=ops)
