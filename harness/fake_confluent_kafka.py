"""In-memory stand-in for the parts of `confluent_kafka` that streamz/sources.py uses.

Installed as `sys.modules['confluent_kafka']` by `install()` before the source's
`import confluent_kafka as ck` runs (the import is inside the functions, so this
can be done at any time).  The broker state lives at module level, keyed by the
`bootstrap.servers` string, so every Consumer built with the same string (the
source's own consumer, the throw-away consumers of `get_message_batch`, the
consumer of a restarted source) sees the same log, watermarks and group offsets.

Semantics implemented (the ones the anchored code relies on):
  * a partition is a log of messages with offsets `base .. base+len-1`; the low
    watermark is the first retained offset, the high watermark is the offset of
    the next message to be produced (librdkafka's convention);
  * `committed()` answers OFFSET_INVALID (-1001) for a (group, partition) without
    a stored offset;
  * `commit(offsets=[tp])` stores tp.offset for (group, topic, partition);
  * `assign([tp])` + `poll()` deliver the messages of the assigned partition from
    tp.offset on, one per call, None when the log is exhausted; an out-of-range
    start offset is resolved with the consumer's `auto.offset.reset`;
  * `get_watermark_offsets` of a partition that does not exist raises KafkaException.
Every call that matters is appended to `broker.log` (the observation the C09 oracle reads).
"""
import sys
import types

OFFSET_INVALID = -1001
OFFSET_BEGINNING = -2
OFFSET_END = -1


class KafkaError(Exception):
    _UNKNOWN_PARTITION = -190

    def __init__(self, code=-1, reason=""):
        super().__init__(code, reason)
        self._code = code
        self._reason = reason

    def code(self):
        return self._code

    def str(self):
        return self._reason


class KafkaException(Exception):
    pass


class TopicPartition:
    def __init__(self, topic, partition=-1, offset=OFFSET_INVALID):
        self.topic = topic
        self.partition = partition
        self.offset = offset
        self.error = None

    def __repr__(self):
        return "TopicPartition(%r,%r,%r)" % (self.topic, self.partition, self.offset)


class Message:
    def __init__(self, topic, partition, offset, key, value):
        self._t, self._p, self._o, self._k, self._v = topic, partition, offset, key, value

    def topic(self):
        return self._t

    def partition(self):
        return self._p

    def offset(self):
        return self._o

    def key(self):
        return self._k

    def value(self):
        return self._v

    def error(self):
        return None


class _Partition:
    def __init__(self):
        self.base = 0          # offset of msgs[0] == low watermark
        self.msgs = []         # (key, value)

    @property
    def low(self):
        return self.base

    @property
    def high(self):
        return self.base + len(self.msgs)


class Broker:
    """One fake cluster.  Harness-side API: create_topic/add_partitions/produce/truncate."""

    def __init__(self, name):
        self.name = name
        self.topics = {}        # topic -> [ _Partition ]
        self.group_offsets = {}  # (group, topic, partition) -> offset
        self.log = []           # observation log (tuples)
        self.consumers = []
        self.produced = 0

    def create_topic(self, topic, npartitions):
        self.topics[topic] = [_Partition() for _ in range(npartitions)]

    def add_partitions(self, topic, m):
        self.topics[topic] += [_Partition() for _ in range(m)]

    def produce(self, topic, partition, k=1, value=None):
        part = self.topics[topic][partition]
        for _ in range(k):
            off = part.high
            v = value if value is not None else ("p%d-o%d" % (partition, off)).encode()
            part.msgs.append((("k%d" % off).encode(), v))
            self.produced += 1

    def truncate(self, topic, partition, k):
        """Retention: drop the k oldest retained messages (low watermark moves up)."""
        part = self.topics[topic][partition]
        k = min(k, len(part.msgs))
        del part.msgs[:k]
        part.base += k

    def watermarks(self, topic, partition):
        part = self.topics[topic][partition]
        return part.low, part.high

    def committed(self, group, topic, partition):
        return self.group_offsets.get((group, topic, partition), OFFSET_INVALID)


BROKERS = {}


def broker(name):
    if name not in BROKERS:
        BROKERS[name] = Broker(name)
    return BROKERS[name]


def reset_all():
    BROKERS.clear()


class _TopicMeta:
    def __init__(self, n):
        self.partitions = {i: object() for i in range(n)}


class _ClusterMeta:
    def __init__(self, topics):
        self.topics = topics


class Consumer:
    def __init__(self, conf):
        self.conf = dict(conf)
        self.broker = broker(self.conf.get("bootstrap.servers", "default"))
        self.group = self.conf.get("group.id")
        if self.group is None:
            raise KafkaException(KafkaError(-186, "group.id must be set"))
        self.assigned = None    # [topic, partition, next offset]
        self.closed = False
        self.dead = False       # set by the harness when the owning process "crashed"
        self.broker.consumers.append(self)
        ac = self.conf.get("enable.auto.commit", True)
        self.broker.log.append(("consumer", self.group, str(ac).lower(), self.conf.get("auto.offset.reset")))

    # -- used by FromKafkaBatched.start / poll_kafka
    def _alive(self, what):
        if self.closed:
            raise RuntimeError("Consumer closed")
        if self.dead:
            # a call made by code of an incarnation the harness has crashed
            self.broker.log.append(("dead-call", what))
            raise KafkaException(KafkaError(-1, "process is dead"))

    def subscribe(self, topics, **kw):
        self._alive("subscribe")

    def unsubscribe(self):
        pass

    def list_topics(self, topic=None, timeout=-1):
        self._alive("list_topics")
        return _ClusterMeta({t: _TopicMeta(len(ps)) for t, ps in self.broker.topics.items()})

    def get_watermark_offsets(self, tp, timeout=None, cached=False):
        self._alive("get_watermark_offsets")
        parts = self.broker.topics.get(tp.topic)
        if parts is None or not (0 <= tp.partition < len(parts)):
            raise KafkaException(KafkaError(KafkaError._UNKNOWN_PARTITION, "unknown partition"))
        return self.broker.watermarks(tp.topic, tp.partition)

    def committed(self, tps, timeout=None):
        self._alive("committed")
        out = []
        for tp in tps:
            off = self.broker.committed(self.group, tp.topic, tp.partition)
            out.append(TopicPartition(tp.topic, tp.partition, off))
        self.broker.log.append(("committed?", self.group, tuple((t.partition, t.offset) for t in out)))
        return out

    def commit(self, message=None, offsets=None, asynchronous=True):
        self._alive("commit")
        for tp in offsets or []:
            self.broker.group_offsets[(self.group, tp.topic, tp.partition)] = tp.offset
            self.broker.log.append(("commit", self.group, tp.partition, tp.offset))

    # -- used by get_message_batch
    def assign(self, tps):
        self._alive("assign")
        tp = tps[0]
        low, high = self.broker.watermarks(tp.topic, tp.partition)
        off = tp.offset
        if off == OFFSET_BEGINNING:
            off = low
        elif off == OFFSET_END:
            off = high
        elif off == OFFSET_INVALID:
            c = self.broker.committed(self.group, tp.topic, tp.partition)
            off = c if c != OFFSET_INVALID else (low if self.conf.get("auto.offset.reset") in ("earliest", "smallest", "beginning") else high)
        self.assigned = [tp.topic, tp.partition, off]
        self.broker.log.append(("assign", tp.partition, tp.offset))

    def poll(self, timeout=None):
        self._alive("poll")
        if self.assigned is None:
            return None
        topic, p, off = self.assigned
        part = self.broker.topics[topic][p]
        if off < part.low or off > part.high:
            # offset out of range: auto.offset.reset decides
            off = part.low if self.conf.get("auto.offset.reset") in ("earliest", "smallest", "beginning") else part.high
        if off >= part.high:
            self.assigned[2] = off
            self.broker.last_poll_none = True
            return None
        self.broker.last_poll_none = False
        k, v = part.msgs[off - part.base]
        self.assigned[2] = off + 1
        self.broker.log.append(("deliver", p, off))
        return Message(topic, p, off, k, v)

    def consume(self, num_messages=1, timeout=-1):
        out = []
        while len(out) < num_messages:
            m = self.poll(0)
            if m is None:
                break
            out.append(m)
        return out

    def close(self):
        self.closed = True


def install():
    """Make `import confluent_kafka` resolve to this module."""
    mod = sys.modules[__name__]
    sys.modules["confluent_kafka"] = mod
    return mod
