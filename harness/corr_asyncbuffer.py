"""Correspondence for the node group AsyncBuffer = buffer(n), map_async(func, parallelism=p).

Runs the real nodes in single-node pipelines  source -> N -> sink  (sink synchronous, or asynchronous with a
harness-completed consumer of one of the three flavours) on the virtual-time loop under random schedules, replays
every operation through the Lean models (lean/StreamzVerif/Model/AsyncBuffer.lean via Drivers/AsyncBuffer.lean)
and compares, after EVERY operation (each observation is taken when the loop has settled):

  C02  the node's emissions (element, value) in order, the user coroutines started (map_async) in order, whether an
       emission is awaiting the consumer;
  C03  which emit awaitables have completed, how many elements are queued / blocked (accepted minus handed on),
       which jobs are running;
  C04  the exact retain / release / callback sequence of every reference counter during the operation, every count
       after it, callbacks fired;
  C05  as C04.

A corpus of hand-picked boundary cases runs first.  Half of the random schedules come from
`asynccheck.run_adaptive`; the other half from a local scheduler that mixes in
  {"op":"jobfail","job":j}          the user coroutine of map_async raises
  {"op":"multi","ops":[...]}        several operations in ONE loop callback (no settling in between): a completion
                                    racing an emission — the model applies them one after the other
No oracle is evaluated here.
"""
import logging

from . import asynccheck as ac, common, graphlib, vloop

GROUP = "AsyncBuffer"


# ------------------------------------------------------------------ generation

def gen_nodes(rng, kind=None):
    kind = kind or rng.choice(["buffer", "map_async"])
    if kind == "buffer":
        nd = {"kind": "buffer", "n": rng.choice([1, 1, 2, 3]), "ups": [0]}
    else:
        nd = {"kind": "map_async", "f": rng.choice([["inc"], ["dbl"], ["id"]]), "parallelism": rng.choice([1, 1, 2, 3]), "ups": [0]}
    sink = {"kind": "sink", "mode": "async" if rng.random() < 0.7 else "sync", "f": ["id"], "ups": [1]}
    return [{"kind": "source", "ups": []}, nd, sink]


def _emit_op(st):
    st["val"] += 1
    st["tag"] += 1
    st["ref"] += 1
    return {"op": "emit", "node": 0, "val": st["val"], "md": [{"tag": st["tag"], "ref": st["ref"]}]}


def choose_local(rng, run, st, opts):
    """Like asynccheck.choose_op, plus failing jobs and compound operations."""
    pend, jobs = sorted(run.pending), sorted(run.jobs)
    can_emit = (not opts.get("awaiting")) or all(f is None or f.done() for f in run.emits)
    r = rng.random()
    if r < 0.22 and (pend or jobs):
        # a completion and an emission (or two completions) in one loop callback
        subs = []
        if jobs and (not pend or rng.random() < 0.6):
            j = rng.choice(jobs)
            subs.append({"op": "jobdone", "job": j})
            if len(jobs) > 1 and rng.random() < 0.3:
                subs.append({"op": "jobdone", "job": rng.choice([x for x in jobs if x != j])})
        else:
            subs.append({"op": "sinkdone", "tok": rng.choice(pend)})
        for _ in range(rng.choice([1, 1, 2])):
            subs.append(_emit_op(st))
        if rng.random() < 0.3:
            rng.shuffle(subs)
        return {"op": "multi", "ops": subs}
    if r < 0.30 and not (pend or jobs):
        return {"op": "multi", "ops": [_emit_op(st), _emit_op(st)]}
    if pend and r < 0.46:
        return {"op": "sinkdone", "tok": rng.choice(pend)}
    if jobs and r < 0.60 and opts.get("failures") and rng.random() < 0.5:
        return {"op": "jobfail", "job": rng.choice(jobs)}
    if jobs and r < 0.66:
        return {"op": "jobdone", "job": rng.choice(jobs)}
    if r < 0.70 or not can_emit:
        return {"op": "advance", "dt": rng.choice([0.25, 1])}
    return _emit_op(st)


def _nrefs(ops):
    n = 0
    for op in ops:
        if op["op"] == "emit":
            n = max([n] + [e.get("ref") or 0 for e in op.get("md", [])])
        elif op["op"] == "multi":
            n = max(n, _nrefs(op["ops"]))
    return n


def _run_ops(case, chooser=None, n_ops=0):
    """Run `case["ops"]` (replay) or, with `chooser`, build the schedule adaptively; one observation per operation."""
    log = logging.getLogger("streamz.core")
    was = log.disabled
    log.disabled = True         # map_async logs the traceback of every failing job

    async def main(loop):
        run = graphlib.Run(case, loop=loop, consumer_flavour=case.get("flavour", "future"))
        obs = []

        async def do(op):
            err = run.do_sync(op)
            if op["op"] == "advance":
                await vloop.advance(op["dt"], loop)
            await vloop.settle(loop, rounds=2)
            o = run.observe(op, err)
            o["counts"] = run.counts(list(range(1, _nrefs(case["ops"]) + 1)))
            o["pending"] = sorted(run.pending)
            o["jobs"] = sorted(run.jobs)
            obs.append(o)
        try:
            if chooser is None:
                for op in case["ops"]:
                    await do(op)
                return obs
            case["ops"].append({"op": "settle"})
            await do(case["ops"][-1])
            for _ in range(n_ops):
                case["ops"].append(chooser(run))
                await do(case["ops"][-1])
            for _ in range(200):
                if run.pending:
                    case["ops"].append({"op": "sinkdone", "tok": sorted(run.pending)[0]})
                elif run.jobs:
                    case["ops"].append({"op": "jobdone", "job": sorted(run.jobs)[0]})
                else:
                    break
                await do(case["ops"][-1])
            return obs
        finally:
            run.cleanup()
    try:
        return vloop.run(main)
    finally:
        log.disabled = was


def run_local(nodes, rng, n_ops, opts, flavour):
    case = {"mode": "async", "nodes": nodes, "ops": [], "flavour": flavour}
    st = {"tag": 0, "ref": 0, "val": 0}
    obs = _run_ops(case, chooser=lambda run: choose_local(rng, run, st, opts), n_ops=n_ops)
    return case, obs


def rerun(case):
    return _run_ops(case)


# ------------------------------------------------------------------ translation to the model

def flat_ops(op):
    return [s for sub in op["ops"] for s in flat_ops(sub)] if op["op"] == "multi" else [op]


def model_lines(case, obs):
    """-> (lines, spans): driver input for this case and, per operation, the slice of lines that belongs to it."""
    nd = case["nodes"][1]
    asyn = case["nodes"][2].get("mode") == "async"
    if nd["kind"] == "buffer":
        lines = [{"op": "reset", "model": "buffer", "n": nd["n"], "async": asyn}]
    else:
        lines = [{"op": "reset", "model": "map_async", "p": nd.get("parallelism", 1), "async": asyn, "f": nd["f"][0]}]
    spans = []
    val_elem = {}       # emitted value -> arrival index (values are distinct)
    job_elem = {}       # harness job id -> arrival index of its element
    n_emit = 0
    for op, o in zip(case["ops"], obs):
        start = len(lines)
        for sub in flat_ops(op):
            if sub["op"] == "emit":
                val_elem[sub["val"]] = n_emit
                n_emit += 1
                lines.append({"op": "arrive", "x": sub["val"]})
            elif sub["op"] == "sinkdone":
                lines.append({"op": "done"})
            elif sub["op"] in ("jobdone", "jobfail"):
                lines.append({"op": sub["op"], "id": job_elem.get(sub["job"], 10 ** 6)})
        # jobs started during this operation (known only afterwards; they cannot be completed within it)
        for e in o["log"]:
            if e[0] == "jobstart":
                job_elem[e[2]] = val_elem.get(e[3], 10 ** 6)
        spans.append((start, len(lines)))
    return lines, spans, job_elem


def impl_view(case, op, o, tag_elem, ref_elem, job_elem):
    """What the implementation did during one operation, in the model's vocabulary."""
    emits, starts, refs = [], [], {}
    for e in o["log"]:
        if e[0] == "emit" and e[1] == 1:
            emits.append([tag_elem.get(e[3][0]) if len(e[3]) == 1 else "tags:%r" % (e[3],), e[2]])
        elif e[0] == "jobstart":
            starts.append([job_elem.get(e[2]), e[3]])
        elif e[0] == "retain":
            refs.setdefault(ref_elem.get(e[1]), []).extend(["retain"] * e[2])
        elif e[0] in ("release", "fire"):
            refs.setdefault(ref_elem.get(e[1]), []).append(e[0])
    return {"emits": emits, "starts": starts, "refs": refs,
            "accepted": sorted(i for i, s in enumerate(o["emits"]) if s == "done"),
            "statuses": [s for s in o["emits"] if s not in ("done", "pending")],
            "counts": [o["counts"][r - 1] for r, _ in sorted(ref_elem.items(), key=lambda kv: kv[1])[:len(o["emits"])]],
            "busy": len(o["pending"]) > 0, "npending": len(o["pending"]),
            "running": sorted(job_elem.get(j) for j in o["jobs"])}


def model_view(answers, n_arrived, kind):
    emits, starts, refs = [], [], {}
    for a in answers:
        for e in a.get("evs", []):
            if e[0] == "emit":
                emits.append([e[1], e[2]])
            elif e[0] == "jobstart":
                starts.append([e[1], e[2]])
            elif e[0] in ("retain", "release", "fire"):
                refs.setdefault(e[1], []).append(e[0])
    last = answers[-1] if answers else None
    v = {"emits": emits, "starts": starts, "refs": refs}
    if last is not None and "items" in last:
        items = sorted(last["items"])
        v.update({"accepted": sorted(last["accepted"]), "counts": [it[1] for it in items], "fired": [it[0] for it in items if it[2]],
                  "busy": last["busy"], "running": sorted(last.get("running", [])),
                  "queued": len(last["queue"]), "blocked": len(last["blocked"]), "handed": len(last["outs"])})
    return v


ASPECTS = {
    "C02": ("emits", "starts", "busy"),
    "C03": ("accepted", "busy", "running", "emits"),
    "C04": ("refs", "counts", "emits"),
    "C05": ("refs", "counts"),
}


def compare(prop, case, obs, answers, spans, job_elem):
    """First difference between implementation and model on the aspects `prop` is about, or None."""
    tag_elem, ref_elem = {}, {}
    k = 0
    for op in case["ops"]:
        for sub in flat_ops(op):
            if sub["op"] == "emit":
                for m in sub.get("md", []):
                    tag_elem[m["tag"]] = k
                    ref_elem[m["ref"]] = k
                k += 1
    aspects = ASPECTS[prop]
    state = None      # last model state
    arrived = 0
    for i, (op, o, (a, b)) in enumerate(zip(case["ops"], obs, spans)):
        ans = answers[a:b]
        arrived += sum(1 for s in flat_ops(op) if s["op"] == "emit")
        for s_, an in zip([s for s in flat_ops(op) if s["op"] in ("emit", "sinkdone", "jobdone", "jobfail")], ans):
            if "err" in an or "bad-op" in an:
                return "op %d %r: the model does not allow %r (%s)" % (i, op, s_, an.get("err") or an.get("bad-op"))
        if o.get("err"):
            return "op %d %r: the implementation raised %s" % (i, op, o["err"])
        iv = impl_view(case, op, o, tag_elem, ref_elem, job_elem)
        mv = model_view(ans, arrived, case["nodes"][1]["kind"])
        if "accepted" in mv:
            state = mv
        if iv["statuses"]:
            return "op %d %r: emit awaitable status %r" % (i, op, iv["statuses"])
        for asp in aspects:
            if asp in ("emits", "starts", "refs"):
                if iv[asp] != mv[asp]:
                    return "op %d %r: %s during the operation: implementation %r, model %r" % (i, op, asp, iv[asp], mv[asp])
            elif state is not None:
                if iv[asp] != state[asp]:
                    return "op %d %r: %s after the operation: implementation %r, model %r" % (i, op, asp, iv[asp], state[asp])
            elif asp == "accepted" and iv[asp]:
                return "op %d %r: accepted %r before any arrival" % (i, op, iv[asp])
    return None


# ------------------------------------------------------------------ corpus

def _E(v):
    return {"op": "emit", "node": 0, "val": v, "md": [{"tag": v, "ref": v}]}


def _pipe(nd, sink_mode):
    return [{"kind": "source", "ups": []}, dict(nd, ups=[0]), {"kind": "sink", "mode": sink_mode, "f": ["id"], "ups": [1]}]


def corpus():
    def S(t):
        return {"op": "sinkdone", "tok": t}

    def J(j):
        return {"op": "jobdone", "job": j}

    def F(j):
        return {"op": "jobfail", "job": j}

    def M(*ops):
        return {"op": "multi", "ops": list(ops)}
    st = {"op": "settle"}
    out = [
        # buffer(1): one being handled, one queued, two producers blocked; completions admit them one by one
        ("coro", _pipe({"kind": "buffer", "n": 1}, "async"), [st, _E(1), _E(2), _E(3), _E(4), S(0), S(1), S(2), S(3)]),
        # buffer(2) with a synchronous consumer is transparent
        ("future", _pipe({"kind": "buffer", "n": 2}, "sync"), [st, _E(1), M(_E(2), _E(3)), _E(4)]),
        # buffer(1): a completion and two emissions in one loop callback (the emissions find the queue still full)
        ("tornado", _pipe({"kind": "buffer", "n": 1}, "async"), [st, _E(1), _E(2), M(S(0), _E(3), _E(4)), M(_E(5), S(1)), S(2), S(3), S(4)]),
        # map_async(1): jobs complete out of order, results in order; parallelism+1 jobs in flight
        ("future", _pipe({"kind": "map_async", "f": ["inc"], "parallelism": 1}, "async"),
         [st, _E(1), _E(2), _E(3), _E(4), J(1), J(0), S(0), S(1), J(3), J(2), S(2), S(3)]),
        # map_async(2): the awaited job fails, a queued job fails, the others are delivered; failed elements keep their reference
        ("coro", _pipe({"kind": "map_async", "f": ["dbl"], "parallelism": 2}, "sync"),
         [st, _E(1), _E(2), _E(3), _E(4), F(0), F(2), J(3), J(1), _E(5), J(4)]),
        # map_async(1): a job completion / a consumer completion sharing a loop callback with an emission (slot wait must be FIFO)
        ("future", _pipe({"kind": "map_async", "f": ["id"], "parallelism": 1}, "sync"), [st, _E(1), _E(2), _E(3), M(J(0), _E(4)), J(1), J(2), J(3)]),
        ("coro", _pipe({"kind": "map_async", "f": ["inc"], "parallelism": 1}, "async"),
         [st, _E(1), _E(2), _E(3), J(0), M(S(0), _E(4), _E(5)), J(1), S(1), J(2), S(2), J(3), S(3), J(4), S(4)]),
        # maxsize 0 means unbounded for both queue types
        ("future", _pipe({"kind": "buffer", "n": 0}, "async"), [st, _E(1), _E(2), _E(3), _E(4), S(0), S(1), S(2), S(3)]),
        ("future", _pipe({"kind": "map_async", "f": ["inc"], "parallelism": 0}, "async"),
         [st, _E(1), _E(2), _E(3), _E(4), J(3), J(1), J(0), S(0), S(1), J(2), S(2), S(3)]),
        # map_async(3): fewer arrivals than slots, nothing ever waits
        ("tornado", _pipe({"kind": "map_async", "f": ["id"], "parallelism": 3}, "async"), [st, M(_E(1), _E(2)), J(1), J(0), S(0), S(1)]),
    ]
    return [{"mode": "async", "flavour": fl, "nodes": nodes, "ops": ops} for fl, nodes, ops in out]


# ------------------------------------------------------------------ entry point

def gen_case(rng, i):
    nodes = gen_nodes(rng)
    flavour = ("future", "coro", "tornado")[i % 3]
    opts = {"awaiting": rng.random() < 0.35}
    n_ops = rng.randint(6, 16)
    if i % 2 == 0:
        if nodes[1]["kind"] == "map_async" and rng.random() < 0.4:
            opts["p_jobfail"] = 0.2
        return ac.run_adaptive(nodes, rng, n_ops, opts=opts, flavour=flavour), "adaptive"
    opts["failures"] = nodes[1]["kind"] == "map_async" and rng.random() < 0.5
    return run_local(nodes, rng, n_ops, opts, flavour), "local"


class _quiet:
    """map_async's worker task is still pending when a run is torn down; asyncio reports that through its logger."""

    def __enter__(self):
        self.log = logging.getLogger("asyncio")
        self.was = self.log.disabled
        self.log.disabled = True

    def __exit__(self, *a):
        import gc
        gc.collect()
        self.log.disabled = self.was


def run(ctx, prop, n_cases):
    if prop not in ASPECTS:
        return
    rng = ctx.rng
    cases = []
    lines = []
    with _quiet():
        for case in corpus():
            obs = rerun(case)
            ls, spans, job_elem = model_lines(case, obs)
            cases.append((case, obs, len(lines), spans, job_elem, "corpus"))
            lines += ls
        for i in range(n_cases):
            (case, obs), how = gen_case(rng, i)
            ls, spans, job_elem = model_lines(case, obs)
            cases.append((case, obs, len(lines), spans, job_elem, how))
            lines += ls
    answers = common.lean_driver(GROUP, lines) if lines else []
    for case, obs, off, spans, job_elem, how in cases:
        nd = case["nodes"][1]
        ctx.count("corr:%s:%s" % (GROUP, nd["kind"]))
        ctx.count("corr:%s:bound=%d" % (nd["kind"], nd.get("n", nd.get("parallelism"))))
        ctx.count("corr:sink:" + case["nodes"][2]["mode"])
        ctx.count("corr:schedule:" + how)
        flat = [s for op in case["ops"] for s in flat_ops(op)]
        for op in case["ops"]:
            ctx.count("corr:op:" + op["op"])
        if any(op["op"] == "jobfail" for op in flat):
            ctx.count("corr:with-failing-job")
        ans = answers[off:]
        if any(a.get("blocked") for a in ans[:spans[-1][1]] if isinstance(a, dict)):
            ctx.count("corr:producer-blocked")
        diff = compare(prop, case, obs, ans, spans, job_elem)
        if diff:
            ctx.disagreement("%s correspondence (%s): %s" % (GROUP, nd["kind"], diff),
                             {"nodes": case["nodes"], "ops": case["ops"], "flavour": case.get("flavour"), "runner": "corr_asyncbuffer.rerun"})
        else:
            ctx.coverage["traces_validated_against_impl"] += 1


def replay(case):
    """Re-run one recorded case through implementation and model; returns the difference per property."""
    obs = rerun(case)
    lines, spans, job_elem = model_lines(case, obs)
    answers = common.lean_driver(GROUP, lines)
    return {p: compare(p, case, obs, answers, spans, job_elem) for p in ASPECTS}
