"""Correspondence of the real `zip(*upstreams, maxsize=m)` with the event-loop model
lean/StreamzVerif/Model/AsyncZip.lean (driver lean/Drivers/AsyncZip.lean).

Pipelines  k sources -> zip(maxsize) -> 1..2 sinks (asynchronous with harness-completed consumers of the
three flavours, or synchronous).  Schedules: `asynccheck.run_adaptive` (producers awaiting everything or
nothing) and a local adaptive runner with per-upstream awaiting producers and bursts; plus a hand-picked
corpus.  Every operation of the observed run is replayed through the model and, depending on the
property, the model's answer is compared with the observation taken when the loop had settled:

  C02  tuples emitted by the zip node during the operation (values, metadata tags) and what every sink received
  C03  status of every producer awaitable, unmatched elements per upstream, unfinished consumer invocations
  C04  completion callbacks fired during the operation (in order), reference counts, unfinished consumers
  C05  reference counts and callbacks

No oracle is evaluated here.
"""
from . import asynccheck as ac, common, graphlib, vloop

DRIVER = "AsyncZip"
FIELDS = {
    "C02": ("emitted", "deliveries"),
    "C03": ("emits", "bufs", "pending"),
    "C04": ("fired", "counts", "pending"),
    "C05": ("counts", "fired"),
    "C10": ("emitted", "deliveries"),       # tuples with their metadata tags
}


# ------------------------------------------------------------------ generation

def gen_nodes(rng):
    k = 3 if rng.random() < 0.25 else 2
    nodes = [{"kind": "source", "ups": []} for _ in range(k)]
    nodes.append({"kind": "zipmax", "ups": list(range(k)), "maxsize": rng.choice([1, 1, 2, 3])})
    z = k
    nsinks = 2 if rng.random() < 0.3 else 1
    for _ in range(nsinks):
        nodes.append({"kind": "sink", "mode": "async" if rng.random() < 0.65 else "sync", "f": ["id"], "ups": [z]})
    return nodes


def choose_op(rng, run, nodes, st, opts):
    """Local chooser: per-upstream awaiting producers, bursts on one upstream, no clock (zip ignores time)."""
    k = sum(1 for n in nodes if n["kind"] == "source")
    pend = sorted(run.pending)
    r = rng.random()
    if pend and r < opts.get("p_done", 0.3):
        return {"op": "sinkdone", "tok": rng.choice(pend)}
    if r > 0.95:
        return {"op": "advance", "dt": 0.5}
    # which upstreams may emit: with the per-upstream discipline only those whose previous emission is done
    owner = st.setdefault("owner", [])
    free = []
    for u in range(k):
        mine = [i for i, w in enumerate(owner) if w == u]
        if not opts.get("await_per_upstream") or all(run.emits[i] is None or run.emits[i].done() for i in mine):
            free.append(u)
    if not free:
        if pend:
            return {"op": "sinkdone", "tok": rng.choice(pend)}
        return {"op": "settle"}
    burst = st.get("burst")
    if burst in free and rng.random() < opts.get("p_burst", 0.5):
        u = burst
    else:
        u = rng.choice(free)
    st["burst"] = u
    st["val"] += 1
    owner.append(u)
    md = []
    if rng.random() < 0.85:
        st["tag"] += 1
        st["ref"] += 1
        md.append({"tag": st["tag"], "ref": st["ref"]})
        if rng.random() < 0.1:      # a second entry, without counter
            st["tag"] += 1
            md.append({"tag": st["tag"], "ref": None})
    return {"op": "emit", "node": u, "val": st["val"], "md": md}


def run_local(nodes, rng, n_ops, opts, flavour):
    """Like asynccheck.run_adaptive (same case format, replayable with asynccheck.rerun) with `choose_op` above."""
    case = {"mode": "async", "nodes": nodes, "ops": [], "flavour": flavour}
    st = {"tag": 0, "ref": 0, "val": 0}

    async def main(loop):
        run = graphlib.Run(case, loop=loop, consumer_flavour=flavour)
        obs = []

        async def do(op):
            case["ops"].append(op)
            err = run.do_sync(op)
            if op["op"] == "advance":
                await vloop.advance(op["dt"], loop)
            await vloop.settle(loop, rounds=2)
            o = run.observe(op, err)
            o["counts"] = run.counts(list(range(1, st["ref"] + 1)))
            o["pending"] = sorted(run.pending)
            o["jobs"] = []
            obs.append(o)
        try:
            await do({"op": "settle"})
            for _ in range(n_ops):
                await do(choose_op(rng, run, nodes, st, opts))
            for _ in range(80):       # finish every consumer (cancelled futures would only make noise at cleanup)
                if not run.pending:
                    break
                await do({"op": "sinkdone", "tok": rng.choice(sorted(run.pending))})
            return obs
        finally:
            run.cleanup()
    return case, vloop.run(main)


def corpus():
    def src(k):
        return [{"kind": "source", "ups": []} for _ in range(k)]

    def em(u, v, ref=None):
        return {"op": "emit", "node": u, "val": v, "md": [{"tag": v, "ref": ref}] if ref else []}
    out = []
    # the recorded finding: maxsize=1, four un-awaited emissions on one upstream, then one on the other
    out.append({"mode": "async", "flavour": "future",
                "nodes": src(2) + [{"kind": "zipmax", "ups": [0, 1], "maxsize": 1}, {"kind": "sink", "mode": "async", "f": ["id"], "ups": [2]}],
                "ops": [{"op": "settle"}] + [em(0, v, v) for v in (1, 2, 3, 4)] + [em(1, 9, 5), {"op": "sinkdone", "tok": 0},
                                                                                  em(1, 10, 6), {"op": "sinkdone", "tok": 1}]})
    # awaiting producer: maxsize elements accepted, the next one buffered but blocked, woken by the next tuple
    out.append({"mode": "async", "flavour": "coro",
                "nodes": src(2) + [{"kind": "zipmax", "ups": [0, 1], "maxsize": 2}, {"kind": "sink", "mode": "sync", "f": ["id"], "ups": [2]}],
                "ops": [{"op": "settle"}, em(0, 1, 1), em(0, 2, 2), em(0, 3, 3), em(1, 7, 4), em(0, 4, 5), em(1, 8, 6), em(1, 9, 7), em(1, 10, 8)]})
    # three upstreams, two sinks (asynchronous first), shared completion order reversed
    out.append({"mode": "async", "flavour": "tornado",
                "nodes": src(3) + [{"kind": "zipmax", "ups": [0, 1, 2], "maxsize": 1},
                                   {"kind": "sink", "mode": "async", "f": ["id"], "ups": [3]}, {"kind": "sink", "mode": "async", "f": ["id"], "ups": [3]}],
                "ops": [{"op": "settle"}, em(0, 1, 1), em(1, 2, 2), em(1, 3, 3), em(2, 4, 4), em(2, 5), em(0, 6, 5),
                        {"op": "sinkdone", "tok": 3}, {"op": "sinkdone", "tok": 1}, {"op": "sinkdone", "tok": 0}, {"op": "sinkdone", "tok": 2}]})
    # synchronous sink before an asynchronous one; an element without metadata
    out.append({"mode": "async", "flavour": "future",
                "nodes": src(2) + [{"kind": "zipmax", "ups": [0, 1], "maxsize": 3},
                                   {"kind": "sink", "mode": "sync", "f": ["id"], "ups": [2]}, {"kind": "sink", "mode": "async", "f": ["id"], "ups": [2]}],
                "ops": [{"op": "settle"}, em(1, 1, 1), em(1, 2), em(0, 3, 2), {"op": "advance", "dt": 1}, em(0, 4, 3), {"op": "sinkdone", "tok": 0},
                        {"op": "sinkdone", "tok": 1}]})
    return out


# ------------------------------------------------------------------ translation and comparison

def config_of(case):
    nodes = case["nodes"]
    k = sum(1 for n in nodes if n["kind"] == "source")
    z = [i for i, n in enumerate(nodes) if n["kind"] == "zipmax"][0]
    sinks = [i for i, n in enumerate(nodes) if n["kind"] == "sink"]
    assert nodes[z]["ups"] == list(range(k)) and all(nodes[s]["ups"] == [z] for s in sinks)
    return k, z, sinks


def to_lines(case, obs):
    k, z, sinks = config_of(case)
    lines = [{"op": "reset", "k": k, "maxsize": case["nodes"][z]["maxsize"],
              "sinks": [case["nodes"][s]["mode"] == "async" for s in sinks]}]
    for op, o in zip(case["ops"], obs):
        n = len(o.get("counts", []))
        if op["op"] == "emit":
            lines.append({"op": "arrive", "u": op["node"], "x": op["val"],
                          "md": [[e["tag"], e.get("ref")] for e in op.get("md", [])], "nrefs": n})
        elif op["op"] == "sinkdone":
            lines.append({"op": "sinkdone", "tok": op["tok"], "nrefs": n})
        elif op["op"] in ("settle", "advance"):
            lines.append({"op": "noop", "nrefs": n})
        else:
            raise common.HarnessError("corr_asynczip: operation %r has no model action" % (op,))
    return lines


def observed(case, obs):
    """Per operation, what the implementation showed (same shape as the model's answers)."""
    k, z, sinks = config_of(case)
    arrived = [0] * k
    tuples = 0
    out = []
    for o in obs:
        emitted, deliveries, fired = [], {s: [] for s in sinks}, []
        for e in o["log"]:
            if e[0] == "emit" and e[1] == z:
                emitted.append({"vals": list(graphlib.decanon(e[2])), "tags": e[3]})
                tuples += 1
            elif e[0] == "arrive" and e[1] == z:
                arrived[e[2]] += 1
            elif e[0] == "arrive" and e[1] in deliveries:
                deliveries[e[1]].append({"vals": list(graphlib.decanon(e[3])), "tags": e[4]})
            elif e[0] == "fire":
                fired.append(e[1])
        out.append({"emitted": emitted, "deliveries": [deliveries[s] for s in sinks], "fired": fired,
                    "counts": list(o.get("counts", [])), "emits": list(o.get("emits", [])),
                    "pending": list(o.get("pending", [])), "bufs": [a - tuples for a in arrived]})
    return out


def compare(ctx, prop, case, obs, answers):
    """answers: the model's answers for the operations of the case (reset answer excluded)."""
    k, z, sinks = config_of(case)
    want = observed(case, obs)
    for i, (op, w, a) in enumerate(zip(case["ops"], want, answers)):
        if "bad-op" in a:
            ctx.disagreement("AsyncZip driver rejected operation %d %r: %r" % (i, op, a), case)
            return False
        a = dict(a)
        a["deliveries"] = [a["emitted"] for _ in sinks]       # every sink receives every tuple, in order
        for f in FIELDS[prop]:
            if a[f] != w[f]:
                ctx.disagreement("zip(maxsize) %s after operation %d %r: implementation %r, model %r (property %s)"
                                 % (f, i, op, w[f], a[f], prop), case)
                return False
    return True


def stats(ctx, case, answers):
    k, z, sinks = config_of(case)
    m = case["nodes"][z]["maxsize"]
    ctx.count("azip:k=%d" % k)
    ctx.count("azip:maxsize=%d" % m)
    ctx.count("azip:sinks=" + "+".join(case["nodes"][s]["mode"] for s in sinks))
    ctx.count("azip:flavour=" + case.get("flavour", "future"))
    if any("blocked" in a.get("detail", []) for a in answers):
        ctx.count("azip:producer-blocked")
    if any("awaiting" in a.get("detail", []) for a in answers):
        ctx.count("azip:producer-awaiting-consumer")
    if any(max(a.get("bufs", [0])) > m + 1 for a in answers):
        ctx.count("azip:more-than-maxsize+1-buffered")
    if any(max(a.get("bufs", [0])) == m + 1 for a in answers):
        ctx.count("azip:maxsize+1-buffered")
    ctx.count("azip:tuples", sum(len(a.get("emitted", [])) for a in answers))


def run(ctx, prop, n_cases):
    if prop not in FIELDS:
        return
    rng = ctx.rng
    cases = []
    for c in corpus():
        cases.append((c, ac.rerun(c)))
    for i in range(n_cases):
        nodes = gen_nodes(rng)
        flavour = ("future", "coro", "tornado")[i % 3]
        n_ops = rng.randint(6, 18)
        style = i % 4
        if style == 0:
            case, obs = ac.run_adaptive(nodes, rng, n_ops, opts={"awaiting": rng.random() < 0.5}, flavour=flavour)
        else:
            opts = {"await_per_upstream": style in (1, 2), "p_burst": rng.choice([0.3, 0.6, 0.85]),
                    "p_done": rng.choice([0.15, 0.3, 0.5])}
            case, obs = run_local(nodes, rng, n_ops, opts, flavour)
        cases.append((case, obs))
    lines, spans = [], []
    for case, obs in cases:
        ls = to_lines(case, obs)
        spans.append((len(lines), len(ls)))
        lines += ls
    answers = common.lean_driver(DRIVER, lines)
    for (case, obs), (start, n) in zip(cases, spans):
        ans = answers[start:start + n]
        if ans[0] != {"ok": True}:
            ctx.disagreement("AsyncZip driver rejected the configuration: %r" % (ans[0],), case)
            continue
        if compare(ctx, prop, case, obs, ans[1:]):
            ctx.coverage["traces_validated_against_impl"] += 1
        stats(ctx, case, ans[1:])
