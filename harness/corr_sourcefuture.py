"""Correspondence for Model/SourceFuture.lean: a real Source subclass whose run() is a tornado coroutine, driven atom by atom.

The subclass's cycle (`_run`) returns a Future the harness resolves; `resume` resolves it (or lets the scheduled `_run_once`
begin) and then lets the loop run single iterations until the invocation has reached its next resting point, `wake` lets single
iterations pass until `_run_once` has been woken.  After every action stopped / _run_live / _restart / phase / cycles are compared
with the model (note = whether the tree has the restart note, detected from the attribute the repaired start() maintains)."""
import asyncio

from . import common


def run_real(acts):
    """-> list of observed states after each action, or raises"""
    from tornado import gen
    import streamz.sources as ssrc
    out = []

    async def main():
        loop = asyncio.get_event_loop()

        class TP(ssrc.Source):
            def __init__(self, **kw):
                self.cycles = 0
                self.cycle_fut = None
                self.in_run = False          # run() is inside its loop (or about to test `stopped`)
                self.exited = False          # run() has left its loop and its Future is resolved / resolving
                self.began = False           # _run_once has begun (the scheduled callback has run)
                super().__init__(**kw)

            @gen.coroutine
            def run(self):
                self.began = True
                self.in_run = True
                self.exited = False
                while not self.stopped:
                    yield self._run()
                self.in_run = False
                self.exited = True

            def _run(self):
                self.cycles += 1
                self.cycle_fut = loop.create_future()
                return self.cycle_fut
        src = TP(asynchronous=True)

        has_flag = hasattr(src, "_run_live")

        def phase():
            if not has_flag:
                # no such private flag on this tree (renamed / restructured): the invocation's own marks still tell where it stands
                if src.in_run and src.cycle_fut is not None and not src.cycle_fut.done():
                    return "inCycle"
                return "unknown"
            if not src._run_live:
                return "none"
            if src.in_run and src.cycle_fut is not None and not src.cycle_fut.done():
                return "inCycle"
            if src.exited:
                return "finishing"
            return "atCheck"

        def obs():
            return {"stopped": bool(src.stopped), "runLive": bool(getattr(src, "_run_live", False)), "restart": bool(getattr(src, "_restart", False)),
                    "phase": phase(), "cycles": src.cycles, "has_flag": has_flag}
        for a in acts:
            if a == "start":
                was_live = bool(getattr(src, "_run_live", False))
                src.start()
                if has_flag and not was_live and src._run_live:
                    src.began = src.in_run = src.exited = False          # a new _run_once has been scheduled
            elif a == "stop":
                src.stop()
            elif a == "resume":
                ph = phase()
                before = (src.cycles, ph)
                if ph == "inCycle":
                    src.cycle_fut.set_result(None)
                if ph in ("inCycle", "atCheck"):
                    for _ in range(12):
                        await asyncio.sleep(0)
                        now = phase()
                        if (src.cycles, now) != before and now != "atCheck" or (ph == "atCheck" and now == "none"):
                            break
            elif a == "wake":
                if phase() == "finishing":
                    for _ in range(12):
                        await asyncio.sleep(0)
                        if phase() != "finishing":
                            break
            out.append(obs())
        # behavioural probe (no private attribute involved): a source left started must go on polling
        probe = None
        if not src.stopped:
            c0 = src.cycles
            for _ in range(16):
                if src.cycle_fut is not None and not src.cycle_fut.done() and src.in_run:
                    src.cycle_fut.set_result(None)
                await asyncio.sleep(0)
                if src.cycles > c0:
                    break
            probe = src.cycles > c0
        out.append({"probe": probe})
        # wind down
        src.stop()
        if src.cycle_fut is not None and not src.cycle_fut.done():
            src.cycle_fut.set_result(None)
        for _ in range(6):
            await asyncio.sleep(0)
    asyncio.run(main())
    return out


def gen_acts(rng):
    n = rng.randint(3, 14)
    return [rng.choice(["start", "stop", "resume", "resume", "wake", "start"]) for _ in range(n)]


CORPUS = [
    ["start", "resume", "stop", "resume", "start", "wake", "resume", "stop", "resume", "wake"],
    ["start", "stop", "resume", "start", "resume", "resume", "stop", "start", "resume", "stop", "resume", "wake"],
    ["start", "resume", "stop", "start", "stop", "resume", "start", "wake", "wake", "resume"],
]


def run(ctx, prop, n):
    import streamz.sources as ssrc
    note = "_restart" in ssrc.Source.__init__.__code__.co_names or hasattr(ssrc.Source(asynchronous=True), "_restart")
    cases = [list(c) for c in CORPUS] + [gen_acts(ctx.rng) for _ in range(n)]
    lines = []
    for acts in cases:
        lines.append({"op": "reset", "note": bool(note)})
        lines += [{"op": a} for a in acts]
    answers = common.lean_driver("SourceFuture", lines)
    k = 0
    for acts in cases:
        k += 1                       # the reset answer
        want = answers[k:k + len(acts)]
        k += len(acts)
        case = {"source_future": acts}
        ctx.count("source-future:histories")
        try:
            got = run_real(acts)
        except Exception as e:      # noqa: BLE001
            ctx.disagreement("SourceFuture correspondence: driving the real source raised %s: %s" % (type(e).__name__, e), case)
            continue
        probe = got.pop()["probe"]
        has_flag = all(g.pop("has_flag") for g in got) if got else True
        ctx.case(case, nontrivial=any(g["phase"] == "finishing" for g in got))
        if any(g["phase"] == "finishing" for g in got):
            ctx.count("source-future:window-reached")
        if probe is False:
            ctx.failure("no-loop-after-start:future-run", "Source whose run() returns a Future, history %r: the source is left started (stopped False) but "
                        "no polling cycle begins any more however long the loop runs" % (acts,), case,
                        oracle="start() on a stopped source takes effect: a polling loop is active until the next stop")
            continue
        if not has_flag:
            ctx.count("source-future:private-flag-absent(state-comparison-skipped)")
            continue
        for i, (g, w) in enumerate(zip(got, want)):
            if g != w:
                ctx.disagreement("SourceFuture correspondence (Source whose run() returns a Future vs Model/SourceFuture.lean): after action %d (%s) of %r "
                                 "the source is in %r, the model in %r" % (i, acts[i], acts, g, w), case)
                break
        else:
            ctx.coverage["traces_validated_against_impl"] = ctx.coverage.get("traces_validated_against_impl", 0) + 1
