"""Fine-grained correspondence for `map_async(func, parallelism=p)`: the real node, ONE LOOP HANDLE AT A TIME.

The settled-granularity model (Model/AsyncBuffer.lean, corr_asyncbuffer.py) ASSUMES that insert jobs waiting for a
work slot are admitted in arrival order.  Model/MapAsyncFine.lean discharges the assumption with a transition system
in which asyncio's ready queue, `asyncio.Lock` and `asyncio.Queue` are explicit; this module ties that system to
the code: the real pipeline  source -> map_async(func, parallelism=p) -> consumer  runs on the virtual loop in
`step_mode` (one ready handle per loop iteration); a *schedule* is a list of tokens
    a      arrive   (a producer emits the next element and does NOT await the result: any number outstanding)
    h      handle   (let the loop run its next ready handle)
    j<k>   jobdone  (the environment resolves the future awaited by the k-th (mod n) unresolved started job)
    d      done     (the consumer completes the awaitable it returned; with several pending: the lowest-numbered worker's)
    S / X  start() / stop() of the map_async node (X is skipped while `work_task is None`: the code raises TypeError);
           `X S` adjacent = a restart with whatever is in flight
executed from the loop's `after_handle` hook, so arrivals and completions fall between ANY two handles.

Before a handle runs it is classified from the loop's own data (which task it steps — `_insert_job` of which
element, `work_callback` of which worker (workers are numbered in creation order), which user job; first step /
wake-up by a future / re-queued by `sleep(0)`; tornado's `multi_future` callback of which insert task; gather's
`_done_callback` of which worker's emission; `asyncio.wait`'s `_on_completion` for which waiting worker); after every
step the WHOLE ready queue is
classified the same way.  The Lean model must ACCEPT the action sequence, must have run the same handle at every
tick, and must agree after EVERY step on: the ready queue (modelled handles, in order), `_insert_lock._locked` and
who holds it, `_insert_lock._waiters` (who, future resolved or not), the work queue, for EVERY worker task ever created
its stop event and what it is suspended on (predecessor wait / getter registered / which job task / the consumer /
finished), `work_task`, `work_queue._getters` (which workers), the order `func` was called, deliveries, releases,
producers notified.  No oracle is evaluated here.
"""
import asyncio
import gc
import logging
import os
import warnings

from . import common, vloop

GROUP = "MapAsyncFine"
# which variant of the model the node is compared with: "locked" (the code as it is).  MAFINE_VARIANT=fastPath validates
# the refuted variant of the model against a tree with the lock-free fast path applied (used once, by hand).
VARIANT = os.environ.get("MAFINE_VARIANT", "locked")
# worker life cycle: "current"; MAFINE_LIFE=startReplaces / noPredecessorWait validate the two refuted pre-repair
# mechanisms against the trees they describe (90921f4 and 63350ae; used once, by hand).
LIFE = os.environ.get("MAFINE_LIFE", "current")


class _NoLock:
    _locked = False
    _waiters = None


class _Immediate:
    def add_callback(self, cb, *a, **k):
        cb(*a, **k)


class Exec:
    """One run of the real node under one schedule."""

    def __init__(self, case, chooser=None):
        self.case = case
        self.p = case["p"]
        self.tokens = list(case.get("tokens", []))
        self.max_arrivals = case.get("max_arrivals")
        self.max_steps = case.get("max_steps", 400)
        self.chooser = chooser
        self.executed = []
        self.pos = 0
        self.steps = []              # {"tok", "acts", "obs", "ran"}
        self.values = []             # value of arrival i
        self.emits = []              # awaitables returned by emit
        self.job_fut = {}            # arrival index -> future the user job awaits
        self.job_coro = {}           # id(coroutine) -> arrival index
        self.resolved = set()
        self.started = []            # order func was called
        self.delivered = []
        self.fired = []
        self.acked = []
        self.outstanding = []        # [(index, future, worker)] pending consumer awaitables
        self.work_tasks = []         # worker tasks in creation order
        self.gather_owner = {}       # id(consumer future) -> worker
        self.stops = self.starts = self.restarts_inflight = 0
        self.waitprev_seen = 0
        self.seen_tasks = set()      # tasks whose first step has run
        self.ins_task = {}           # id(task) -> arrival index (insert tasks)
        self.job_task = {}           # id(task) -> arrival index (user job tasks)
        self.pending_kind = None
        self.driving = False
        self.error = None
        self.max_outstanding = 0
        self.lock_waiters_seen = 0
        self.polls = 0
        self.arrival_behind_wake = 0

    # ------------------------------------------------------------ pipeline
    def setup(self, loop):
        from streamz import Stream
        from streamz.core import RefCounter
        ex = self
        self.loop = loop
        self.RefCounter = RefCounter

        class Consumer(Stream):
            def update(self, x, who=None, metadata=None):
                return ex.on_deliver(x)

        def func(x):
            i = ex.values.index(x)
            ex.started.append(i)
            fut = loop.create_future()
            ex.job_fut[i] = fut

            async def job():
                return await fut
            co = job()
            ex.job_coro[id(co)] = i
            ex._coros.append(co)
            return co

        self._coros = []
        self.source = Stream(asynchronous=True)
        self.node = self.source.map_async(func, parallelism=self.p)
        self.consumer = Consumer(self.node)
        self.finished = loop.create_future()

    def on_deliver(self, x):
        idx = self.values.index(x) if x in self.values else -1
        self.delivered.append(idx)
        fut = self.loop.create_future()
        w = self._worker_index(asyncio.current_task())
        self.outstanding.append((idx, fut, w))
        self.gather_owner[id(fut)] = w
        self._futs.append(fut)
        return fut

    def _worker_index(self, task):
        for k, t in enumerate(self.work_tasks):
            if t is task:
                return k
        return -1

    def _discover_workers(self):
        wt = self.node.work_task
        if wt and self._worker_index(wt[1]) < 0:
            self.work_tasks.append(wt[1])

    # ------------------------------------------------------------ classification of handles
    def _task_kind(self, task):
        """('ins', i) | ('work',) | ('job', i) | None for the task a handle steps"""
        t = id(task)
        if t in self.ins_task:
            return ("ins", self.ins_task[t])
        if t in self.job_task:
            return ("job", self.job_task[t])
        co = task.get_coro()
        name = getattr(co, "__qualname__", "")
        if name.endswith("map_async._insert_job"):
            fr = getattr(co, "cr_frame", None)
            x = fr.f_locals.get("x") if fr is not None else None
            i = self.values.index(x) if x in self.values else -1
            self.ins_task[t] = i
            self._keep.append(task)
            return ("ins", i)
        if name.endswith("map_async.work_callback"):
            if self._worker_index(task) < 0:
                self.work_tasks.append(task)
            return ("work", self._worker_index(task))
        if id(co) in self.job_coro:
            self.job_task[t] = self.job_coro[id(co)]
            self._keep.append(task)
            return ("job", self.job_task[t])
        return None

    def classify(self, h, running=False):
        """Model name of a ready handle, or None if it is not modelled.  `running`: the handle is about to run (a
        task's first step is then remembered)."""
        cb = h._callback
        owner = getattr(cb, "__self__", None)
        name = getattr(cb, "__name__", "")
        if isinstance(owner, asyncio.Task):
            kind = self._task_kind(owner)
            if kind is None:
                return None
            wake = name == "task_wakeup"
            first = id(owner) not in self.seen_tasks
            if running:
                self.seen_tasks.add(id(owner))
            if kind[0] == "work":
                return "w%d" % kind[1]
            if kind[0] == "ins":
                return ("L" if wake else "I" if first else "P") + str(kind[1])
            return ("V" if wake else "F") + str(kind[1])
        qual = getattr(cb, "__qualname__", "")
        if qual.startswith("multi_future") and h._args and isinstance(h._args[0], asyncio.Task):
            kind = self._task_kind(h._args[0])
            if kind and kind[0] == "ins":
                return "K" + str(kind[1])
            return None
        if name == "_done_callback" and "gather" in qual:
            return "G%d" % (self.gather_owner.get(id(h._args[0]), -1) if h._args else -1)
        if name == "_on_completion" and h._args and isinstance(h._args[0], asyncio.Task):
            k = self._worker_index(h._args[0])     # the worker that finished; its successor is waiting
            return "C%d" % (k + 1) if k >= 0 else None
        return None

    def live_ready(self):
        return [h for h in self.loop._ready if not h._cancelled]

    # ------------------------------------------------------------ observation
    def observe(self):
        node = self.node
        q = node.work_queue
        lk = getattr(node, "_insert_lock", None) or _NoLock     # (the pre-repair code has no lock)
        # who waits on which lock future: the insert task's _fut_waiter
        owner = {}
        holder = None
        for t in self._keep:
            if id(t) in self.ins_task and not t.done():
                fw = getattr(t, "_fut_waiter", None)
                if fw is not None:
                    owner[id(fw)] = self.ins_task[id(t)]
        lockq = [[owner.get(id(w), -1), bool(w.done())] for w in (lk._waiters or [])]
        # the holder between two handles: a started-but-unfinished insert task that is in no waiter list and whose
        # first step has run
        waiting_ids = {e[0] for e in lockq}
        if lk._locked:
            cands = [self.ins_task[id(t)] for t in self._keep
                     if id(t) in self.ins_task and not t.done() and id(t) in self.seen_tasks and self.ins_task[id(t)] not in waiting_ids]
            holder = cands[0] if len(cands) == 1 else ("?%r" % (cands,))
        queue = []
        for item in list(q._queue):
            queue.append(self.job_task.get(id(item[0]), self.job_coro.get(id(item[0].get_coro()), -1)))
        self._discover_workers()
        workers = []
        getters = []
        busy = dict((w, idx) for idx, fut, w in self.outstanding)
        for k, t in enumerate(self.work_tasks):
            if t.done():
                workers.append([True, "F"])
                continue
            fr = t.get_coro().cr_frame
            stop = bool(fr.f_locals["stop_work"].is_set()) if fr is not None and "stop_work" in fr.f_locals else None
            fw = getattr(t, "_fut_waiter", None)
            if fw is None:
                st = "?"
            elif isinstance(fw, asyncio.Task):
                self._task_kind(fw)
                st = "a%d" % self.job_task.get(id(fw), -1)
            elif fw.done():
                st = "?"
            elif any(g is fw for g in q._getters):
                st = "g1"
            elif k in busy:
                st = "e%d" % busy[k]
            elif "Gathering" in type(fw).__name__:
                st = "?"
            else:
                st = "p"
            workers.append([stop, st])
        for g in q._getters:
            if not g.done():
                getters.append(next((k for k, t in enumerate(self.work_tasks) if getattr(t, "_fut_waiter", None) is g), -1))
        work_task = self._worker_index(node.work_task[1]) if node.work_task else None
        for i, e in enumerate(self.emits):
            if e is not None and e.done() and i not in self.acked:
                self.acked.append(i)
        ready = [k for k in (self.classify(h) for h in self.live_ready()) if k is not None]
        return {"ready": ready, "locked": bool(lk._locked), "holder": holder, "lockq": lockq, "queue": queue,
                "workers": workers, "workTask": work_task, "getters": getters, "started": list(self.started), "outs": list(self.delivered), "fin": list(self.fired),
                "acked": sorted(self.acked), "ins_done": sorted(self.ins_task[id(t)] for t in self._keep if id(t) in self.ins_task and t.done())}

    def record(self, tok, acts, ran=None):
        obs = self.observe()
        self.steps.append({"tok": tok, "acts": acts, "obs": obs, "ran": ran})
        self.executed.append(tok)
        self.max_outstanding = max(self.max_outstanding, len(self.values) - len(obs["started"]))
        if obs["lockq"]:
            self.lock_waiters_seen += 1
        if any(w[1] == "p" for w in obs["workers"]):
            self.waitprev_seen += 1

    # ------------------------------------------------------------ driving
    def unresolved(self):
        return [i for i in self.started if i not in self.resolved]

    def enabled(self):
        en = []
        if self.max_arrivals is None or len(self.values) < self.max_arrivals:
            en.append("a")
        if self.live_ready():
            en.append("h")
        if self.outstanding:
            en.append("d")
        for k in range(len(self.unresolved())):
            en.append("j%d" % k)
        en.append("S")
        if self.node.work_task is not None:
            en.append("X")
        return en

    def next_token(self):
        if len(self.executed) >= self.max_steps:
            return None
        if self.chooser is not None:
            en = self.enabled()
            if not en:
                return None
            return self.chooser(en)
        if self.pos < len(self.tokens):
            t = self.tokens[self.pos]
            self.pos += 1
            return t
        # drain: complete everything, oldest first, then let the loop run dry
        if self.outstanding:
            return "d"
        if self.unresolved():
            return "j0"
        if any(self.classify(h) is not None for h in self.live_ready()):
            return "h"
        return None

    def before(self, handle):
        if self.driving:
            self.pending_kind = self.classify(handle, running=True)
            if self.pending_kind and self.pending_kind[0] == "P":
                self.polls += 1

    def hook(self, handle):
        try:
            if self.driving:
                k = self.pending_kind
                self.record("h", ["T"] if k is not None else [], ran=k)
            self.driving = True
            budget = 100000
            while budget:
                budget -= 1
                tok = self.next_token()
                if tok is None:
                    self.finish()
                    return
                if tok == "h":
                    if self.live_ready():
                        return
                    continue
                if tok == "a":
                    if self.max_arrivals is not None and len(self.values) >= self.max_arrivals:
                        continue
                    self.do_arrive()
                elif tok == "d":
                    if not self.outstanding:
                        continue
                    self.do_done()
                elif tok == "S":
                    self.do_start()
                elif tok == "X":
                    if self.node.work_task is None:
                        continue
                    self.do_stop()
                elif tok.startswith("j"):
                    un = self.unresolved()
                    if not un:
                        continue
                    k = int(tok[1:]) % len(un)
                    self.do_jobdone(un[k], "j%d" % k)
            raise RuntimeError("schedule did not terminate")
        except Exception as e:       # noqa: BLE001 - never let an exception escape into the loop machinery
            self.error = e
            self.finish()

    def do_arrive(self):
        i = len(self.values)
        val = 10 + i
        ref = self.RefCounter(cb=lambda i=i: self.fired.append(i), loop=_Immediate())
        self.values.append(val)
        if self.steps and any(k[0] == "L" for k in self.steps[-1]["obs"]["ready"]):
            self.arrival_behind_wake += 1      # between a release and the woken waiter's resumption
        try:
            self.emits.append(self.source.emit(val, metadata=[{"ref": ref}]))
        except Exception as e:       # noqa: BLE001
            self.emits.append(None)
            self.error = e
        self.record("a", ["A%d" % val])

    def do_jobdone(self, i, tok):
        self.resolved.add(i)
        self.job_fut[i].set_result(self.values[i])
        self.record(tok, ["J%d" % i])

    def do_done(self):
        k = min(range(len(self.outstanding)), key=lambda i: self.outstanding[i][2])
        idx, fut, w = self.outstanding.pop(k)
        fut.set_result(None)
        self.record("d", ["D"])

    def in_flight(self):
        return len(self.started) > len(self.fired)

    def do_start(self):
        self.starts += 1
        if self.executed and self.executed[-1] == "X" and self.in_flight():
            self.restarts_inflight += 1
        self.node.start()
        self.record("S", ["S"])

    def do_stop(self):
        self.stops += 1
        self.node.stop()
        self.record("X", ["X"])

    def finish(self):
        self.driving = False
        self.loop.after_handle = None
        self.loop.before_handle = None
        if not self.finished.done():
            self.finished.set_result(None)

    async def main(self, loop):
        self._keep = []
        self._futs = []
        self.setup(loop)
        loop.before_handle = self.before
        loop.after_handle = self.hook
        await self.finished
        loop.after_handle = None
        loop.before_handle = None
        if self.error is not None:
            raise self.error
        return self


def execute(case, chooser=None):
    """map_async's worker task is still pending when a run is torn down; asyncio reports that through its logger."""
    ex = Exec(case, chooser)
    log = logging.getLogger("asyncio")
    was = log.disabled
    log.disabled = True
    try:
        vloop.run(ex.main, step_mode=True)
        ex.n_workers = len(ex.work_tasks)
        ex._keep = ex._futs = ex.work_tasks = ex._coros = ex.source = ex.node = ex.consumer = ex.loop = ex.finished = None
        ex.job_fut = ex.emits = ex.outstanding = None
        with warnings.catch_warnings():
            warnings.simplefilter("ignore")      # a user job whose task never got its first step
            gc.collect()
    finally:
        log.disabled = was
    return ex


# ------------------------------------------------------------------ schedules

def T(s):
    """compact schedule notation: 'a', 'h', 'd', 'S', 'X', digits k = j<k>"""
    return [("j" + ch) if ch.isdigit() else ch for ch in s]


CORPUS = [
    {"p": 1, "tokens": T(""), "style": "corpus:no-input"},
    {"p": 1, "tokens": T("ahhhhh0hhhdhhh"), "style": "corpus:single"},
    # burst of p+3 un-awaited arrivals in one turn: one holder polling, the others on the lock
    {"p": 1, "tokens": T("aaaahhhhhhhhhh0hhhhhdhhhhh0hhhhdhhhh"), "style": "corpus:burst-p1"},
    {"p": 2, "tokens": T("aaaaahhhhhhhhhhhh1hhh0hhhdhhhhdhhhh"), "style": "corpus:burst-p2-jobs-out-of-order"},
    # an arrival between a release and the woken waiter's resumption (the newcomer must queue up behind it)
    {"p": 1, "tokens": T("aaahhhhhhhh0hhhahahhhhh"), "style": "corpus:arrival-behind-woken-waiter"},
    # an arrival whose first step runs in the turn in which the worker frees the slot (the fast-path race)
    {"p": 1, "tokens": T("aaahhhhhhhhhh0hhahhhhhhh"), "style": "corpus:arrival-when-slot-frees"},
    {"p": 1, "tokens": T("aahhhhhhh0ahhhhhhdhhh"), "style": "corpus:arrival-with-completion"},
    # a job resolved before its first step
    {"p": 2, "tokens": T("ahh0hhhhhdhh"), "style": "corpus:resolved-before-first-step"},
    {"p": 3, "tokens": T("aaaaaaahhhhhhhhhhhhhh2hh1hh0hhhdhhhdhhhdhhhh"), "style": "corpus:p3"},
    {"p": 0, "tokens": T("aaaahhhhhhhhhhh0hh0hh"), "style": "corpus:unbounded"},
    # repair 63350ae: start() reaches the node while its worker awaits job 0 and job 1 sits in the queue; job 1 finishes first
    {"p": 1, "tokens": T("aahhhhhhhShhhh1hhhh0hhhhdhhhhdhhh"), "style": "corpus:start-on-running-node"},
    {"p": 2, "tokens": T("aaahhhhhhhhhShhSh21hhhh0hhhdhhhhdhhhdhhh"), "style": "corpus:start-twice-on-running-node"},
    # repair 6edff40: stop(); start() with a job in flight and one queued — the new worker must wait for the old one
    {"p": 1, "tokens": T("aahhhhhhhXShhhh1hhhh0hhhhdhhhhhhdhhh"), "style": "corpus:restart-with-job-in-flight"},
    # stop(), then the next update() creates the worker; the old one is suspended in get() with its getter registered
    {"p": 1, "tokens": T("ahhhh0hhhdhhhXahhhhhh0hhhdhhhhhahhhhh0hhdhhhh"), "style": "corpus:stop-then-update-old-worker-in-get"},
    # stop before the worker's first step; stop/start/stop/start in one turn; start before any data
    {"p": 1, "tokens": T("aXhhhhShhhh0hhhdhhh"), "style": "corpus:stop-before-first-step"},
    {"p": 2, "tokens": T("ShXSXSahhhhhhhhhh0hhhdhhhahhhh0hhdhhh"), "style": "corpus:chain-of-idle-workers"},
    {"p": 1, "tokens": T("aahhhhhhhXShXShhhhhh0hhhhdhhhh0hhhhdhhhhhh"), "style": "corpus:restart-twice-in-flight"},
    # restart while the consumer is busy; arrivals while there is no worker at all
    {"p": 1, "tokens": T("aahhhhhhh0hhhXaahhhhhhShhdhhhhhh0hhdhhhh0hhdhh0hhhdhhh"), "style": "corpus:no-worker-for-a-while"},
]


def gen_case(rng):
    style = rng.choice(["uniform", "eager-loop", "burst", "saturate", "race", "lifecycle", "lifecycle"])
    p = rng.choice([1, 1, 2, 3])
    toks = []
    if style == "burst":
        for _ in range(rng.randint(1, 3)):
            toks += ["h"] * rng.randint(0, 4) + ["a"] * rng.randint(p + 2, p + 5)
            toks += [rng.choice(["h", "h", "h", "d", "j0", "j1", "j2"]) for _ in range(rng.randint(4, 20))]
    elif style == "saturate":
        # more than p + 2 outstanding, then completions with arrivals dropped between any two handles
        toks += ["a"] * (p + 3) + ["h"] * rng.randint(3, 4 * p + 10)
        for _ in range(rng.randint(3, 10)):
            toks += [rng.choice(["j0", "j0", "j1", "d"])] + ["h"] * rng.randint(0, 3)
            if rng.random() < 0.6:
                toks += ["a"] + ["h"] * rng.randint(0, 3)
    elif style == "race":
        # arrivals one to five handles after a completion, while older jobs wait for the slot
        toks += ["a"] * (p + 2) + ["h"] * (3 * p + 9)
        for _ in range(rng.randint(2, 6)):
            toks += ["j0"] + ["h"] * rng.randint(0, 5) + ["a"] + ["h"] * rng.randint(0, 6) + (["d"] if rng.random() < 0.7 else [])
    elif style == "lifecycle":
        # start / stop / restart (stop();start() adjacent) dropped between any two handles of a busy node
        toks += ["a"] * rng.randint(1, p + 2) + ["h"] * rng.randint(0, 3 * p + 8)
        for _ in range(rng.randint(3, 9)):
            toks += rng.choice([["S"], ["X"], ["X", "S"], ["X", "S"], ["X", "a"], ["S", "S"]]) + ["h"] * rng.randint(0, 4)
            toks += [rng.choice(["j0", "j1", "d", "a", "h", "j0"]) for _ in range(rng.randint(0, 5))]
            toks += ["h"] * rng.randint(0, 4)
    else:
        w = {"uniform": (3, 6, 2, 2), "eager-loop": (2, 10, 2, 2)}[style]
        for _ in range(rng.choice([10, 20, 35])):
            t = rng.choices(["a", "h", "d", "j"], weights=w)[0]
            toks.append(t if t != "j" else "j%d" % rng.randint(0, 2))
    # a start / stop / restart anywhere in the other styles as well
    for _ in range(rng.choice([0, 0, 1, 2])):
        i = rng.randint(0, len(toks))
        toks[i:i] = rng.choice([["S"], ["X"], ["X", "S"]])
    return {"p": p, "tokens": toks, "style": style}


# ------------------------------------------------------------------ judging

def case_json(ex):
    c = dict(ex.case)
    c["tokens"] = list(ex.executed)
    c.pop("max_arrivals", None)
    return c


def project(ms):
    def wst(x):
        # runnable (first step / resolved getter / resolved wait) or suspended on gather's outer future with the consumer
        # done: the node shows none of: registered getter, awaited job task, busy consumer, pending predecessor wait
        if x in ("s", "g0", "p1") or x[0] == "f":
            return "?"
        return "p" if x == "p0" else x
    return {"ready": ms["ready"], "locked": ms["holder"] is not None, "holder": ms["holder"],
            "lockq": [[a, bool(b)] for a, b in ms["lockq"]], "queue": ms["queue"],
            "workers": [[bool(stop), wst(x)] for stop, x in ms["workers"]], "workTask": ms["workTask"],
            "getters": ms["getters"],
            "started": ms["started"], "outs": ms["outs"], "fin": ms["fin"], "acked": sorted(ms["acked"]),
            "ins_done": sorted(ms["started"])}


def compare(ex, ans, aspects):
    if "accepted" not in ans:
        return "driver answered %r" % (ans,)
    if not ans["accepted"]:
        i = ans["at"]
        st = ex.steps[i]
        return ("the model rejects step %d (%s, actions %r, real handle %r): %s is not enabled in model state %s"
                % (i, st["tok"], st["acts"], st["ran"], ans["act"], (ans["states"] or [{"worker": "init"}])[-1]))
    for i, (st, ms) in enumerate(zip(ex.steps, ans["states"])):
        if st["tok"] == "h" and st["ran"] is not None and ms["ran"] != [st["ran"]]:
            return ("step %d: the loop ran handle %s, the model's ready queue had %r in front" % (i, st["ran"], ms["ran"]))
        pm = project(ms)
        for k in aspects:
            a, b = st["obs"][k], pm[k]
            if a != b:
                return ("after step %d (%s, actions %r, handle %r) %s: node %r, model %r"
                        % (i, st["tok"], st["acts"], st["ran"], k, a, b))
    return None


ASPECTS = {
    "C02": ("ready", "locked", "holder", "lockq", "queue", "workers", "workTask", "started", "outs"),
    "C03": ("ready", "queue", "workers", "getters", "started", "outs", "acked", "ins_done", "fin"),
}


def run(ctx, prop, n_cases):
    if prop not in ASPECTS:
        return
    aspects = ASPECTS[prop]
    rng = ctx.rng
    execs = []
    for c in CORPUS:
        execs.append((execute(dict(c)), "corpus"))
    for _ in range(n_cases):
        execs.append((execute(gen_case(rng)), "random"))
    # random walks over the enabled tokens with a bound on arrivals: un-awaited producers, > p + 2 outstanding
    walks = n_cases if not ctx.thorough() else 2 * n_cases
    for _ in range(walks):
        p = rng.choice([1, 1, 2, 3])
        wts = {"a": rng.choice([1, 2, 4]), "h": rng.choice([3, 6]), "d": 2, "j": 2, "S": rng.choice([0.02, 0.4, 1]),
               "X": rng.choice([0.02, 0.4, 1])}

        def chooser(en, wts=wts):
            return rng.choices(en, weights=[wts[e[0]] for e in en])[0]
        execs.append((execute({"p": p, "max_arrivals": p + rng.randint(3, 6), "max_steps": rng.choice([60, 120, 200]),
                               "style": "random-walk"}, chooser=chooser), "random-walk"))
    lines = [{"op": "trace", "p": ex.p, "variant": VARIANT, "life": LIFE, "steps": [s["acts"] for s in ex.steps]} for ex, _ in execs]
    answers = common.lean_driver(GROUP, lines) if lines else []
    for (ex, kind), ans in zip(execs, answers):
        ctx.count("mafine:kind:" + kind)
        ctx.count("mafine:p=%d" % ex.p)
        ctx.count("mafine:arrivals:%s" % (len(ex.values) if len(ex.values) < 6 else "6+"))
        if ex.max_outstanding > ex.p + 2:
            ctx.count("mafine:more-than-p+2-outstanding")
        if ex.lock_waiters_seen:
            ctx.count("mafine:jobs-queued-on-the-lock")
        if ex.polls:
            ctx.count("mafine:holder-polled")
        if ex.arrival_behind_wake:
            ctx.count("mafine:arrival-between-release-and-woken-waiter")
        if ex.stops or ex.starts:
            ctx.count("mafine:with-start-or-stop")
        if ex.restarts_inflight:
            ctx.count("mafine:restart-with-data-in-flight")
        if ex.waitprev_seen:
            ctx.count("mafine:new-worker-waited-for-its-predecessor")
        if ex.n_workers > 1:
            ctx.count("mafine:several-workers-created")
        why = compare(ex, ans, aspects)
        if why is None:
            ctx.coverage["traces_validated_against_impl"] += 1
        else:
            ctx.disagreement("map_async(parallelism=%d) vs Model/MapAsyncFine.lean: %s" % (ex.p, why),
                             dict(case_json(ex), runner="corr_mapasyncfine.replay"))


def replay(case):
    ex = execute(dict(case))
    ans = common.lean_driver(GROUP, [{"op": "trace", "p": ex.p, "variant": VARIANT, "life": LIFE, "steps": [s["acts"] for s in ex.steps]}])[0]
    return {p: compare(ex, ans, ASPECTS[p]) for p in ASPECTS}
