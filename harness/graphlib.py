"""Builds real streamz pipelines from a JSON node list, instruments them through the
public extension surface (per-instance wrappers of `update` / `_emit`, a logging
RefCounter subclass, harness-controlled consumers) and runs operation lists on
them, synchronously (no loop) or on the virtual-time loop.

Case format (shared with the Lean driver `Drivers/Graph.lean`):
  {"mode": "sync"|"async", "nodes": [{"kind":..., "ups":[...], ...}], "ops": [...]}
"""
import asyncio
import gc
import weakref

from . import catalogue, vloop

ZIP_MAXSIZE = 100000


def canon(x):
    if isinstance(x, tuple):
        return {"t": [canon(y) for y in x]}
    if isinstance(x, list):
        return [canon(y) for y in x]
    if isinstance(x, (int, str)) and not isinstance(x, bool) or x is None:
        return x
    return {"?": repr(x)}


def decanon(j):
    if isinstance(j, dict):
        return tuple(decanon(y) for y in j["t"])
    if isinstance(j, list):
        return [decanon(y) for y in j]
    return j


def decanon_keep(j):
    """canon'ed value -> canon'ed value usable as an op's "val" (identity; kept for clarity)."""
    return j


class ImmediateLoop:
    """Stands in for the loop of a RefCounter: the callback runs (is logged) at once."""
    def add_callback(self, cb, *a, **k):
        cb(*a, **k)


def tags_of(metadata):
    if metadata is None:
        return []
    if not isinstance(metadata, list):
        return ["BADSHAPE:" + type(metadata).__name__]
    out = []
    for m in metadata:
        if not isinstance(m, dict):
            out.append("BADSHAPE:" + type(m).__name__)
        else:
            out.append(m.get("tag"))
    return out


class TLog(list):
    """Event list that also remembers the virtual time of every append (parallel list `.t`)."""

    def __init__(self, clock):
        super().__init__()
        self.clock = clock
        self.t = []

    def append(self, ev):
        super().append(ev)
        self.t.append(self.clock())


class Run:
    """One instrumented pipeline."""

    def __init__(self, case, loop=None, consumer_flavour="future"):
        import streamz
        from streamz import Stream, RefCounter
        self.streamz = streamz
        self.case = case
        self.loop = loop
        self.flavour = consumer_flavour
        catalogue.FAIL_EXC[0] = catalogue.EXC_KINDS[case.get("exc") or "ValueError"]
        self.log = TLog(self.now)
        self.nodes = []          # strong refs while "held"
        self.wr = []             # weak refs
        self.refs = {}           # ref id -> RefCounter
        self.pending = {}        # tok -> Future
        self.ntok = 0
        self.emits = []          # awaitables returned by emit (async mode)
        self.prefailed = set()   # tokens of consumer invocations that failed at once
        self.jobs = {}           # map_async job id -> Future
        self.njob = 0
        run = self

        class TRef(RefCounter):
            def __init__(self, rid):
                super().__init__(initial=0, cb=lambda: run.log.append(["fire", rid]), loop=ImmediateLoop())
                self.rid = rid

            def retain(self, n=1):
                run.log.append(["retain", self.rid, n])
                super().retain(n)

            def release(self, n=1):
                run.log.append(["release", self.rid])
                super().release(n)

        self.TRef = TRef
        asyn = case["mode"] == "async"
        for i, nd in enumerate(case["nodes"]):
            node = self._make(Stream, nd, asyn)
            self._instrument(node, i)
            self.nodes.append(node)
            self.wr.append(weakref.ref(node))

    late_errs = ()

    def now(self):
        return self.loop.time() if self.loop is not None else 0

    # ------------------------------------------------------------ construction
    def _make(self, Stream, nd, asyn):
        k = nd["kind"]
        ups = [self.nodes[u] for u in nd.get("ups", [])]
        me = len(self.nodes)
        run = self

        def logged(f):
            def w(*a):
                try:
                    return f(*a)
                except Exception as e:  # noqa: BLE001
                    run.log.append(["fnraise", me, run._exc_name(e)])
                    raise
            return w

        def mk(spec):
            return logged(catalogue.make_fn(spec))

        def mk2(spec):
            return logged(catalogue.make_fn2(spec))

        # node(func, *args, **kwargs) calls func(x, *args, **kwargs): the same function handed over in the three documented ways
        form = nd.get("call_form", "plain")

        def with_form(fn, arity=1, allow_args=True):
            if form == "args" and allow_args:
                def g(*a):
                    if len(a) != arity + 1 or a[-1] != "extra":
                        raise AssertionError("the extra positional argument did not reach the user function: %r" % (a[arity:],))
                    return fn(*a[:arity])
                return g, ("extra",), {}
            if form in ("kwargs", "args"):
                def h(*a, **kw):
                    if len(a) != arity or kw != {"tag": "extra"}:
                        raise AssertionError("the extra keyword argument did not reach the user function: %r %r" % (a[arity:], kw))
                    return fn(*a)
                return h, (), {"tag": "extra"}
            return fn, (), {}
        if k == "source":
            return Stream(asynchronous=True) if asyn else Stream()
        if k == "union":
            return ups[0].union(*ups[1:])
        if k == "plain":
            # a plain Stream built through the class over an upstream: Stream.update, the base-class pass-through
            return Stream(upstream=ups[0])
        if k == "map":
            fn, a, kw = with_form(mk(nd["f"]))
            return ups[0].map(fn, *a, **kw)
        if k == "starmap":
            twin = logged(catalogue.starmap_twin(nd["f"]))
            if form in ("args", "kwargs"):
                def sm(*a, **kw):
                    if kw != {"tag": "extra"}:
                        raise AssertionError("the extra keyword argument did not reach the user function: %r" % (kw,))
                    return twin(*a)
                return ups[0].starmap(sm, tag="extra")
            return ups[0].starmap(twin)
        if k == "filter":
            if form == "none" and nd["f"] == ["truthy"]:
                return ups[0].filter(None)          # the documented default predicate: keep what is truthy
            fn, a, kw = with_form(mk(nd["f"]))
            return ups[0].filter(fn, *a, **kw)
        if k == "accumulate":
            kw = {}
            if nd.get("has_start"):
                kw["start"] = decanon(nd["start"])
            fn, _a, kw2 = with_form(mk2(nd["f"]), arity=2, allow_args=False)
            return ups[0].accumulate(fn, returns_state=nd.get("returns_state", False),
                                     with_state=nd.get("with_state", False), **kw, **kw2)
        if k == "slice":
            return ups[0].slice(nd.get("start"), nd.get("end"), nd.get("step"))
        if k == "partition":
            key = mk(nd["key"]) if nd.get("key") else None
            return ups[0].partition(nd["n"], key=key)
        if k == "partition_unique":
            return ups[0].partition_unique(nd["n"], key=mk(nd["key"]), keep=nd.get("keep", "first"))
        if k == "sliding_window":
            return ups[0].sliding_window(nd["n"], return_partial=nd.get("partial", True))
        if k == "unique":
            return ups[0].unique(maxsize=nd.get("maxsize"), key=mk(nd["key"]), hashable=nd.get("hashable", True))
        if k == "flatten":
            return ups[0].flatten()
        if k == "pluck":
            return ups[0].pluck(nd["pick"])
        if k == "collect":
            return ups[0].collect()
        if k == "zip":
            args = list(ups)
            for pos, val in nd.get("literals", []):
                args.insert(pos, decanon(val))
            if nd.get("maxsize_default"):
                return self.streamz.zip(*args)      # the default maxsize (10): without a loop nobody waits, nothing may be dropped
            return self.streamz.zip(*args, maxsize=ZIP_MAXSIZE)
        if k == "combine_latest":
            kw = {}
            if nd.get("emit_on") is not None:
                eo = list(nd["emit_on"])
                # the API takes a stream, an index, or a list/tuple of either: all forms denote the same set of inputs
                form = nd.get("emit_on_form", "list")
                if form == "int" and len(eo) == 1:
                    kw["emit_on"] = eo[0]
                elif form == "stream" and len(eo) == 1:
                    kw["emit_on"] = ups[eo[0]]
                elif form == "streams":
                    kw["emit_on"] = tuple(ups[j] for j in eo)
                elif form == "mixed":
                    kw["emit_on"] = [ups[j] if n % 2 else j for n, j in enumerate(eo)]
                else:
                    kw["emit_on"] = eo
            return ups[0].combine_latest(*ups[1:], **kw)
        if k == "zip_latest":
            return ups[0].zip_latest(*ups[1:])
        if k == "buffer":
            return ups[0].buffer(nd["n"])
        def interval_of(nd):
            # the interval as a number of seconds or (interval_str) as a pandas-style string: '1s', '500ms', ...
            if nd.get("interval_str") == "np":
                # a numpy scalar (an interval read from an array or a frame)
                import numpy as np
                iv = nd["interval"]
                return np.int64(iv) if iv == int(iv) else np.float64(iv)
            if nd.get("interval_str"):
                iv = nd["interval"]
                return "%dms" % int(round(iv * 1000)) if nd["interval_str"] == "ms" else "%gs" % iv
            return nd["interval"]
        if k == "delay":
            return ups[0].delay(interval_of(nd))
        if k == "rate_limit":
            return ups[0].rate_limit(interval_of(nd))
        if k == "map_async":
            job = self._async_fn(nd, me)
            if form == "args":
                async def job_a(x, tag):
                    if tag != "extra":
                        raise AssertionError("the extra positional argument did not reach the mapped coroutine")
                    return await job(x)
                return ups[0].map_async(job_a, "extra", parallelism=nd.get("parallelism", 1))
            if form == "kwargs":
                async def job_k(x, tag=None):
                    if tag != "extra":
                        raise AssertionError("the extra keyword argument did not reach the mapped coroutine")
                    return await job(x)
                return ups[0].map_async(job_k, parallelism=nd.get("parallelism", 1), tag="extra")
            return ups[0].map_async(job, parallelism=nd.get("parallelism", 1))
        if k == "timed_window":
            return ups[0].timed_window(interval_of(nd))
        if k == "timed_window_unique":
            return ups[0].timed_window_unique(interval_of(nd), key=mk(nd["key"]), keep=nd.get("keep", "first"))
        if k == "partition_timeout":
            key = mk(nd["key"]) if nd.get("key") else None
            return ups[0].partition(nd["n"], timeout=nd["timeout"], key=key)
        if k == "latest":
            return ups[0].latest()
        if k == "zipmax":
            return self.streamz.zip(*ups, maxsize=nd["maxsize"])
        if k == "sink":
            if nd.get("mode") == "async":
                return ups[0].sink(self._consumer(prefail=nd.get("prefail")))
            fn, a, kw = with_form(mk(nd["f"]))
            if nd.get("detached"):
                # built through the class without an upstream and attached afterwards with connect()
                from streamz.sinks import sink as SinkClass
                s = SinkClass(None, fn, *a, **kw)
                ups[0].connect(s)
                return s
            return ups[0].sink(fn, *a, **kw)
        raise KeyError(k)

    def _async_fn(self, nd, me):
        """map_async function: the result is f(x), delivered when the harness completes the job."""
        run = self
        f = catalogue.make_fn(nd["f"])

        async def job(x):
            jid = run.njob
            run.njob += 1
            fut = run.loop.create_future()
            run.jobs[jid] = fut
            run.log.append(["jobstart", me, jid, canon(x), run.loop.time()])
            await fut
            return f(x)
        cf = nd.get("callfail")
        if cf:
            def call(x):
                # a mapped callable that validates its argument BEFORE returning the awaitable
                if type(x) is int and cf[0] and x % cf[0] == cf[1]:
                    raise ValueError("mapped callable rejected its argument")
                return job(x)
            return call
        return job

    def _consumer(self, prefail=None):
        run = self

        def consumer(x):
            tok = run.ntok
            run.ntok += 1
            fut = run.loop.create_future()
            run.pending[tok] = fut
            run.log.append(["start", None, tok, canon(x), run.loop.time() if run.loop else 0])
            if prefail and type(x) is int and prefail[0] and x % prefail[0] == prefail[1]:
                # the consumer fails before its first suspension point: the awaitable it returns has already failed
                run.prefailed.add(tok)
                if run.flavour == "future":
                    fut.set_exception(ValueError("consumer failed at once"))
                    return fut
                if run.flavour == "coro":
                    async def boom():
                        fut.set_exception(ValueError("consumer failed at once"))
                        fut.exception()
                        raise ValueError("consumer failed at once")
                    return boom()
                from tornado import gen as _gen

                @_gen.coroutine
                def tboom():
                    fut.set_exception(ValueError("consumer failed at once"))
                    fut.exception()
                    raise ValueError("consumer failed at once")
                    yield
                return tboom()
            if run.flavour == "future":
                return fut
            if run.flavour == "coro":
                async def wait():
                    await fut
                return wait()
            from tornado import gen

            @gen.coroutine
            def twait():
                yield fut
            return twait()
        return consumer

    def _instrument(self, node, idx):
        run = self
        node._verif_idx = idx
        orig_update = node.update
        orig_emit = node._emit

        def update(x, who=None, metadata=None):
            run.log.append(["arrive", idx, getattr(who, "_verif_idx", None), canon(x), tags_of(metadata)])
            try:
                return orig_update(x, who=who, metadata=metadata)
            except BaseException as e:
                try:
                    e._verif_from_update = True      # raised by (or below) some node's update(): a node's own code or a user function
                except Exception:                    # noqa: BLE001 - exception types without a __dict__
                    pass
                raise

        def _emit(x, metadata=None):
            run.log.append(["emit", idx, canon(x), tags_of(metadata)])
            try:
                return orig_emit(x, metadata=metadata)
            except RecursionError:
                raise
            except Exception as e:
                if not getattr(e, "_verif_from_update", False):
                    # raised by Stream._emit's own code (the delivery loop / reference bookkeeping), not by any update() below it
                    run.log.append(["plumbing-raised", idx, type(e).__name__])
                raise

        node.update = update
        node._emit = _emit

    # ------------------------------------------------------------ helpers
    def md(self, spec):
        out = []
        for e in spec or []:
            d = {"tag": e["tag"]}
            if e.get("ref") is not None:
                rid = e["ref"]
                if rid not in self.refs:
                    self.refs[rid] = self.TRef(rid)
                d["ref"] = self.refs[rid]
            out.append(d)
        return out

    def counts(self, rids):
        return [self.refs[r].count if r in self.refs else 0 for r in rids]

    def links(self):
        downs, ups, alive = [], [], []
        for i, w in enumerate(self.wr):
            n = w()
            if n is None:
                downs.append(None)
                ups.append(None)
                continue
            alive.append(i)
            downs.append([getattr(d, "_verif_idx", None) for d in n.downstreams])
            ups.append([getattr(u, "_verif_idx", None) for u in n.upstreams])
        return {"downs": downs, "ups": ups, "alive": alive}

    def take_log(self):
        l, self.log = self.log, TLog(self.now)
        self.last_times = l.t
        # fill in the sink id of "start" events from the preceding arrive
        last_arrive = None
        for e in l:
            if e[0] == "arrive":
                last_arrive = e[1]
            elif e[0] == "start" and e[1] is None:
                e[1] = last_arrive
        return list(l)

    def _exc_name(self, e):
        """class name of an exception; the type selected with case["exc"] for the failing user functions is reported as the default
        'ValueError' (a StopIteration crossing a coroutine frame arrives as RuntimeError: PEP 479), so observations and model agree"""
        name = type(e).__name__
        sel = self.case.get("exc")
        if sel and (name == sel or (sel == "StopIteration" and name == "RuntimeError" and "StopIteration" in str(e))):
            return "ValueError"
        return name

    def emit_status(self):
        out = []
        for f in self.emits:
            if f is None:
                out.append("none")
            elif not f.done():
                out.append("pending")
            elif f.cancelled():
                out.append("cancelled")
            elif f.exception() is not None:
                out.append("raised:" + self._exc_name(f.exception()))
            else:
                out.append("done")
        return out

    # ------------------------------------------------------------ ops (sync part)
    def do_sync(self, op):
        """Perform the synchronous part of an op; returns err string or None."""
        kind = op["op"]
        # a completion of something that does not exist is not an operation of the pipeline: the schedule is invalid
        # (only shortened or hand-edited schedules can contain one); reported as such, never executed half-way
        if kind in ("sinkdone", "sinkfail") and op["tok"] not in self.pending:
            return "invalid-op:%s:%r" % (kind, op["tok"])
        if kind in ("jobdone", "jobfail") and op["job"] not in self.jobs:
            return "invalid-op:%s:%r" % (kind, op["job"])
        try:
            if kind == "emit":
                node = self.nodes[op["node"]]
                r = node.emit(decanon(op["val"]), metadata=self.md(op.get("md")))
                if self.case["mode"] == "async":
                    self.emits.append(r)
            elif kind == "flush":
                self.nodes[op["node"]].flush()
            elif kind == "sinkdone":
                self.pending.pop(op["tok"]).set_result(None)
            elif kind == "sinkfail":
                fut = self.pending.pop(op["tok"])
                if not fut.done():
                    fut.set_exception(ValueError("consumer failed"))
                else:
                    fut.exception()     # already failed at once (pre-failed consumer): just acknowledge it
            elif kind == "connect":
                self.nodes[op["up"]].connect(self.nodes[op["down"]])
            elif kind == "disconnect":
                self.nodes[op["up"]].disconnect(self.nodes[op["down"]])
            elif kind == "destroy":
                if "streams" in op:
                    # node.destroy(streams=<selection>): cuts the selected incoming edges only (list or tuple spelling)
                    sel = [self.nodes[u] for u in op["streams"]]
                    self.nodes[op["node"]].destroy(streams=tuple(sel) if op.get("form") == "tuple" else sel)
                else:
                    self.nodes[op["node"]].destroy()
            elif kind == "start":
                self.nodes[op["node"]].start()      # Stream.start() walks upstream ("start any upstream sources")
            elif kind == "restart":
                self.nodes[op["node"]].stop()       # stop() and start() again, both walk upstream
                self.nodes[op["node"]].start()
            elif kind == "drop":
                self.nodes[op["node"]] = None
            elif kind == "jobdone":
                self.jobs.pop(op["job"]).set_result(None)
            elif kind == "jobfail":
                self.jobs.pop(op["job"]).set_exception(ValueError("mapped coroutine failed"))
            elif kind == "multi":
                # several operations in ONE loop callback (no settling in between): a completion racing an emission
                for i, sub in enumerate(op["ops"]):
                    if sub["op"] == "after":
                        # {"op":"after","n":k,"ops":[...]}: those operations happen k loop iterations later, in a callback queued NOW -
                        # i.e. before the handles that the following operations of this callback make runnable
                        self._later(sub["n"], sub["ops"])
                        continue
                    if sub["op"] == "turns":
                        # the remaining operations happen `n` loop iterations later (still without settling in between):
                        # an emission placed at an exact distance from the wake-ups a completion causes
                        self._later(sub["n"], op["ops"][i + 1:])
                        break
                    err = self.do_sync(sub)
                    if err is not None:
                        return err
            elif kind in ("turns", "after"):
                pass
            elif kind in ("counts", "links", "advance", "settle"):
                pass
            else:
                raise KeyError(kind)
        except Exception as e:  # noqa: BLE001 - class name only, no traceback kept
            name = self._exc_name(e)
            if kind == "emit" and self.case["mode"] == "async":
                self.emits.append(None)
            e = None
            return "raised:" + name
        return None

    def _later(self, n, rest):
        import asyncio
        aloop = asyncio.get_event_loop()
        if isinstance(self.late_errs, tuple):
            self.late_errs = []

        def step(k):
            if k > 0:
                aloop.call_soon(step, k - 1)
                return
            err = self.do_sync({"op": "multi", "ops": rest})
            if err is not None:
                self.late_errs.append(err)
        aloop.call_soon(step, max(int(n), 1) - 1)

    def observe(self, op, err):
        if self.late_errs:
            err = err or self.late_errs[0]
            self.late_errs = []
        if op["op"] in ("drop", "disconnect", "destroy"):
            gc.collect()
        o = {"log": self.take_log(), "err": err}
        o["t"] = list(self.last_times)
        o["now"] = self.now()
        if op["op"] == "counts":
            o["counts"] = self.counts(op["refs"])
        if op["op"] == "links":
            o.update(self.links())
        if self.case["mode"] == "async":
            o["emits"] = self.emit_status()
            o["prefailed"] = sorted(self.prefailed)
        return o

    def cleanup(self):
        from streamz import sinks
        catalogue.FAIL_EXC[0] = ValueError
        for n in self.nodes:
            if n is not None and n in sinks._global_sinks:
                sinks._global_sinks.discard(n)
        for w in self.wr:
            n = w()
            if n is not None and n in sinks._global_sinks:
                sinks._global_sinks.discard(n)
        for f in list(self.pending.values()) + list(self.jobs.values()):
            if not f.done():
                f.cancel()
        self.nodes = []
        gc.collect()


def run_case(case, flavour="future"):
    """Run a case on the real implementation; returns one observation per op."""
    if case["mode"] == "sync":
        run = Run(case)
        try:
            return [run.observe(op, run.do_sync(op)) for op in case["ops"]]
        finally:
            run.cleanup()

    async def main(loop):
        run = Run(case, loop=loop, consumer_flavour=flavour)
        try:
            out = []
            await vloop.settle(loop)
            run.take_log()
            for op in case["ops"]:
                err = run.do_sync(op)
                await vloop.settle(loop, rounds=2)
                out.append(run.observe(op, err))
            return out
        finally:
            run.cleanup()

    return vloop.run(main)
