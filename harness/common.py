"""Shared plumbing for every property check.

Nothing in here knows about a particular property: building and auditing the
Lean library, talking to a model driver over the line protocol, seeds, the
evidence file, replay files, known findings and the exit protocol.

Exit protocol (see DESIGN.md section 3.4):
  0  property held on everything explored (KNOWN-FINDING lines may be printed)
  1  a line `VIOLATION property=<id> replay=<path>` was printed
  2  harness error / timeout (never reported as a violation)
"""
import hashlib
import json
import os
import random
import re
import subprocess
import sys
import time
import traceback

ROOT = os.path.dirname(os.path.dirname(os.path.abspath(__file__)))
LEAN_DIR = os.path.join(ROOT, "lean")
EVIDENCE_DIR = os.path.join(ROOT, "evidence")
REPLAY_DIR = os.path.join(ROOT, "replays")
KNOWN_FILE = os.path.join(ROOT, "known_findings.jsonl")
CORPUS_DIR = os.path.join(ROOT, "corpus")
REPO = os.environ.get("VERIF_REPO", "/repo")

ALLOWED_AXIOMS = {"propext", "Classical.choice", "Quot.sound"}
FORBIDDEN = re.compile(
    r"\bsorry\b|\badmit\b|^axiom\s|\bnative_decide\b|\bbv_decide\b|implemented_by|\bunsafe\s|maxHeartbeats\s+0\b"
)

TRUSTED_BASE_COMMON = [
    "Lean 4.33.0 kernel; axioms allowed in property theorems: propext, Classical.choice, Quot.sound (audited with #print axioms on every run)",
    "hand-written Lean model of the anchored Python code (modelled, not verified); tied to /repo only by the correspondence run of this check",
    "Python correspondence harness (generators, canonicalisation, model-free oracles) and CPython 3.12 / tornado / pandas as installed in /venv",
]


class HarnessError(Exception):
    pass


# ---------------------------------------------------------------- lean

def _run(cmd, cwd=None, input=None, timeout=1800):
    p = subprocess.run(cmd, cwd=cwd, input=input, capture_output=True, text=True, timeout=timeout)
    return p.returncode, p.stdout, p.stderr


_built = {}


def lean_build(targets=None):
    """`lake build` (no-op when nothing changed).  Returns (ok, log)."""
    key = tuple(targets or ())
    if key in _built:
        return _built[key]
    cmd = ["lake", "build"] + list(targets or [])
    rc, out, err = _run(cmd, cwd=LEAN_DIR, timeout=3600)
    _built[key] = (rc == 0, out + err)
    return _built[key]


def strip_comments(src):
    """Remove Lean block comments (nested) and line comments."""
    out = []
    i, depth, n = 0, 0, len(src)
    while i < n:
        if src.startswith("/-", i):
            depth += 1
            i += 2
        elif depth and src.startswith("-/", i):
            depth -= 1
            i += 2
        elif depth:
            if src[i] == "\n":
                out.append("\n")
            i += 1
        elif src.startswith("--", i):
            while i < n and src[i] != "\n":
                i += 1
        else:
            out.append(src[i])
            i += 1
    return "".join(out)


def lean_sources():
    res = []
    for base, _dirs, files in os.walk(LEAN_DIR):
        if "/.lake" in base or base.endswith(".lake"):
            continue
        for f in files:
            if f.endswith(".lean"):
                res.append(os.path.join(base, f))
    return sorted(res)


def forbidden_scan():
    """The stranger's grep: forbidden tokens outside comments anywhere in the Lean tree."""
    hits = []
    for path in lean_sources():
        code = strip_comments(open(path).read())
        for ln, line in enumerate(code.split("\n"), 1):
            if FORBIDDEN.search(line):
                hits.append("%s:%d: %s" % (os.path.relpath(path, ROOT), ln, line.strip()))
    return hits


def theorems_of(props_file):
    """Fully qualified names of every `theorem` declared in a Props file."""
    code = strip_comments(open(props_file).read())
    ns = []
    names = []
    for line in code.split("\n"):
        m = re.match(r"\s*namespace\s+(\S+)", line)
        if m:
            ns.append(m.group(1))
            continue
        m = re.match(r"\s*end\s+(\S+)", line)
        if m and ns and ns[-1] == m.group(1):
            ns.pop()
            continue
        m = re.match(r"\s*(?:@\[[^\]]*\]\s*)?(?:private\s+|protected\s+)?theorem\s+(\S+)", line)
        if m:
            names.append(".".join(ns + [m.group(1)]))
    return names


def lean_audit(prop_id, module=None, extra_modules=()):
    """Build, scan and `#print axioms` every theorem of Props/<prop_id>.lean.

    Returns dict(ok, obligations, discharged, theorems=[{name, axioms, ok}], problems=[...]).
    """
    res = {"ok": True, "obligations": 0, "discharged": 0, "theorems": [], "problems": []}
    ok, log = lean_build()
    if not ok:
        res["ok"] = False
        res["problems"].append("lake build failed: " + log[-2000:])
        return res
    hits = forbidden_scan()
    if hits:
        res["ok"] = False
        res["problems"].append("forbidden tokens: " + "; ".join(hits[:10]))
    module = module or ("StreamzVerif.Props." + prop_id)
    props_file = os.path.join(LEAN_DIR, *module.split(".")) + ".lean"
    names = theorems_of(props_file)
    plain_extra = []
    for m in extra_modules:
        # an extra module may be given as (module, prefix): only its theorems named <prefix>... serve this property
        prefix = None
        if isinstance(m, (tuple, list)):
            m, prefix = m
        plain_extra.append(m)
        found_names = theorems_of(os.path.join(LEAN_DIR, *m.split(".")) + ".lean")
        if prefix:
            found_names = [n for n in found_names if n.split(".")[-1].startswith(prefix)]
        names += found_names
    extra_modules = plain_extra
    res["obligations"] = len(names)
    if not names:
        res["ok"] = False
        res["problems"].append("no theorems found in " + props_file)
        return res
    audit_src = "import %s\n" % module + "".join("import %s\n" % m for m in extra_modules)
    audit_src += "".join("#print axioms %s\n" % n for n in names)
    audit_dir = os.path.join(LEAN_DIR, ".lake", "audit")
    os.makedirs(audit_dir, exist_ok=True)
    audit_path = os.path.join(audit_dir, "Audit_%s.lean" % prop_id)
    with open(audit_path, "w") as f:
        f.write(audit_src)
    rc, out, err = _run(["lake", "env", "lean", audit_path], cwd=LEAN_DIR)
    text = out + err
    # parse "'name' depends on axioms: [a, b]" / "'name' does not depend on any axioms"
    found = {}
    for m in re.finditer(r"'([^']+)' depends on axioms: \[([^\]]*)\]", text, re.S):
        found[m.group(1)] = [a.strip() for a in m.group(2).replace("\n", " ").split(",") if a.strip()]
    for m in re.finditer(r"'([^']+)' does not depend on any axioms", text):
        found[m.group(1)] = []
    for n in names:
        if n not in found:
            res["theorems"].append({"name": n, "axioms": None, "ok": False})
            res["problems"].append("theorem not checked: " + n)
            res["ok"] = False
            continue
        ax = found[n]
        good = set(ax) <= ALLOWED_AXIOMS
        res["theorems"].append({"name": n, "axioms": ax, "ok": good})
        if good:
            res["discharged"] += 1
        else:
            res["ok"] = False
            res["problems"].append("theorem %s uses axioms %s" % (n, ax))
    if rc != 0 and res["ok"]:
        res["ok"] = False
        res["problems"].append("audit file failed: " + text[-1500:])
    return res


def leanchecker(modules):
    """Thorough tier: independent re-check of compiled .olean files."""
    rc, out, err = _run(["lake", "env", "leanchecker"] + list(modules), cwd=LEAN_DIR, timeout=3600)
    return rc == 0, (out + err)[-1500:]


def lean_driver(driver, lines, timeout=1800):
    """Pipe JSON lines through `lake env lean --run Drivers/<driver>.lean`; return parsed answers."""
    ok, log = lean_build()
    if not ok:
        raise HarnessError("lake build failed:\n" + log[-3000:])
    data = "".join(json.dumps(l, separators=(",", ":")) + "\n" for l in lines)
    rc, out, err = _run(["lake", "env", "lean", "--run", os.path.join("Drivers", driver + ".lean")],
                        cwd=LEAN_DIR, input=data, timeout=timeout)
    outs = [l for l in out.split("\n") if l.strip()]
    if rc != 0 or len(outs) != len(lines):
        raise HarnessError("driver %s: rc=%s, %d answers for %d lines\n%s" % (driver, rc, len(outs), len(lines), err[-2000:]))
    return [json.loads(l) for l in outs]


# ---------------------------------------------------------------- context

def regression_corpus(prop_id):
    """Minimised inputs on which an earlier version of the code under test (a seeded change, a repaired defect) violated the
    property: corpus/<id>.jsonl, one replay-format object per line; every run of the check evaluates them as well."""
    path = os.path.join(CORPUS_DIR, prop_id + ".jsonl")
    out = []
    if os.path.exists(path):
        for line in open(path):
            line = line.strip()
            if line and not line.startswith("#"):
                out.append(json.loads(line))
    return out


def known_findings(prop_id):
    res = []
    if os.path.exists(KNOWN_FILE):
        for line in open(KNOWN_FILE):
            line = line.strip()
            if not line or line.startswith("#"):
                continue
            k = json.loads(line)
            if k.get("property") == prop_id:
                res.append(k)
    return res


class Ctx:
    """One run of one property's check."""

    def __init__(self, prop_id, tier, seed, level="proof"):
        self.prop = prop_id
        self.tier = tier
        self.seed = seed
        self.level = level
        self.rng = random.Random((seed, prop_id).__hash__() if False else "%s/%s" % (seed, prop_id))
        self.t0 = time.time()
        self.coverage = {
            "evaluations": 0, "distinct_nontrivial": 0, "rule": "", "samples": [],
            "obligations": 0, "discharged": 0, "checker_cmd": "", "trusted_base": list(TRUSTED_BASE_COMMON),
            "traces_validated_against_impl": 0, "disagreements_checked": 0, "distribution": {},
        }
        self.assumptions = []
        self.violations = []       # dicts written as replay files
        self.known_hits = []       # (finding, what)
        self.unchecked = []        # names of theorems / correspondence cases that no longer check
        self._distinct = set()
        self.known = known_findings(prop_id)

    # --- bookkeeping
    def thorough(self):
        return self.tier == "thorough"

    def count(self, key, n=1):
        d = self.coverage["distribution"]
        d[key] = d.get(key, 0) + n

    def case(self, case, nontrivial=True, sample_cap=6):
        """Register one explored case (JSON-able)."""
        self.coverage["evaluations"] += 1
        if nontrivial:
            h = hashlib.sha1(json.dumps(case, sort_keys=True, default=str).encode()).hexdigest()
            if h not in self._distinct:
                self._distinct.add(h)
                self.coverage["distinct_nontrivial"] = len(self._distinct)
                # keep a few samples per bucket (case kind / mode / first async node) so that they show the variety explored
                bucket = "?"
                if isinstance(case, dict):
                    bucket = str(case.get("kind") or case.get("mode") or case.get("model") or "?")
                    if "nodes" in case and isinstance(case["nodes"], list):
                        ks = [n.get("kind") for n in case["nodes"] if isinstance(n, dict)]
                        special = [k for k in ks if k not in ("source", "sink", "map", "filter")]
                        bucket += ":" + (special[0] if special else "plain")
                self._buckets = getattr(self, "_buckets", {})
                if self._buckets.get(bucket, 0) < 1 and len(self.coverage["samples"]) < 12:
                    self._buckets[bucket] = self._buckets.get(bucket, 0) + 1
                    self.coverage["samples"].append(case)

    def audit(self, module=None, extra_modules=()):
        if getattr(self, "_audit_result", None) is not None:
            return self._audit_result        # once per run (the regression corpus re-enters the modules' replay functions)
        a = lean_audit(self.prop, module=module, extra_modules=extra_modules)
        self._audit_result = a
        self.coverage["obligations"] = a["obligations"]
        self.coverage["discharged"] = a["discharged"]
        self.coverage["checker_cmd"] = (
            "cd lean && lake build && lake env lean .lake/audit/Audit_%s.lean  # #print axioms on every theorem of Props/%s.lean"
            % (self.prop, self.prop))
        self.coverage["theorems"] = [t["name"] + (" [" + ",".join(t["axioms"]) + "]" if t["axioms"] is not None else " [UNCHECKED]") for t in a["theorems"]]
        if not a["ok"]:
            for p in a["problems"]:
                self.unchecked.append("proof: " + p[:400])
        if self.thorough() and a["ok"]:
            mods = [module or "StreamzVerif.Props." + self.prop]
            ok, log = leanchecker(mods)
            self.coverage["leanchecker"] = "ok" if ok else "FAILED: " + log
            if not ok:
                self.unchecked.append("leanchecker: " + log[:400])
        return a

    def disagreement(self, what, case):
        """Model and implementation differ on `case` (not by itself a violation)."""
        self.coverage["disagreements_checked"] += 1
        self.unchecked.append("correspondence: " + what[:300])
        self._last_disagreement = {"what": what, "case": case}

    # --- violations
    def match_known(self, signature):
        for k in self.known:
            if k.get("status", "open") == "open" and k.get("signature") == signature:
                return k
        return None

    def failure(self, signature, what, case, expected=None, observed=None, oracle=None):
        """The property (model-free oracle) failed on the implementation for `case`."""
        k = self.match_known(signature)
        if k is not None:
            if not any(kk is k for kk, _ in self.known_hits):
                self.known_hits.append((k, what))
            return False
        self.violations.append({
            "property": self.prop, "kind": "violation", "seed": self.seed, "tier": self.tier,
            "signature": signature, "what": what, "case": case, "expected": expected,
            "observed": observed, "oracle": oracle, "unchecked": None,
        })
        return True

    def finish(self):
        os.makedirs(EVIDENCE_DIR, exist_ok=True)
        rc = 0
        lines = []
        for k, what in self.known_hits:
            lines.append("KNOWN-FINDING: property=%s %s" % (self.prop, k.get("what", what)))
        replays = []
        if self.violations:
            os.makedirs(REPLAY_DIR, exist_ok=True)
            seen_sig = set()
            for v in self.violations:
                if v["signature"] in seen_sig:
                    continue
                seen_sig.add(v["signature"])
                h = hashlib.sha1(json.dumps(v, sort_keys=True, default=str).encode()).hexdigest()[:10]
                path = os.path.join("replays", "%s-%s.json" % (self.prop, h))
                v["replay_cmd"] = "./check %s --replay %s" % (self.prop, path)
                with open(os.path.join(ROOT, path), "w") as f:
                    json.dump(v, f, indent=1, default=str)
                lines.append("VIOLATION property=%s replay=%s" % (self.prop, path))
                replays.append(path)
            rc = 1
        elif self.unchecked:
            os.makedirs(REPLAY_DIR, exist_ok=True)
            v = {"property": self.prop, "kind": "no-failing-input-found", "seed": self.seed, "tier": self.tier,
                 "unchecked": self.unchecked[:20], "last_disagreement": getattr(self, "_last_disagreement", None),
                 "note": "a proof obligation or the model/implementation correspondence no longer checks; "
                         "the failing-input search on the implementation found no input violating the property"}
            h = hashlib.sha1(json.dumps(v, sort_keys=True, default=str).encode()).hexdigest()[:10]
            path = os.path.join("replays", "%s-%s.json" % (self.prop, h))
            v["replay_cmd"] = "./check %s --replay %s" % (self.prop, path)
            with open(os.path.join(ROOT, path), "w") as f:
                json.dump(v, f, indent=1, default=str)
            lines.append("VIOLATION property=%s replay=%s no-failing-input-found" % (self.prop, path))
            replays.append(path)
            rc = 1
        ev = {
            "property_id": self.prop, "tier": self.tier, "seed": self.seed, "level": self.level,
            "coverage": self.coverage, "assumptions": self.assumptions,
            "wall_s": round(time.time() - self.t0, 3),
            "violations": len(replays),
            "known_findings_reproduced": [k.get("signature") for k, _ in self.known_hits],
            "unchecked": self.unchecked[:20],
        }
        with open(os.path.join(EVIDENCE_DIR, self.prop + getattr(self, "evidence_suffix", "") + ".json"), "w") as f:
            json.dump(ev, f, indent=1, default=str)
        for l in lines:
            print(l)
        cov = self.coverage
        print("%s tier=%s seed=%s: %d/%d theorems, %d cases (%d distinct non-trivial), %d disagreements, %d violations, %.1fs"
              % (self.prop, self.tier, self.seed, cov["discharged"], cov["obligations"], cov["evaluations"],
                 cov["distinct_nontrivial"], cov["disagreements_checked"], len(replays), time.time() - self.t0))
        return rc


def canon(x):
    """Canonical JSON-able form of python values used in comparisons."""
    if isinstance(x, tuple):
        return {"t": [canon(y) for y in x]}
    if isinstance(x, list):
        return [canon(y) for y in x]
    if isinstance(x, dict):
        return {str(k): canon(v) for k, v in sorted(x.items(), key=lambda kv: str(kv[0]))}
    return x
