"""Correspondence of the time-window nodes with their Lean event-loop models (group AsyncWindows).

Real nodes: `timed_window(interval)`, `timed_window_unique(interval, key, keep)`, `partition(n, timeout=T, key=...)`
in single-node pipelines `source -> N -> sink` (sink synchronous, or asynchronous with harness-completed
consumers in the three flavours Future / native coroutine / tornado coroutine), driven by
`asynccheck.run_adaptive` (random interleavings of emissions, consumer completions and clock advances of
0.25-2 s against intervals / timeouts of 0.5-2 s, then a drain) and by a corpus of hand-picked boundary schedules
(arrival exactly at a tick, arrival while the node waits for a slow consumer, a partition completed at the
instant its timer is due, n = 1, duplicates in timed_window_unique).

Model: lean/StreamzVerif/Model/AsyncWindows.lean through Drivers/AsyncWindows.lean.  Every harness op is one
settled-granularity action of the model (`settle` = start, `emit` = arrive, `sinkdone tok` = downDone of
emission `tok`, `advance dt` = advanceTo now+dt); times are exact multiples of 1/4 s = 1 tick.
Compared after every op, depending on the property served:
  C02  N's emissions (batches and their metadata) in order
  C03  which emit awaitables are pending
  C04 / C05  every reference count and the callbacks fired by the op, in order
  C08  emission instants and batches, clock
No oracle is evaluated here.
"""
import copy

from . import asynccheck as ac, common, graphlib

TICK = 4
ASPECTS = {
    "C02": ("batches",),
    "C03": ("pending",),
    "C04": ("counts", "fired"),
    "C05": ("counts", "fired"),
    "C08": ("instants", "batches", "now"),
    "C10": ("batches",),                     # batches with their metadata
}


# ------------------------------------------------------------------ generation

def gen_node(rng):
    k = rng.choice(["timed_window", "timed_window_unique", "partition_timeout", "partition_timeout"])
    if k == "timed_window":
        return {"kind": k, "interval": rng.choice([0.5, 1, 1, 1.5, 2])}
    if k == "timed_window_unique":
        return {"kind": k, "interval": rng.choice([0.5, 1, 1, 2]), "key": rng.choice([["modk", 2], ["modk", 3], ["id"]]),
                "keep": rng.choice(["first", "last"])}
    return {"kind": k, "n": rng.choice([1, 2, 2, 3, 3]), "timeout": rng.choice([0.5, 1, 1, 2]),
            "key": rng.choice([None, None, ["modk", 2], ["modk", 3]])}


def pipeline(node, sink_mode):
    nd = dict(node, ups=[0])
    return [{"kind": "source", "ups": []}, nd, {"kind": "sink", "mode": sink_mode, "f": ["id"], "ups": [1]}]


def _emit(v, r):
    return {"op": "emit", "node": 0, "val": v, "md": [{"tag": r, "ref": r}]}


def _adv(dt):
    return {"op": "advance", "dt": dt}


def _done(tok):
    return {"op": "sinkdone", "tok": tok}


def corpus():
    S = {"op": "settle"}
    out = []
    tw = {"kind": "timed_window", "interval": 1}
    # arrival exactly at the tick instant (after the tick), arrival while blocked, tick measured from the completion
    out.append(("async", "future", tw, [S, _emit(1, 1), _done(0), _adv(1), _emit(2, 2), _adv(0.5), _emit(3, 3), _done(1), _adv(0.75),
                                        _adv(0.25), _emit(4, 4), _done(2), _adv(1), _done(3), _adv(1), _done(4)]))
    # consumer still busy at several tick instants: nothing is emitted, everything arrives in ONE later batch
    out.append(("async", "coro", tw, [S, _emit(1, 1), _adv(1), _emit(2, 2), _adv(1), _emit(3, 3), _adv(2), _done(0), _adv(0.75), _adv(0.25),
                                      _done(1), _adv(1), _done(2)]))
    out.append(("sync", "future", tw, [S, _emit(1, 1), _emit(2, 2), _adv(1), _emit(3, 3), _adv(0.25), _emit(4, 4), _adv(0.75), _adv(3)]))
    for keep in ("first", "last"):
        twu = {"kind": "timed_window_unique", "interval": 1, "key": ["modk", 2], "keep": keep}
        out.append(("async", "tornado", twu, [S, _done(0), _emit(1, 1), _emit(3, 2), _emit(2, 3), _emit(5, 4), _adv(1), _emit(7, 5), _emit(9, 6),
                                              _done(1), _adv(1), _done(2), _adv(1), _done(3)]))
        out.append(("sync", "future", twu, [S, _emit(1, 1), _emit(1, 2), _emit(2, 3), _emit(1, 4), _adv(1), _emit(1, 5), _adv(1)]))
    pt = {"kind": "partition_timeout", "n": 2, "timeout": 1, "key": None}
    # timer fires exactly when due; the next element starts a new partition; size flush cancels the timer
    out.append(("async", "future", pt, [S, _emit(1, 1), _adv(1), _emit(2, 2), _emit(3, 3), _adv(2), _done(0), _done(1), _emit(4, 4), _adv(0.75),
                                        _emit(5, 5), _adv(0.25), _adv(1), _done(2)]))
    # two flushes in flight, completed in the opposite order
    out.append(("async", "coro", pt, [S, _emit(1, 1), _emit(2, 2), _emit(3, 3), _emit(4, 4), _done(1), _done(0), _emit(5, 5), _adv(1), _done(2)]))
    ptk = {"kind": "partition_timeout", "n": 2, "timeout": 1, "key": ["modk", 2]}
    # two keys armed at the same instant: both timers due together
    out.append(("async", "future", ptk, [S, _emit(1, 1), _emit(2, 2), _adv(1), _done(0), _done(1), _emit(3, 3), _adv(0.5), _emit(4, 4), _emit(5, 5),
                                         _adv(0.5), _adv(0.5), _done(2), _done(3)]))
    out.append(("sync", "future", ptk, [S, _emit(1, 1), _emit(2, 2), _emit(3, 3), _adv(1), _emit(4, 4), _adv(1)]))
    pt1 = {"kind": "partition_timeout", "n": 1, "timeout": 1, "key": None}
    out.append(("async", "tornado", pt1, [S, _emit(1, 1), _emit(2, 2), _adv(1), _done(1), _done(0), _adv(2)]))
    out.append(("sync", "future", pt1, [S, _emit(1, 1), _adv(1), _emit(2, 2), _adv(2)]))
    cases = []
    for mode, flavour, node, ops in out:
        cases.append({"mode": "async", "nodes": pipeline(node, mode), "ops": copy.deepcopy(ops), "flavour": flavour})
    return cases


# ------------------------------------------------------------------ translation

def ticks(t):
    v = t * TICK
    return int(v) if v == int(v) else v


def reset_line(case):
    nd = case["nodes"][1]
    sync = case["nodes"][2].get("mode") != "async"
    if nd["kind"] == "partition_timeout":
        return {"op": "reset", "model": "pt", "n": nd["n"], "timeout": ticks(nd["timeout"]), "key": nd.get("key"), "sync": sync}
    mode = "plain" if nd["kind"] == "timed_window" else nd.get("keep", "first")
    return {"op": "reset", "model": "tw", "interval": ticks(nd["interval"]), "mode": mode,
            "key": nd.get("key") if nd["kind"] == "timed_window_unique" else None, "sync": sync}


def key_of(nd, v):
    key = nd.get("key")
    if not key:
        return 0
    return v if key == ["id"] else v % key[1]


def model_lines(case, obs):
    """Harness ops -> driver lines.  The only thing taken from the observation is, for a partition, the order in
    which the real loop served the timers during an `advance` (used by the model ONLY to choose among timers that
    are due at the same instant: asyncio's timer heap compares due times only, so that order is the heap's)."""
    nd = case["nodes"][1]
    lines = [reset_line(case)]
    for op, o in zip(case["ops"], obs):
        k = op["op"]
        if k == "settle":
            lines.append({"op": "settle"})
        elif k == "emit":
            lines.append({"op": "arrive", "x": op["val"], "md": [e["ref"] for e in op.get("md", [])]})
        elif k == "sinkdone":
            lines.append({"op": "downdone", "j": op["tok"]})
        elif k == "advance":
            line = {"op": "advance", "dt": ticks(op["dt"])}
            if nd["kind"] == "partition_timeout":
                line["order"] = [key_of(nd, graphlib.decanon(e[2])[0]) for e in o["log"]
                                 if e[0] == "emit" and e[1] == 1 and len(graphlib.decanon(e[2]))]
            lines.append(line)
        else:
            raise common.HarnessError("corr_asyncwindows: unexpected op %r" % (op,))
    return lines


def observed(o):
    """What the real pipeline did during one op, in the vocabulary of the driver's answers."""
    emits = []
    for e, t in zip(o["log"], o["t"]):
        if e[0] == "emit" and e[1] == 1:
            emits.append([ticks(t), list(graphlib.decanon(e[2])), list(e[3])])
    return {"now": ticks(o["now"]), "emits": emits, "fired": [e[1] for e in o["log"] if e[0] == "fire"],
            "counts": list(o.get("counts", [])), "pending": [s == "pending" for s in o.get("emits", [])],
            "raised": [s for s in o.get("emits", []) if s not in ("pending", "done")]}


def differences(want, got, aspects):
    """want = implementation, got = model answer."""
    if "err" in got or "bad-op" in got:
        return ["the model refuses the operation: %r" % (got,)]
    out = []
    if "batches" in aspects and [e[1:] for e in want["emits"]] != [e[1:] for e in got["emits"]]:
        out.append("batches: implementation %r, model %r" % ([e[1:] for e in want["emits"]], [e[1:] for e in got["emits"]]))
    if "instants" in aspects and [e[0] for e in want["emits"]] != [e[0] for e in got["emits"]]:
        out.append("emission instants (ticks of 1/4 s): implementation %r, model %r" % ([e[0] for e in want["emits"]], [e[0] for e in got["emits"]]))
    if "now" in aspects and want["now"] != got["now"]:
        out.append("clock: implementation %r, model %r" % (want["now"], got["now"]))
    # (a replayed case reads every counter of the case from the start; counters not yet created read 0)
    if "counts" in aspects and want["counts"] != got["counts"] + [0] * (len(want["counts"]) - len(got["counts"])):
        out.append("reference counts: implementation %r, model %r" % (want["counts"], got["counts"]))
    if "fired" in aspects and want["fired"] != got["fired"]:
        out.append("callbacks fired: implementation %r, model %r" % (want["fired"], got["fired"]))
    if "pending" in aspects and (want["pending"] != got["pending"] or want["raised"]):
        out.append("pending emit awaitables: implementation %r %r, model %r" % (want["pending"], want["raised"], got["pending"]))
    return out


def features(case, obs):
    """Labels for the input distribution (what kind of coincidences the schedule contained)."""
    nd = case["nodes"][1]
    out = set()
    for op, o in zip(case["ops"], obs):
        for e in o["log"]:
            if e[0] == "emit" and e[1] == 1:
                b = list(graphlib.decanon(e[2]))
                if nd["kind"] == "partition_timeout":
                    out.add("size-flush" if len(b) == nd["n"] and op["op"] == "emit" else "timer-flush")
                elif b:
                    out.add("nonempty-window")
        if op["op"] == "emit":
            if o["pending"]:
                out.add("arrival-while-consumer-busy")
            if any(s == "pending" for s in o.get("emits", [])):
                out.add("producer-held-back")
            if ticks(o["now"]) % max(1, ticks(nd.get("interval") or nd.get("timeout"))) == 0:
                out.add("arrival-at-multiple-of-interval")
        if len(o["pending"]) >= 2:
            out.add("two-flushes-in-flight")
        if op["op"] == "advance" and nd["kind"] == "partition_timeout":
            ts = [t for e, t in zip(o["log"], o["t"]) if e[0] == "emit" and e[1] == 1]
            if len(ts) != len(set(ts)):
                out.add("two-timers-due-at-the-same-instant")
    return out


# ------------------------------------------------------------------ entry point

def run(ctx, prop, n_cases):
    aspects = ASPECTS.get(prop, ("batches", "instants", "now", "counts", "fired", "pending"))
    rng = ctx.rng
    cases = []
    for c in corpus():
        cases.append((c, ac.rerun(c)))
    for i in range(n_cases):
        node = gen_node(rng)
        sink_mode = "async" if rng.random() < 0.75 else "sync"
        flavour = ("future", "coro", "tornado")[i % 3]
        opts = {"awaiting": rng.random() < 0.4,
                "small_alphabet": node["kind"] == "timed_window_unique" and rng.random() < 0.5}
        case, obs = ac.run_adaptive(pipeline(node, sink_mode), rng, rng.randint(8, 22), opts=opts, flavour=flavour)
        cases.append((case, obs))
    lines = []
    spans = []
    for case, obs in cases:
        ls = model_lines(case, obs)
        spans.append((len(lines), len(ls)))
        lines += ls
    answers = common.lean_driver("AsyncWindows", lines)
    for (case, obs), (start, n) in zip(cases, spans):
        ans = answers[start + 1:start + n]
        nd = case["nodes"][1]
        ctx.count("corr:AsyncWindows:" + nd["kind"])
        ctx.count("corr:AsyncWindows:sink-" + case["nodes"][2]["mode"])
        for f in features(case, obs):
            ctx.count("corr:AsyncWindows:" + f)
        bad = None
        if "ok" not in answers[start]:
            bad = "reset refused: %r" % (answers[start],)
        for k, (op, o, a) in enumerate(zip(case["ops"], obs, ans)):
            if bad:
                break
            d = differences(observed(o), a, aspects)
            if d:
                bad = "op %d %r: %s" % (k, op, "; ".join(d))
        if bad:
            ctx.disagreement("AsyncWindows/%s (%s): %s" % (nd["kind"], prop, bad),
                             {"nodes": case["nodes"], "ops": case["ops"], "flavour": case.get("flavour")})
        else:
            ctx.coverage["traces_validated_against_impl"] += 1
