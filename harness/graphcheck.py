"""Differential check of the synchronous dataflow model against the real code, and the
model-free oracles for C01 (dataflow semantics), C10 (metadata), C05 (reference balance),
C04 (no early completion signal), C03 clause 1 (emit waits for transparent consumers) and
C16 (failures).  Used by harness/props/c01.py, c03.py, c04.py, c05.py, c10.py, c16.py.
"""
import copy

from . import common, gen_graph, graphlib, oracle_graph, vloop


# ---------------------------------------------------------------- adaptive case generation + impl run

def normalise_literals(nodes):
    for nd in nodes:
        if nd["kind"] == "zip" and nd.get("literals"):
            args = [None] * len(nd["ups"])
            marks = []
            for pos, val in nd["literals"]:
                m = object()
                args.insert(pos, m)
                marks.append((m, val))
            nd["literals"] = sorted([[args.index(m), val] for m, val in marks])


def choose_op(rng, run, nodes, st, opts):
    sources = [i for i, n in enumerate(nodes) if n["kind"] == "source"]
    collects = [i for i, n in enumerate(nodes) if n["kind"] == "collect"]
    r = rng.random()
    pend = sorted(run.pending) if run is not None else []
    pre = [t for t in pend if t in getattr(run, "prefailed", ())]
    if pre:
        return {"op": "sinkfail", "tok": pre[0]}     # a consumer that failed at once: the model's sinkFail right after the emit
    if pend and r < opts.get("p_done", 0.3):
        if rng.random() < opts.get("p_sinkfail", 0.0):
            return {"op": "sinkfail", "tok": rng.choice(pend)}
        return {"op": "sinkdone", "tok": rng.choice(pend)}
    if collects and r < 0.4:
        return {"op": "flush", "node": rng.choice(collects)}
    if opts.get("emit_anywhere") and rng.random() < 0.1:
        tgt = rng.choice([i for i, n in enumerate(nodes) if n["kind"] != "sink"])
    else:
        tgt = rng.choice(sources)
    val = rng.choice(opts.get("alphabet", [0, 1, 2, 3, 4, 5]))
    if rng.random() < opts.get("p_weird", 0.0):
        val = rng.choice([None, "ab", {"t": [1, 2]}, [3], {"t": []}])
    md = gen_graph.gen_md(rng, st) if rng.random() < opts.get("p_md", 0.7) else []
    return {"op": "emit", "node": tgt, "val": val, "md": md}


def run_adaptive(nodes, mode, rng, n_ops, pre_ops=(), opts=None, flavour="future"):
    """Generates ops online while running the implementation.  Returns (case, observations)."""
    opts = opts or {}
    case = {"mode": mode, "nodes": nodes, "ops": []}
    if opts.get("exc"):
        case["exc"] = opts["exc"]          # the exception type the failing user functions raise (default ValueError)
    st = {"tag": 0, "ref": 0}

    def all_refs():
        return list(range(1, st["ref"] + 1))

    if mode == "sync":
        run = graphlib.Run(case)
        obs = []
        try:
            for op in pre_ops:
                case["ops"].append(op)
                obs.append(run.observe(op, run.do_sync(op)))
            for _ in range(n_ops):
                op = choose_op(rng, run, nodes, st, opts)
                case["ops"].append(op)
                o = run.observe(op, run.do_sync(op))
                o["counts"] = run.counts(all_refs())
                obs.append(o)
        finally:
            run.cleanup()
        return case, obs

    async def main(loop):
        run = graphlib.Run(case, loop=loop, consumer_flavour=flavour)
        obs = []
        try:
            await vloop.settle(loop)
            run.take_log()
            for op in pre_ops:
                case["ops"].append(op)
                err = run.do_sync(op)
                await vloop.settle(loop, rounds=2)
                obs.append(run.observe(op, err))
            k = 0
            while k < n_ops or (run.pending and k < n_ops + 60):
                if k < n_ops:
                    op = choose_op(rng, run, nodes, st, opts)
                else:
                    t0 = sorted(run.pending)[0]
                    op = {"op": "sinkfail" if t0 in run.prefailed else "sinkdone", "tok": t0}
                k += 1
                case["ops"].append(op)
                err = run.do_sync(op)
                await vloop.settle(loop, rounds=2)
                o = run.observe(op, err)
                o["counts"] = run.counts(all_refs())
                o["pending"] = sorted(run.pending)
                obs.append(o)
            return obs
        finally:
            run.cleanup()

    obs = vloop.run(main)
    return case, obs


def rerun(case, flavour="future"):
    """Re-run a recorded case (fixed ops) on the implementation with per-op counts."""
    nrefs = max([e.get("ref") or 0 for op in case["ops"] if op["op"] == "emit" for e in op.get("md", [])] + [0])
    refs = list(range(1, nrefs + 1))
    if case["mode"] == "sync":
        run = graphlib.Run(case)
        try:
            obs = []
            for op in case["ops"]:
                o = run.observe(op, run.do_sync(op))
                o["counts"] = run.counts(refs)
                obs.append(o)
            return obs
        finally:
            run.cleanup()

    async def main(loop):
        run = graphlib.Run(case, loop=loop, consumer_flavour=flavour)
        try:
            obs = []
            await vloop.settle(loop)
            run.take_log()
            for op in case["ops"]:
                err = run.do_sync(op)
                await vloop.settle(loop, rounds=2)
                o = run.observe(op, err)
                o["counts"] = run.counts(refs)
                o["pending"] = sorted(run.pending)
                obs.append(o)
            return obs
        finally:
            run.cleanup()
    return vloop.run(main)


# ---------------------------------------------------------------- model side

def nrefs_of(case):
    return max([e.get("ref") or 0 for op in case["ops"] if op["op"] == "emit" for e in op.get("md", [])] + [0])


def model_nodes(nodes):
    """node list as the Lean driver knows it: a plain pass-through Stream is `map id`; harness-only fields are dropped"""
    out = []
    for nd in nodes:
        nd = {k: v for k, v in nd.items() if k not in ("call_form", "maxsize_default", "emit_on_form", "detached")}
        if nd["kind"] == "plain":
            nd = {"kind": "map", "f": ["id"], "ups": nd["ups"]}
        out.append(nd)
    return out


def model_lines(case):
    lines = [{"op": "reset", "nodes": model_nodes(case["nodes"])}]
    refs = list(range(1, nrefs_of(case) + 1))
    for op in case["ops"]:
        lines.append(op)
        lines.append({"op": "counts", "refs": refs})
    return lines


def split_model_answers(case, answers):
    """-> list of (op answer, counts answer) per op."""
    out = []
    i = 1
    for _ in case["ops"]:
        out.append((answers[i], answers[i + 1]))
        i += 2
    return out


def flow(log):
    return [e for e in log if e[0] in ("arrive", "emit")]


def fires(log):
    return sorted(e[1] for e in log if e[0] == "fire")


ALL_ASPECTS = ("flow", "tags", "err", "fires", "counts", "starts", "emits")


def strip_tags(evs):
    return [e[:-1] for e in evs]


def compare(case, obs, manswers, aspects=ALL_ASPECTS):
    """Returns None or a description of the first difference between model and implementation,
    restricted to the observable `aspects` the calling property is about."""
    per = split_model_answers(case, manswers)
    tok_state = {}          # tok -> "done" | "failed"
    emit_toks = []          # per async emit: list of toks or None (raised synchronously)
    for k, (op, o, (ma, mc)) in enumerate(zip(case["ops"], obs, per)):
        if "bad-op" in ma:
            if o["err"] is None:
                return "op %d %r: model rejects the op (%r) but the implementation accepted it" % (k, op, ma)
            continue
        merr = ma.get("err")
        if merr == "out-of-fuel":
            if o["err"] != "raised:RecursionError":
                return "op %d: model ran out of fuel, implementation %r" % (k, o["err"])
            return None
        if "err" in aspects and (o["err"] or None) != (merr or None):
            return "op %d %r: implementation %r, model %r" % (k, op, o["err"], merr)
        mf = [e for e in ma.get("log", []) if e[0] in ("arrive", "emit")]
        a, b = flow(o["log"]), mf
        if "tags" not in aspects:
            a, b = strip_tags(a), strip_tags(b)
        if "flow" in aspects and a != b:
            j = next((i for i in range(min(len(a), len(b))) if a[i] != b[i]), min(len(a), len(b)))
            return "op %d %r: event %d differs: implementation %r, model %r" % (
                k, op, j, a[j] if j < len(a) else None, b[j] if j < len(b) else None)
        if "fires" in aspects and fires(o["log"]) != sorted(e[1] for e in ma.get("log", []) if e[0] == "fire"):
            return "op %d %r: completion callbacks differ: implementation %r, model %r" % (
                k, op, fires(o["log"]), sorted(e[1] for e in ma.get("log", []) if e[0] == "fire"))
        if "counts" in aspects and "counts" in o and o["counts"] != mc.get("counts")[:len(o["counts"])]:
            return "op %d %r: reference counts differ: implementation %r, model %r" % (k, op, o["counts"], mc.get("counts"))
        istarts = [(e[1], e[2]) for e in o["log"] if e[0] == "start"]
        mstarts = [(e[1], e[2]) for e in ma.get("log", []) if e[0] == "start"]
        if "starts" in aspects and istarts != mstarts:
            return "op %d %r: consumer starts differ: implementation %r, model %r" % (k, op, istarts, mstarts)
        if case["mode"] == "async":
            for t in o.get("prefailed", []):
                tok_state.setdefault(t, "failed")       # a consumer that failed at once: its awaitable is already failed
            if op["op"] == "emit":
                emit_toks.append(None if merr else (list(ma.get("toks", [])), ma.get("carried")))
            elif op["op"] == "sinkdone":
                tok_state[op["tok"]] = "done"
            elif op["op"] == "sinkfail":
                tok_state[op["tok"]] = "failed"
            want = []
            for ent in emit_toks:
                if ent is None:
                    want.append("none")
                    continue
                toks, carried = ent
                if any(t not in tok_state for t in toks):
                    want.append("pending")     # gen.multi waits for every child before it completes or raises
                elif carried or any(tok_state.get(t) == "failed" for t in toks):
                    want.append("raised")
                else:
                    want.append("done")
            got = list(o.get("emits", []))
            # tornado's multi() waits for all children before raising: accept pending while others are pending
            for g, w in zip(got, want):
                if "emits" in aspects and g.split(":")[0] != w:
                    return "op %d %r: emit awaitables: implementation %r, model %r" % (k, op, got, want)
            if "emits" in aspects and len(got) != len(want):
                return "op %d: emit count" % k
    return None


# ---------------------------------------------------------------- oracles (implementation only)

def downs_of(nodes):
    d = {i: [] for i in range(len(nodes))}
    for i, n in enumerate(nodes):
        for u in n.get("ups", []):
            if i not in d[u]:
                d[u].append(i)
    return d


def oracle(case, obs, check=("sem", "md", "edges", "refs", "early", "emitwait", "fail"), stop_on_error=True):
    """Evaluates the property statements on the observations.  Returns list of (signature, what)."""
    nodes = case["nodes"]
    problems = []
    if "nodup" in check:
        problems += oracle_nodup(case, obs)
        if problems:
            return problems
    edited = any(op["op"] in ("connect", "disconnect", "destroy", "drop") for op in case["ops"])
    orc = [oracle_graph.NodeOracle(nd, nd.get("ups", [])) for nd in nodes]
    dn = downs_of(nodes)
    slice_left = {i: (nd.get("end") if nd.get("end") else None) for i, nd in enumerate(nodes) if nd["kind"] == "slice"}
    sink_hold = {}           # tok -> tags held by an unfinished asynchronous consumer
    emit_reach = []          # per emit op: set of toks started during the op (transparent reach)
    emit_index = []
    failed_refs = set()
    ref_of_tag = {}
    for op in case["ops"]:
        if op["op"] == "emit":
            for e in op.get("md", []):
                ref_of_tag[e["tag"]] = e.get("ref")
    any_error = False
    tainted = set()          # nodes whose multi-output emission was aborted by an exception captured further up
    for k, (op, o) in enumerate(zip(case["ops"], obs)):
        log = o["log"]
        err = o["err"]
        if not err and op["op"] == "emit" and case["mode"] == "async":
            stat = (o.get("emits") or ["done"])[-1]
            if stat.startswith("raised"):
                err = stat
        if err:
            any_error = True
        for e in log:
            if e[0] == "plumbing-raised" and ("sem" in check or "edges" in check or "fail" in check):
                problems.append(("plumbing:emit-raised", "op %d %r: Stream._emit of node %d (%s) itself raised %s - no node's update() and no user function "
                                 "below it raised; the downstream branches not yet served lost the element and the emitter sees an error nobody caused"
                                 % (k, op, e[1], nodes[e[1]]["kind"], e[2])))
                return problems
        if err and "AssertionError" in err and "sem" in check:
            problems.append(("semantics:user-function-arguments", "op %d %r: %s - a node did not call its user function as func(x, *args, **kwargs) with the "
                             "extra arguments it was given" % (k, op, err)))
            return problems
        if err and "RecursionError" in err and "sem" in check:
            problems.append(("semantics:non-terminating", "op %d %r: the emission never terminated (RecursionError): an element keeps circulating "
                             "(a de-duplicating node on a feedback edge let a repeated element through)" % (k, op)))
            return problems
        # ---- per node semantics: feed arrivals, compare with the node's emissions (C01, C10, C16)
        if "sem" in check and not edited:
            # segment the flat log: for every node, arrivals and emissions in order
            exp_queue = {}      # node -> expected outputs not yet seen
            bad = None
            if op["op"] == "flush":
                flush_snapshot = list(orc[op["node"]].cache)
                exp_queue[op["node"]] = list(orc[op["node"]].feed(("flush",)))
            last_arrive = None
            stack = []          # nodes whose update() is in progress, outermost first (reconstructed from who -> node arrivals)
            for ei, e in enumerate(log):
                if e[0] == "arrive":
                    d, who, v, tags = e[1], e[2], graphlib.decanon(e[3]), e[4]
                    last_arrive = d
                    if not stack and who is not None:
                        stack = [who]
                    while stack and stack[-1] != who:
                        stack.pop()
                    stack.append(d)
                    if d in tainted:
                        continue
                    if exp_queue.get(d):
                        bad = ("node %d (%s) did not emit %r before its next arrival" % (d, nodes[d]["kind"], exp_queue[d][0]), d)
                        break
                    # is this the arrival whose own function fails?  then nothing must be emitted, state kept
                    try:
                        outs = orc[d].feed((who, v, tags))
                    except oracle_graph.OracleError as oe:
                        outs = []
                        any_error = True        # (also when a coroutine-style node captured it and no emit reported it: flush)
                        still_pending = case["mode"] == "async" and op["op"] == "emit" and (o.get("emits") or ["done"])[-1] == "pending"
                        if case["mode"] == "async" and op["op"] != "emit" and any(nd["kind"] == "partition" for nd in nodes):
                            # collect.flush() drops the awaitables of its emission: an exception captured by a
                            # coroutine-style node further down has no emitter to reach
                            still_pending = True
                        if still_pending:
                            # an exception captured by a coroutine-style node surfaces through the awaitable only
                            # when its other children are done; nothing to compare yet
                            err = err or "raised:" + oe.args[0]
                        if case["mode"] == "async" and any(nodes[j]["kind"] == "partition" for j in stack[:-1]):
                            # the frames between the failing node and the coroutine that captures the exception are aborted:
                            # whatever else those nodes were about to emit for this arrival is void
                            for j in reversed(stack[:-1]):
                                if exp_queue.get(j):
                                    # its emission loop was cut short: what it still holds is implementation-defined
                                    # (model and implementation are compared on it, the documented meaning says nothing)
                                    tainted.add(j)
                                exp_queue[j] = []
                                if nodes[j]["kind"] == "partition":
                                    break
                        elif not err or err != "raised:" + oe.args[0]:
                            bad = ("node %d (%s) function fails with %s on %r but emit reported %r" % (d, nodes[d]["kind"], oe.args[0], v, err), d)
                            break
                    exp_queue[d] = list(outs)
                elif e[0] == "emit":
                    n, v, tags = e[1], graphlib.decanon(e[2]), e[3]
                    if n in tainted:
                        continue
                    if nodes[n]["kind"] == "source" and not exp_queue.get(n):
                        continue      # top-level emit at a source (or emit_anywhere)
                    if op["op"] == "emit" and op["node"] == n and ei == 0:
                        continue
                    q = exp_queue.get(n)
                    if not q:
                        bad = ("node %d (%s) emitted %r which its inputs do not explain" % (n, nodes[n]["kind"], v), n)
                        break
                    want = q.pop(0)
                    if want[0] != v:
                        if "md" in check and list(tags) and list(want[1]) == list(tags):
                            problems.append(("metadata:" + nodes[n]["kind"],
                                             "op %d: node %d (%s) emitted %r carrying the metadata %r of a different output (%r)"
                                             % (k, n, nodes[n]["kind"], v, tags, want[0])))
                        bad = ("node %d (%s) emitted %r, its documented meaning gives %r" % (n, nodes[n]["kind"], v, want[0]), n)
                        break
                    if "md" in check and list(want[1]) != list(tags):
                        problems.append(("metadata:" + nodes[n]["kind"],
                                         "op %d: node %d (%s) emitted %r with metadata tags %r, contributing inputs carry %r"
                                         % (k, n, nodes[n]["kind"], v, tags, want[1])))
                if e[0] in ("arrive", "emit") and any(isinstance(t, str) and str(t).startswith("BADSHAPE") for t in e[-1]):
                    problems.append(("metadata-shape:" + nodes[e[1]]["kind"], "op %d: metadata is not a flat list of dicts at node %d: %r" % (k, e[1], e[-1])))
            if bad is None and not err:
                for d, q in exp_queue.items():
                    if q:
                        bad = ("node %d (%s) never emitted %r" % (d, nodes[d]["kind"], q[0]), d)
                        break
            if bad is not None:
                problems.append(("semantics:" + nodes[bad[1]]["kind"], "op %d %r: %s" % (k, op, bad[0])))
                return problems
        # ---- edges: every emission reaches every attached downstream, in attachment order (C01)
        if "edges" in check and not edited and not err:
            for ei, e in enumerate(log):
                if e[0] != "emit":
                    continue
                n = e[1]
                targets = []
                for d in dn[n]:
                    if d in slice_left and slice_left[d] is not None and slice_left[d] <= 0:
                        continue
                    targets.append(d)
                got = []
                # arrivals from n carrying this value, after this emit and before n's next emit
                for f in log[ei + 1:]:
                    if f[0] == "emit" and f[1] == n:
                        break
                    if f[0] == "arrive" and f[2] == n:
                        got.append(f[1])
                        if f[3] != e[2] or f[4] != e[3]:
                            problems.append(("edge-altered", "op %d: node %d emitted %r/%r but node %d received %r/%r" % (k, n, e[2], e[3], f[1], f[3], f[4])))
                for d in got:
                    if d in slice_left and slice_left[d] is not None:
                        slice_left[d] -= 1
                if got != targets:
                    problems.append(("edge-delivery", "op %d: node %d emitted %r; delivered to %r, attached downstreams in order are %r" % (k, n, e[2], got, targets)))
                    return problems
        # ---- async consumers
        prev_arrive = None
        for e in log:
            if e[0] == "arrive":
                prev_arrive = e
            elif e[0] == "start":
                sink_hold[e[2]] = prev_arrive[4] if prev_arrive is not None and prev_arrive[1] == e[1] else []
        if op["op"] in ("sinkdone", "sinkfail"):
            if op["op"] == "sinkfail":
                for t in sink_hold.get(op["tok"], []):
                    if ref_of_tag.get(t):
                        failed_refs.add(ref_of_tag[t])
            sink_hold.pop(op["tok"], None)
        if op["op"] == "emit":
            emit_index.append(k)
            emit_reach.append({e[2] for e in log if e[0] == "start"})
            if err:
                for e2 in op.get("md", []):
                    if e2.get("ref"):
                        failed_refs.add(e2["ref"])
        # ---- emit waits for every transparently reached consumer (C03 clause 1)
        if "emitwait" in check and case["mode"] == "async" and not any_error:
            for ix, reach in enumerate(emit_reach):
                stat = o["emits"][ix] if ix < len(o.get("emits", [])) else None
                if stat == "done" and any(t in sink_hold for t in reach):
                    problems.append(("emit-early", "op %d: the awaitable of emit #%d completed while consumer invocation(s) %r it reached were unfinished"
                                     % (k, ix, sorted(t for t in reach if t in sink_hold))))
                if stat == "pending" and not any(t in sink_hold for t in reach) and not collectless_pending(case, obs, k):
                    problems.append(("emit-stuck", "op %d: emit #%d still pending although every consumer it reached has finished" % (k, ix)))
        # ---- reference counts (C05) and early completion (C04)
        if ("refs" in check or "early" in check) and "counts" in o and not edited:
            held = {}
            for i2, oc in enumerate(orc):
                for tags in oc.held():
                    for t in tags:
                        r = ref_of_tag.get(t)
                        if r:
                            held[r] = held.get(r, 0) + 1
            for tok, tags in sink_hold.items():
                for t in tags:
                    r = ref_of_tag.get(t)
                    if r:
                        held[r] = held.get(r, 0) + 1
            fired_now = [e[1] for e in log if e[0] == "fire"]
            if "early" in check:
                for r in fired_now:
                    if held.get(r, 0) > 0 and r not in failed_refs:
                        problems.append(("early-callback", "op %d %r: completion callback of ref %d fired while %d holder(s) still have the element" % (k, op, r, held[r])))
                    if r in failed_refs:
                        problems.append(("failed-callback", "op %d %r: completion callback of ref %d fired although its processing raised" % (k, op, r)))
            if "refs" in check and not any_error:
                quiescent = not sink_hold       # no consumer invocation in flight
                for r, c in enumerate(o["counts"], 1):
                    if c < 0:
                        problems.append(("negative-count", "op %d: ref %d has count %d" % (k, r, c)))
                    if quiescent and c != held.get(r, 0):
                        problems.append(("count-mismatch", "op %d %r: ref %d has count %d but %d legitimate holder(s)" % (k, op, r, c, held.get(r, 0))))
                        return problems
        if problems:
            return problems
        if err and stop_on_error:
            if op["op"] == "flush" and "sem" in check and not edited and flush_recoverable(nodes, dn, op["node"]):
                # collect.flush() clears its caches only after the emission: a consumer raising during the flush leaves
                # both caches intact, and nothing between the collector and the consumer keeps half-updated state
                orc[op["node"]].cache = flush_snapshot
                continue
            return problems
    return problems


SAFE_BELOW_FLUSH = ("map", "starmap", "filter", "flatten", "pluck", "sink", "accumulate", "unique", "union")


def flush_recoverable(nodes, dn, c):
    todo, seen = list(dn[c]), set()
    while todo:
        x = todo.pop()
        if x in seen:
            continue
        seen.add(x)
        if nodes[x]["kind"] not in SAFE_BELOW_FLUSH:
            return False
        todo += dn[x]
    return True


LINEAR_KINDS = ("plain", "map", "starmap", "filter", "pluck", "unique", "accumulate", "slice", "flatten", "zip", "partition",
                "partition_unique", "union", "source", "zip_latest")


def oracle_nodup(case, obs):
    """No element is delivered twice by a node that hands every input on at most once (also after failures):
    such a node never emits a metadata tag more often than it received it (zip_latest: tags that reach it only
    through its lossless input; combine_latest / sliding_window legitimately repeat their inputs, not checked)."""
    nodes = case["nodes"]
    if any(op["op"] in ("connect", "disconnect", "destroy", "drop") for op in case["ops"]):
        return []
    arrived = {}        # (node, tag) -> number of arrivals carrying it
    other_ups = {}      # zip_latest: tags that (also) arrive through a non-lossless input
    emitted = {}
    first_up = {i: (nd.get("ups") or [None])[0] for i, nd in enumerate(nodes)}
    for op, o in zip(case["ops"], obs):
        for e in o["log"]:
            if e[0] == "arrive":
                n = e[1]
                if nodes[n]["kind"] == "zip_latest" and e[2] != first_up[n]:
                    other_ups.setdefault(n, set()).update(e[4])
                    continue
                for t in e[4]:
                    arrived[(n, t)] = arrived.get((n, t), 0) + 1
            elif e[0] == "emit" and nodes[e[1]]["kind"] in LINEAR_KINDS:
                n = e[1]
                if op["op"] == "emit" and op["node"] == n:
                    continue        # a top-level emission at this node
                counts = {}
                for t in e[3]:
                    counts[t] = counts.get(t, 0) + 1
                for t, c in counts.items():
                    if nodes[n]["kind"] == "zip_latest" and t in other_ups.get(n, ()):
                        continue
                    emitted[(n, t)] = emitted.get((n, t), 0) + c
                    if emitted[(n, t)] > arrived.get((n, t), 0):
                        return [("duplicated:" + nodes[n]["kind"],
                                 "node %d (%s) has emitted metadata tag %r %d time(s) but received it %d time(s): an element was delivered twice (last: %r)"
                                 % (n, nodes[n]["kind"], t, emitted[(n, t)], arrived.get((n, t), 0), e[2]))]
    return []


def collectless_pending(case, obs, k):
    return False


def is_nontrivial(case, obs):
    kinds = {n["kind"] for n in case["nodes"]}
    combining = kinds & {"partition", "partition_unique", "sliding_window", "zip", "combine_latest", "zip_latest", "collect", "unique", "filter", "slice", "accumulate", "flatten"}
    events = sum(len(o["log"]) for o in obs)
    return bool(combining) and events >= 8


def shrink(case, still_fails, budget=60):
    """Greedy delta-debugging of the op list (and trailing nodes are left alone)."""
    ops = list(case["ops"])
    changed = True
    n = 0
    while changed and n < budget:
        changed = False
        for i in range(len(ops) - 1, -1, -1):
            if n >= budget:
                break
            trial = dict(case, ops=ops[:i] + ops[i + 1:])
            n += 1
            try:
                if still_fails(trial):
                    ops = trial["ops"]
                    changed = True
            except Exception:  # noqa: BLE001
                pass
    return dict(case, ops=ops)


# ---------------------------------------------------------------- shared driver for the graph-family properties

def run_family(ctx, n_cases, aspects, checks, signatures, modes=("sync", "async"), fail_prob=0.0, malformed=0.0,
               p_weird=0.0, p_sinkfail=0.0, corpus=(), flavours=("future",), feedback_share=0.08, n_ops=(6, 16)):
    """Generate cases, run implementation and model, compare `aspects`, evaluate oracle `checks`;
    oracle problems whose signature prefix is in `signatures` are failures of ctx.prop."""
    rng = ctx.rng
    batch = []
    for c in corpus:
        c = copy.deepcopy(c)
        obs = rerun(c, flavour=c.get("flavour", "future"))
        batch.append((c, obs, c.get("flavour", "future")))

    def flush_batch():
        # chunked: keeps memory (and the cost of the per-case gc.collect()) bounded in the thorough tier
        lines, spans = [], []
        for case, _, _ in batch:
            ml = model_lines(case)
            spans.append((len(lines), len(lines) + len(ml)))
            lines += ml
        answers = common.lean_driver("Graph", lines) if lines else []
        for (case, obs, flavour), (a, b) in zip(batch, spans):
            evaluate(ctx, case, obs, answers[a:b], aspects, checks, signatures)
        del batch[:]

    for i in range(n_cases):
        mode = modes[i % len(modes)]
        flavour = flavours[i % len(flavours)] if mode == "async" else "future"
        pre = []
        if rng.random() < feedback_share and mode == "sync" and fail_prob == 0:
            nodes, pre = gen_graph.feedback_template(rng)
        else:
            nodes = gen_graph.gen_pipeline(rng, mode, fail_prob=fail_prob, malformed=malformed)
        normalise_literals(nodes)
        opts = {"p_weird": p_weird, "p_sinkfail": p_sinkfail}
        case, obs = run_adaptive(nodes, mode, rng, rng.randint(*n_ops), pre_ops=pre, opts=opts, flavour=flavour)
        case["flavour"] = flavour
        batch.append((case, obs, flavour))
        if len(batch) >= 500:
            flush_batch()
    flush_batch()


def evaluate(ctx, case, obs, answers, aspects, checks, signatures):
    for n in case["nodes"]:
        ctx.count("kind:" + n["kind"])
    ctx.count("mode:" + case["mode"])
    ctx.count("ops", len(case["ops"]))
    if any(o["err"] for o in obs):
        ctx.count("cases-with-exception")
    ctx.case({"mode": case["mode"], "nodes": case["nodes"], "ops": case["ops"]}, nontrivial=is_nontrivial(case, obs))
    if any((o.get("err") or "").startswith("invalid-op") for o in obs):
        ctx.count("recorded-schedule-not-applicable")       # see asynccheck.evaluate
        return
    probs = [p for p in oracle(case, obs, check=checks) if p[0].split(":")[0] in signatures]
    if probs:
        sig, what = probs[0]

        def still(trial):
            o2 = rerun(trial, flavour=case.get("flavour", "future"))
            if any((o.get("err") or "").startswith("invalid-op") for o in o2):
                return False
            return any(p[0] == sig for p in oracle(trial, o2, check=checks))
        small = shrink(case, still)
        ctx.failure(sig, what, small, oracle=sig)
    if answers is not None:
        diff = compare(case, obs, answers, aspects)
        if diff is not None:
            ctx.disagreement(diff, case)
        else:
            ctx.coverage["traces_validated_against_impl"] += 1


def replay_case(ctx, case, aspects, checks, signatures):
    obs = rerun(case, flavour=case.get("flavour", "future"))
    answers = common.lean_driver("Graph", model_lines(case))
    evaluate(ctx, case, obs, answers, aspects, checks, signatures)
