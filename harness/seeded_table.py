"""Prints the markdown table of /verif/seeded (DESIGN.md section 10) from the meta.json files."""
import glob
import json
import os

ROOT = os.path.dirname(os.path.dirname(os.path.abspath(__file__)))


def main():
    rows = []
    for f in sorted(glob.glob(os.path.join(ROOT, "seeded", "*", "meta.json"))):
        m = json.load(open(f))
        rows.append("| %s | %s | %s | %s | %s |" % (m["id"], m["breaks_property"], m["needs_to_manifest"].replace("|", "/"),
                                                   m["caught_by"].replace("|", "/"), m["how_caught"].replace("|", "/")))
    print("| change | property | needs, to manifest | caught by | how |")
    print("|---|---|---|---|---|")
    print("\n".join(rows))


if __name__ == "__main__":
    main()
