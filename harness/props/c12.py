"""C12 — aggregation state can be checkpointed and resumed without changing results.

Lean: Model/Resume.lean, Proofs/Resume.lean, Props/C12.lean (generic over ANY pure step function:
resume at any cut, resume from an emitted `(state, result)` tuple, several cuts, fallible steps; the
instantiations for the rolling / expanding / ewm / cumulative models of C11) and, when present,
Props/C12Agg.lean (C06 models: reductions, groupby) and Props/C12Window.lean (C07 models: windows,
windowed groupby).  The theorems are easy because the models are pure functions of the emitted state;
whether the REAL code is such a function is what this file checks.

How the state is exposed and seeded, family by family (streamz/dataframe/core.py):

  reduction   sdf[.x].sum/count/mean(start=)  and  .aggregate(Aggregation, start=)   NO with_state in the API
              -> the state after batch k is read from the accumulate node (`node.state`, the object that
                 `with_state=True` would have emitted next to the result); seeded with `start=`
  groupby     .groupby(g)[.x].mean(with_state=True, start=)      emits (state, result)
              .groupby(g)[.x].sum/count(start=)                  no with_state: node.state (== the result)
              .size() / .var(ddof) take neither: exercised through the private
              GroupBy._accumulate(Agg, with_state=True, start=, ddof=) and counted as `private-api`
  rolling     sdf.rolling(W | 'Ws', with_state=True, start=())   emits (carried rows, result)
  window-n/t  sdf.window(n= | value=, with_state=True, start=)   emits ({'dfs','state'}, result)
              .std() is `var() ** 0.5`, a map over the emitted element, which cannot digest the tuple:
              std runs without with_state and the state is read from the node
  wgroupby    sdf.window(...).groupby(g)[.x].agg()               emits ({'dfs','state','size-state'[,'groupers']}, result)
  expanding   sdf.expanding(with_state=True, start=)             as window
  ewm         sdf.ewm(com|alpha|span|halflife, with_state=True, start=).mean()   emits ({'dfs','state':(result, old_wt, is_first)}, result)

Every public method of Rolling / Window / Expanding / EWM / WindowedGroupBy that returns a new window-like object has
to carry with_state= and start= over, and each is exercised between `window(..., with_state=True, start=state)` and the
aggregation:  Rolling.__getitem__/__getattr__ (`sdf.rolling(W).x`), Window.__getitem__/__getattr__ (`w.x`, `w[['x','y']]`),
Window.map_partitions = every operator of OperatorMixin on a window (`w * 2`, `2 * w`, `w + 1`, `10 - w`, `-w`, `abs(w)`,
`w ** 2`, `w % 2`, `w / 2`, `w.x + w.y`, `w.x * w.y`, `w.x + sdf.y`, `w.x > 1`, `&`, `~`; chains of two), Window.index
(`w.index.size`, expanding only: diff_iloc/diff_loc cannot slice an Index), Window.reset_index (alone and after a transform),
Window.groupby -> WindowedGroupBy and WindowedGroupBy.__getitem__/__getattr__ (`w.groupby(g).x`), EWM.__getitem__.
Column selection happens on the frame (`sdf.x.window()`), on the window (`sdf.window().x * 2`) or after the transform
(`(sdf.window() * 2).x`).  Not usable on the unchanged tree and therefore not exercised: boolean-mask selection `w[w.x > 1]`
(InvalidIndexError), any operator / reset_index on an EWM object (EWM.__init__ is re-invoked without com/span/halflife/alpha:
ValueError when the pipeline is built — loud, nothing is dropped silently).

Correspondence / oracle.  For every case (a small table cut into batches, empty ones included):
  P0  the uninterrupted real pipeline, nobody touches its state: reference results R0 and states S0;
  P1  the same pipeline with state exposure; after every batch k the state object it EMITTED is kept
      (no copy) together with a canonical snapshot of its contents, and P1 itself goes on;
  P2k for EVERY cut k a fresh real pipeline built with `start=` that very object, fed batches k+1..;
      the pipelines are interleaved in one of four schedules (P1 first, then the P2s in order / in
      reverse; each P2 run to its end before P1 continues; all in lockstep) so that an in-place update
      by either side of the shared object is visible to the other;
  chain  one more run that is torn down and rebuilt from the last emitted state at a subset of the cuts.
Oracles (model-free; signatures carry the family):
  resume-mismatch:<fam>          P2k / chain result for batch j differs from R0[j]
  resume-state-mismatch:<fam>    state after batch j in a resumed pipeline differs from S0[j]
  uninterrupted-disturbed:<fam>  P1 (exposing state, its emitted states handed to others) differs from P0
  emitted-state-mutated:<fam>    an emitted state object no longer has the contents it had when emitted
  resume-raises:<fam>:<Exc>      building or feeding a resumed pipeline raised where P0 did not
  resume-mismatch-after-consumer-fault:<fam>
                                 (cases with "fault": j) a second consumer of the aggregation raises on delivery j after the list sink has
                                 stored it, the producer catches the exception and carries on — that run is then the uninterrupted run; a
                                 pipeline seeded with the state it emitted after batch j-1 or j must produce the same remaining results
  state-not-emitted:<fam>        with_state=True was requested but plain results are emitted
  window-transform-drops-state   any of the above in a case whose window object is transformed element-wise, when the same case with
                                 the untransformed window passes (Window.map_partitions / __getitem__ / index lost with_state or start)
  window-reset_index-drops-state any of the above in a case whose window goes through Window.reset_index(), when the same
                                 case without reset_index() passes (Window.reset_index rebuilt the window without with_state/start)
Comparison is exact (bit for bit, NaN == NaN) except var/std/ewm results: relative tolerance 1e-9.

Model comparison: for rolling, expanding sum/count/mean/var/std and NaN-free ewm the Lean definition
`Resume.resumeAt` (and `Resume.runWS` for the emitted tuples) is executed by Drivers/Resume.lean on the
same batches and cuts and compared with what the resumed real pipelines emitted.
"""
import json
import math
import os
import warnings
from collections import deque

from .. import common
from . import c11

FAMILIES = ["reduction", "groupby", "rolling", "window-n", "window-t", "wgroupby-n", "wgroupby-t", "expanding", "ewm"]
TOL_AGGS = {"var", "std", "ewm"}
TOL = 1e-9
FRESH = "<fresh>"
MODES = ["after", "after-reverse", "eager", "lockstep"]
EXAMPLE_TIME = 10 ** 6          # the non-empty example row lies after every generated row (monotonic index)


# ------------------------------------------------------------------ canonical forms

def num(v):
    import numpy as np
    if v is None:
        return None
    if isinstance(v, (bool, np.bool_)):
        return bool(v)
    try:
        f = float(v)
    except (TypeError, ValueError):
        return str(v)
    if math.isnan(f):
        return "nan"
    if math.isinf(f):
        return "inf" if f > 0 else "-inf"
    return f


def canon_index(ix):
    import pandas as pd
    if isinstance(ix, pd.DatetimeIndex):
        return ["t"] + [int(v) for v in ix.as_unit("ns").asi8.tolist()]
    if isinstance(ix, pd.MultiIndex):
        return ["m"] + [[num(x) for x in t] for t in ix.tolist()]
    return ["k"] + [num(v) for v in ix.tolist()]


def canon(o):
    """JSON-able canonical form of results and states (frames, series, scalars, tuples, dicts, deques)."""
    import numbers
    import numpy as np
    import pandas as pd
    if o is None or isinstance(o, str):
        return o
    if isinstance(o, (bool, np.bool_)):
        return bool(o)
    if isinstance(o, numbers.Number):
        return num(o)
    if isinstance(o, pd.DataFrame):
        return {"F": canon_index(o.index), "c": {str(c): [num(v) for v in o[c].tolist()] for c in o.columns}}
    if isinstance(o, pd.Series):
        return {"S": canon_index(o.index), "v": [num(v) for v in o.tolist()]}
    if isinstance(o, pd.Index):
        return {"I": canon_index(o)}
    if isinstance(o, np.ndarray):
        return {"A": [num(v) for v in o.tolist()]}
    if isinstance(o, dict):
        return {"D": {str(k): canon(v) for k, v in o.items()}}
    if isinstance(o, (tuple, list, deque)):
        return {"L": [canon(v) for v in o]}
    if isinstance(o, pd.Timestamp):
        return int(o.value)
    return repr(o)


def same(a, b, tol):
    if isinstance(a, float) and isinstance(b, float):
        if a == b:
            return True
        return tol > 0 and abs(a - b) <= tol * max(1.0, abs(a), abs(b))
    if type(a) is not type(b):
        return False
    if isinstance(a, dict):
        return a.keys() == b.keys() and all(same(a[k], b[k], tol) for k in a)
    if isinstance(a, list):
        return len(a) == len(b) and all(same(x, y, tol) for x, y in zip(a, b))
    return a == b


def short(x, n=260):
    s = json.dumps(x, default=str)
    return s if len(s) <= n else s[:n] + "..."


# ------------------------------------------------------------------ building the real pipelines

def build_frame(case):
    import pandas as pd
    idx = pd.to_datetime(case["times"], unit="s")
    return pd.DataFrame({c: [c11.fl(v) for v in case[c]] for c in ("x", "y", "g")}, index=idx, dtype="float64")


def example_of(case, df):
    import pandas as pd
    if case.get("example") == "row":
        return pd.DataFrame({"x": [1.0], "y": [2.0], "g": [1.0]}, index=pd.to_datetime([EXAMPLE_TIME], unit="s"), dtype="float64")
    return df.iloc[:0]


def supports_with_state(case):
    """does the public (or, for groupby size/var, private) entry point take with_state= for this aggregation?"""
    fam, agg = case["family"], case["agg"]
    if fam == "reduction":
        return False
    if fam == "groupby":
        return agg in ("mean", "size", "var")
    if fam in ("window-n", "window-t", "wgroupby-n", "wgroupby-t", "expanding"):
        return agg != "std"
    return True


def agg_object(case):
    from streamz.dataframe import aggregations as A
    agg = case["agg"]
    if agg == "sum":
        return A.Sum()
    if agg == "count":
        return A.Count()
    if agg == "mean":
        return A.Mean()
    if agg == "size":
        return A.Size()
    if agg == "var":
        return A.Var(ddof=case.get("ddof", 1))
    if agg == "value_counts":
        return A.ValueCounts()
    if agg == "full":
        return A.Full()
    raise ValueError(agg)


def grouper_of(case, sdf, window=None):
    k = case["grouper"]
    if k == "col":
        return "g"
    if k == "list":
        return ["g"]
    if k == "sdf":
        return sdf.g
    if k == "expr":
        return sdf.g % 2
    if k == "win":
        return window.g
    if k == "ndarr":
        return sdf.g.map_partitions(lambda s: s.values, sdf.g)      # a stream of plain numpy arrays, one array of keys per batch
    raise ValueError(k)


def window_call(w, case):
    agg = case["agg"]
    if agg in ("var", "std"):
        return getattr(w, agg)(ddof=case.get("ddof", 1))
    if agg == "size":
        return w.size
    return getattr(w, agg)()


# element-wise transforms applied to the WINDOW object (Window / Expanding are OperatorMixins: every operator goes
# through Window.map_partitions, which rebuilds the window and has to carry with_state= and start= over)
UNARY = {
    "mul2": lambda w: w * 2, "rmul2": lambda w: 2 * w, "add1": lambda w: w + 1, "rsub": lambda w: 10 - w,
    "neg": lambda w: -w, "abs": lambda w: abs(w), "pow2": lambda w: w ** 2, "mod2": lambda w: w % 2, "div2": lambda w: w / 2,
}
# transforms that also change the shape: two window operands, a window and a streaming column, comparisons,
# boolean algebra, a list of columns (Window.__getitem__), the index (Window.index)
TO_SERIES = {
    "x+y": lambda w, sdf: w.x + w.y, "x*y": lambda w, sdf: w.x * w.y, "x+sdf.y": lambda w, sdf: w.x + sdf.y,
    "gt1": lambda w, sdf: w.x > 1, "and": lambda w, sdf: (w.x > 1) & (w.y > 0), "not": lambda w, sdf: ~(w.x > 1),
    "index": lambda w, sdf: w.index,
}
BOOL_TRANSFORMS = ("gt1", "and", "not")
TO_FRAME = {"cols": lambda w, sdf: w[["x", "y"]], "colsg": lambda w, sdf: w[["x", "y", "g"]]}


def transform_of(case):
    return list(case.get("transform") or [])


def gives_series(case):
    return any(t in TO_SERIES for t in transform_of(case))


def apply_transform(w, sdf, case):
    for t in transform_of(case):
        if t in UNARY:
            w = UNARY[t](w)
        elif t in TO_SERIES:
            w = TO_SERIES[t](w, sdf)
        else:
            w = TO_FRAME[t](w, sdf)
    return w


def window_object(case, sdf, ws, kw):
    """the window-like object the aggregation (or groupby) is called on: window creation, column selection,
    element-wise transforms and reset_index in the order the case prescribes"""
    fam = case["family"]
    series = case["frame"] == "series"
    if fam == "expanding":
        make = lambda root: root.expanding(with_state=ws, **kw)
    else:
        # the window can be spelled with a keyword or positionally, a time window also as a Timedelta
        spell = case.get("spell", "kw")
        if fam in ("window-n", "wgroupby-n"):
            wargs, wkw = ((case["W"],), {}) if spell in ("pos", "td") else ((), {"n": case["W"]})
        else:
            import pandas as pd
            val = pd.Timedelta(seconds=case["W"]) if spell in ("td", "tdkw") else "%ds" % case["W"]
            wargs, wkw = ((val,), {}) if spell in ("pos", "td") else ((), {"value": val})
        make = lambda root: root.window(*wargs, with_state=ws, **wkw, **kw)
    tr = transform_of(case)
    reset = bool(case.get("reset_index"))
    if fam in ("wgroupby-n", "wgroupby-t"):
        w = apply_transform(make(sdf), sdf, case)
        return w.reset_index() if reset else w
    sel = case.get("select", "before")
    if gives_series(case):                       # the transform itself picks the column(s)
        return apply_transform(make(sdf), sdf, case)
    if not series:
        w = apply_transform(make(sdf), sdf, case)
        return w
    if reset:                                    # sdf.window(..) [transform] .reset_index().x
        return apply_transform(make(sdf), sdf, case).reset_index().x
    if sel == "before":                          # sdf.x.window(..) [transform]
        return apply_transform(make(sdf.x), sdf, case)
    if sel == "after" or not tr:                 # sdf.window(..).x [transform]        (Window.__getattr__)
        return apply_transform(make(sdf).x, sdf, case)
    return apply_transform(make(sdf), sdf, case).x          # "last": (transform(sdf.window(..))).x


def build(case, sdf, start, ws):
    """the aggregation node of `case` on the streaming frame `sdf`, seeded with `start` (FRESH: the API default)"""
    from streamz.dataframe import aggregations as A
    fam, agg = case["family"], case["agg"]
    series = case["frame"] == "series"
    root = sdf.x if series else sdf
    kw = {} if start is FRESH else {"start": start}
    if fam == "reduction":
        if case.get("via") == "method":
            return getattr(root, agg)(**kw)
        return root.aggregate(agg_object(case), **kw)
    if fam == "groupby":
        gb = sdf.groupby(grouper_of(case, sdf))
        if series:
            gb = gb.x
        if agg == "mean":
            return gb.mean(with_state=ws, **kw)
        if agg in ("sum", "count"):
            return getattr(gb, agg)(**kw)
        if agg == "size":
            return gb._accumulate(A.GroupbySize, with_state=ws, **kw)
        if agg == "var":
            return gb._accumulate(A.GroupbyVar, with_state=ws, ddof=case.get("ddof", 1), **kw)
        raise ValueError(agg)
    if fam == "rolling":
        w = case["W"] if case["win"] == "count" else "%ds" % case["W"]
        if start is FRESH and case.get("explicit_start"):
            kw = {"start": ()}
        if series and case.get("select") == "after":
            return c11.roll_call(sdf.rolling(w, with_state=ws, **kw).x, case)          # Rolling.__getattr__
        return c11.roll_call(root.rolling(w, with_state=ws, **kw), case)
    if fam in ("window-n", "window-t", "expanding"):
        return window_call(window_object(case, sdf, ws, kw), case)
    if fam in ("wgroupby-n", "wgroupby-t"):
        w = window_object(case, sdf, ws, kw)
        g = w.groupby(grouper_of(case, sdf, w))
        if series:
            g = g.x
        if agg in ("var", "std"):
            return getattr(g, agg)(ddof=case.get("ddof", 1))
        return getattr(g, agg)()
    if fam == "ewm":
        k, (n, d) = case["param"], case["pval"]
        if series and case.get("select") == "after":
            return sdf.ewm(with_state=ws, **{k: n / d}, **kw).x.mean()                  # EWM.__getitem__
        return root.ewm(with_state=ws, **{k: n / d}, **kw).mean()
    raise ValueError(fam)


class Pipe:
    """one real pipeline: a fresh source, the aggregation node, a list sink"""

    def __init__(self, case, df, start=FRESH, ws=False):
        from streamz.dataframe import DataFrame
        self.ws = ws
        self.ws_lost = False         # with_state=True was asked for but plain results are emitted
        self.sdf = DataFrame(example=example_of(case, df))
        node = build(case, self.sdf, start, ws)
        self.L = node.stream.sink_to_list()
        self.out = node.stream
        self.acc = c11.find_acc(node.stream)

    def feed(self, batch):
        """-> (state object after this batch, result object)"""
        n0 = len(self.L)
        self.sdf.emit(batch)
        if len(self.L) != n0 + 1:
            raise AssertionError("one emission per batch expected, got %d" % (len(self.L) - n0))
        e = self.L[-1]
        if self.ws:
            if isinstance(e, tuple) and len(e) == 2:
                return e[0], e[1]
            self.ws_lost = True      # fall back to the node's state so that the consequences can still be observed
        return self.acc.state, e


# ------------------------------------------------------------------ one case

class ConsumerRejects(Exception):
    pass


def tol_of(case):
    return TOL if (case["agg"] in TOL_AGGS or case["family"] == "ewm") else 0.0


def cuts_of(case):
    n = len(case["sizes"])
    return list(range(1, n))


def observe(case):
    """Run everything on the real code.  Returns a dict of observations; `p0_error` when the uninterrupted
    pipeline itself does not accept the input (outside the property)."""
    df = build_frame(case)
    batches = c11.cut(df, case["sizes"])
    n = len(batches)
    tol = tol_of(case)
    obs = {"problems": [], "R0": [], "S0": [], "resumed": {}, "n": n}

    # ---- P0: clean uninterrupted run
    try:
        p0 = Pipe(case, df, FRESH, ws=False)
        for b in batches:
            st, r = p0.feed(b)
            obs["R0"].append(canon(r))
            obs["S0"].append(canon(st))
    except Exception as e:
        obs["p0_error"] = "%s: %s" % (type(e).__name__, e)
        return obs
    R0, S0 = obs["R0"], obs["S0"]

    def problem(sig, what, **kw):
        obs["problems"].append(dict(sig=sig, what=what, **kw))

    fam = case["family"]
    ws1 = supports_with_state(case)
    ws2 = ws1 and case.get("p2_ws", True)
    mode = case.get("mode", "after")
    emitted = []       # (k, state object, snapshot)
    resumed = {}       # k -> dict(pipe, next batch index, results, states)

    def start_p2(k, state):
        try:
            resumed[k] = {"pipe": Pipe(case, df, state, ws=ws2), "j": k, "R": [], "S": []}
        except Exception as e:
            resumed[k] = None
            problem("resume-raises:%s:%s" % (fam, type(e).__name__),
                    "building a pipeline with start = the state emitted after batch %d raised %r" % (k, e), cut=k)

    def step_p2(k):
        p = resumed.get(k)
        if not p or p["j"] >= n:
            return
        j = p["j"]
        p["j"] += 1
        try:
            st, r = p["pipe"].feed(batches[j])
        except Exception as e:
            resumed[k] = None
            problem("resume-raises:%s:%s" % (fam, type(e).__name__),
                    "pipeline resumed after batch %d raised %r on batch %d" % (k, e, j + 1), cut=k)
            return
        cr, cs = canon(r), canon(st)
        p["R"].append(cr)
        p["S"].append(cs)
        if not same(cr, R0[j], tol):
            problem("resume-mismatch:" + fam,
                    "resumed from the state emitted after batch %d (schedule %s): result for batch %d is %s, uninterrupted %s"
                    % (k, mode, j + 1, short(cr), short(R0[j])), cut=k, batch=j + 1, expected=R0[j], observed=cr)
        elif not same(cs, S0[j], tol):
            problem("resume-state-mismatch:" + fam,
                    "resumed from the state emitted after batch %d: state after batch %d is %s, uninterrupted %s"
                    % (k, j + 1, short(cs), short(S0[j])), cut=k, batch=j + 1, expected=S0[j], observed=cs)

    def finish_p2(k):
        while resumed.get(k) and resumed[k]["j"] < n:
            step_p2(k)

    # ---- P1 with state exposure, resumed pipelines interleaved
    try:
        p1 = Pipe(case, df, FRESH, ws=ws1)
        for j, b in enumerate(batches):
            st, r = p1.feed(b)
            k = j + 1
            emitted.append((k, st, json.dumps(canon(st), sort_keys=True)))
            cr = canon(r)
            if not same(cr, R0[j], tol):
                problem("uninterrupted-disturbed:" + fam,
                        "pipeline exposing its state (schedule %s): result for batch %d is %s, undisturbed run %s"
                        % (mode, k, short(cr), short(R0[j])), batch=k, expected=R0[j], observed=cr)
            if p1.ws_lost and not any(q["sig"].startswith("state-not-emitted") for q in obs["problems"]):
                problem("state-not-emitted:" + fam,
                        "with_state=True was requested but batch %d was answered with a plain result %s instead of a (state, result) pair"
                        % (k, short(cr)), batch=k)
            if mode == "lockstep":
                order = sorted(resumed, reverse=case.get("new_first", False))
                for kk in order:
                    step_p2(kk)
            if mode in ("eager", "lockstep"):
                start_p2(k, st)
                if mode == "eager":
                    finish_p2(k)
    except Exception as e:
        problem("uninterrupted-disturbed:%s" % fam, "pipeline exposing its state raised %r (undisturbed run did not)" % (e,))
    if mode in ("after", "after-reverse"):
        order = emitted if mode == "after" else list(reversed(emitted))
        for k, st, _snap in order:
            start_p2(k, st)
            finish_p2(k)
    else:
        for k in sorted(resumed):
            finish_p2(k)

    # ---- chain: torn down and rebuilt from the last emitted state at the chosen cuts
    chain_cuts = set(case.get("chain", []))
    chain_R = []
    try:
        pc = Pipe(case, df, FRESH, ws=ws1)
        last = FRESH
        for j, b in enumerate(batches):
            if j in chain_cuts and last is not FRESH:
                pc = Pipe(case, df, last, ws=ws1)
            st, r = pc.feed(b)
            last = st
            cr = canon(r)
            chain_R.append(cr)
            if not same(cr, R0[j], tol):
                problem("resume-mismatch:" + fam,
                        "chain rebuilt from the emitted state before batches %s: result for batch %d is %s, uninterrupted %s"
                        % (sorted(c + 1 for c in chain_cuts), j + 1, short(cr), short(R0[j])), batch=j + 1, expected=R0[j], observed=cr)
                break
            if not same(canon(st), S0[j], tol):
                problem("resume-state-mismatch:" + fam,
                        "chain rebuilt before batches %s: state after batch %d is %s, uninterrupted %s"
                        % (sorted(c + 1 for c in chain_cuts), j + 1, short(canon(st)), short(S0[j])), batch=j + 1)
                break
    except Exception as e:
        problem("resume-raises:%s:%s" % (fam, type(e).__name__), "chain of resumed pipelines raised %r" % (e,))

    # ---- a consumer of the aggregation rejects one delivery (after another consumer has stored it) and the producer carries on:
    #      that run is then "the uninterrupted run", and a pipeline seeded with any state it emitted has to agree with it
    fj = case.get("fault")
    if fj is not None and 0 <= fj < n:
        try:
            pf = Pipe(case, df, FRESH, ws=ws1)
            seen = [0]

            def rejecting(e, _seen=seen):
                _seen[0] += 1
                if _seen[0] == fj + 1:
                    raise ConsumerRejects("delivery %d rejected" % (fj + 1))
            pf.out.sink(rejecting)
            FR, FS = [], []
            for j, b in enumerate(batches):
                try:
                    st, r = pf.feed(b)
                    if j == fj:
                        problem("consumer-fault-swallowed:" + fam, "a consumer of the aggregation raised on delivery %d and sdf.emit returned normally" % (j + 1))
                except ConsumerRejects:
                    if len(pf.L) != j + 1:
                        raise AssertionError("the list sink attached first must have stored delivery %d" % (j + 1))
                    e = pf.L[-1]
                    st, r = (e[0], e[1]) if (pf.ws and isinstance(e, tuple) and len(e) == 2) else (pf.acc.state, e)
                FR.append(canon(r))
                FS.append(st)
            for k in sorted({fj, fj + 1} & set(range(1, n))):
                p2 = Pipe(case, df, FS[k - 1], ws=ws2)
                for j in range(k, n):
                    _st, r = p2.feed(batches[j])
                    cr = canon(r)
                    if not same(cr, FR[j], tol):
                        problem("resume-mismatch-after-consumer-fault:" + fam,
                                "a consumer rejected delivery %d (the producer carried on); resumed from the state emitted after batch %d: result for batch %d "
                                "is %s, the uninterrupted run delivered %s" % (fj + 1, k, j + 1, short(cr), short(FR[j])),
                                cut=k, batch=j + 1, expected=FR[j], observed=cr)
                        break
        except Exception as e:
            problem("resume-raises:%s:%s" % (fam, type(e).__name__), "run with a consumer rejecting delivery %d raised %r" % (fj + 1, e))

    # ---- the emitted objects must still hold what they held when they were emitted
    for k, st, snap in emitted:
        now = json.dumps(canon(st), sort_keys=True)
        if now != snap:
            problem("emitted-state-mutated:" + fam,
                    "the state object emitted after batch %d was changed in place afterwards: emitted %s, now %s"
                    % (k, short(json.loads(snap)), short(json.loads(now))), cut=k)
            break

    obs["resumed"] = {k: (None if p is None else {"R": p["R"], "S": p["S"]}) for k, p in resumed.items()}
    obs["chain_R"] = chain_R
    obs["ws1"] = ws1
    return obs


# ------------------------------------------------------------------ model (Lean) side

def model_applicable(case):
    fam, agg = case["family"], case["agg"]
    if fam == "rolling":
        return True
    if fam == "expanding":
        return agg in ("sum", "count", "mean", "var", "std") and not transform_of(case)
    if fam == "ewm":
        return case["param"] != "halflife" and not any(v is None for c in c11.columns_of(case) for v in case[c])
    return False


def model_lines(case):
    """one block per column: reset, one `batch` per batch, one `resume` per cut"""
    if not model_applicable(case):
        return []
    lines = []
    fam = case["family"]
    for c in c11.columns_of(case):
        if fam == "rolling":
            agg = case["agg"]
            magg = {"std": "var", "aggregate": case.get("func")}.get(agg, agg)
            if magg == "var" and case.get("ddof", 1) != 1:
                magg = "var%d" % case["ddof"]
            hdr = {"op": "reset", "model": "rolling", "win": case["win"], "W": case["W"], "agg": magg}
            if agg == "quantile":
                hdr["q"] = case["q"]
        elif fam == "expanding":
            hdr = {"op": "reset", "model": "exp", "agg": "var" if case["agg"] == "std" else case["agg"], "ddof": case.get("ddof", 1)}
        else:
            hdr = {"op": "reset", "model": "ewm", "q": c11.ewm_q(case)}
        lines.append(hdr)
        for a, b in c11.spans(case["sizes"]):
            if fam == "rolling":
                lines.append({"op": "batch", "rows": c11.rows_json(case, c, a, b)})
            else:
                lines.append({"op": "batch", "vals": case[c][a:b]})
        for k in cuts_of(case):
            lines.append({"op": "resume", "cut": k})
    return lines


def result_column(case, cr, col):
    """the floats of column `col` in a canonical result (frame / series / scalar)"""
    def f(v):
        return float("nan") if v in ("nan", None) else float(v)
    if isinstance(cr, dict) and "F" in cr:
        return [f(v) for v in cr["c"][col]]
    if isinstance(cr, dict) and "S" in cr:
        if cr["S"][:1] == ["k"] and case["frame"] == "df":          # reduction over the columns of a frame
            names = cr["S"][1:]
            return [f(cr["v"][names.index(col)])]
        return [f(v) for v in cr["v"]]
    return [f(cr)]


def model_values(case, ans):
    """model answer for one batch -> list of floats comparable with result_column"""
    fam = case["family"]
    if fam == "rolling":
        return [c11.post(case, c11.rat(v)) for v in ans]
    if fam == "expanding":
        return [c11.post(case, c11.rat(ans))]
    return [] if ans is None else [c11.rat(ans)]


def mean_zero_count(case):
    """expanding mean of a single column with nothing counted after some batch: aggregations.Mean stores the
    substitute `counts = 1` at the pinned commit (defect of C06; the models are of the repaired behaviour)"""
    if not (case["family"] == "expanding" and case["agg"] == "mean" and case["frame"] == "series"):
        return False
    return any(all(v is None for v in case["x"][:b]) for _a, b in c11.spans(case["sizes"]))


def check_model(ctx, case, obs, answers):
    cols = c11.columns_of(case)
    if mean_zero_count(case):
        # compare only when the implementation is the repaired one (NaN while nothing has been counted)
        first = result_column(case, obs["R0"][0], "x")
        if not (len(first) == 1 and math.isnan(first[0])):
            ctx.count("model-skipped:mean-zero-count-substitute(C06)")
            return
    n = obs["n"]
    cuts = cuts_of(case)
    per = 1 + n + len(cuts)
    good = True
    for i, c in enumerate(cols):
        blk = answers[i * per:(i + 1) * per]
        for a in blk:
            if "bad-op" in a:
                ctx.disagreement("model answered %r" % (a,), case)
                return
        # uninterrupted: model `runWS` results vs P0
        for j in range(n):
            mv = model_values(case, blk[1 + j]["out"])
            iv = result_column(case, obs["R0"][j], c)
            if not c11.close_list(iv, mv):
                good = False
                ctx.disagreement("uninterrupted batch %d col %s: impl %r model %r" % (j + 1, c, iv, mv), case)
                break
        if not good:
            break
        # resumed: model `resumeAt` from the emitted state vs the real resumed pipeline
        for ci, k in enumerate(cuts):
            m = blk[1 + n + ci]
            p = obs["resumed"].get(k)
            if p is None:
                continue
            if not m.get("suffix_ok", False):
                good = False
                ctx.disagreement("model: resumeAt cut %d is not the suffix of the uninterrupted model run (theorem `resume` contradicted?)" % k, case)
                break
            for off, mo in enumerate(m["out"]):
                if off >= len(p["R"]):
                    break
                mv = model_values(case, mo)
                iv = result_column(case, p["R"][off], c)
                if not c11.close_list(iv, mv):
                    good = False
                    ctx.disagreement("resumed after batch %d, batch %d col %s: impl %r model %r" % (k, k + off + 1, c, iv, mv), case)
                    break
            if not good:
                break
        if not good:
            break
    if good:
        ctx.coverage["traces_validated_against_impl"] += 1


def check_case(ctx, case, answers=None):
    fam = case["family"]
    sizes = case["sizes"]
    ctx.count("family:" + fam)
    ctx.count("%s:%s" % (fam, case["agg"]))
    ctx.count("mode:" + case.get("mode", "after"))
    ctx.count("frame:" + case["frame"])
    ctx.count("example:" + case.get("example", "empty"))
    if case["frame"] == "series" and case["family"] in ("rolling", "window-n", "window-t", "expanding", "ewm"):
        ctx.count("column-selected:" + case.get("select", "before"))
    ctx.count("batches:%d" % len(sizes))
    if case.get("fault") is not None:
        ctx.count("consumer-rejects-one-delivery")
    if any(s == 0 for s in sizes):
        ctx.count("with-empty-batch")
    if sizes and sizes[0] == 0:
        ctx.count("empty-first-batch")
    if "grouper" in case:
        ctx.count("grouper:" + case["grouper"])
    if fam == "groupby" and case["agg"] in ("size", "var"):
        ctx.count("private-api")
    with warnings.catch_warnings():
        warnings.simplefilter("ignore")
        obs = observe(case)
    if "p0_error" in obs:
        ctx.count("outside:uninterrupted-raises:" + obs["p0_error"].split(":")[0])
        ctx.case(case, nontrivial=False)
        return obs
    ctx.count("state-exposed:" + ("with_state" if obs["ws1"] else "node.state"))
    ctx.count("cuts", len(cuts_of(case)))
    nontrivial = len(cuts_of(case)) >= 1 and sum(1 for s in sizes if s) >= 2
    ctx.case(case, nontrivial=nontrivial)
    if case.get("reset_index"):
        ctx.count("via-reset_index")
    for t in transform_of(case):
        ctx.count("window-transform:" + t)
    if transform_of(case):
        ctx.count("via-window-transform")
    if obs["problems"] and case.get("reset_index"):
        # does the very same case pass when the window is not taken through reset_index()?
        with warnings.catch_warnings():
            warnings.simplefilter("ignore")
            plain = observe(dict(case, reset_index=False, select="after"))
        if "p0_error" not in plain and not plain["problems"]:
            firsts, sigs = [], set()
            for p in obs["problems"]:
                if p["sig"] not in sigs:
                    sigs.add(p["sig"])
                    firsts.append(p)
            best = next((p for p in firsts if p["sig"].startswith("resume-mismatch")), firsts[0])
            obs["problems"] = [dict(best, sig="window-reset_index-drops-state",
                                    what="Window.reset_index() rebuilds the window without with_state= and start= (the same case without "
                                         "reset_index() passes): " + "; ".join(p["what"] for p in firsts[:3]))]
    if obs["problems"] and transform_of(case) and not any(p["sig"] == "window-reset_index-drops-state" for p in obs["problems"]):
        # does the same case pass when the window object is aggregated untransformed?
        with warnings.catch_warnings():
            warnings.simplefilter("ignore")
            plain = observe(fix_shape(None, dict(case, transform=[])))
        if "p0_error" not in plain and not plain["problems"]:
            firsts, sigs = [], set()
            for p in obs["problems"]:
                if p["sig"] not in sigs:
                    sigs.add(p["sig"])
                    firsts.append(p)
            best = next((p for p in firsts if p["sig"].startswith("resume-mismatch")), firsts[0])
            obs["problems"] = [dict(best, sig="window-transform-drops-state",
                                    what="an element-wise transform of the window object (%s; Window.map_partitions / __getitem__ / index rebuild the "
                                         "window) loses with_state= or start= (the same case with the untransformed window passes): "
                                         % "+".join(transform_of(case)) + "; ".join(p["what"] for p in firsts[:3]))]
    seen = set()
    for p in obs["problems"]:
        if p["sig"] in seen:
            continue
        seen.add(p["sig"])
        ctx.failure(p["sig"], p["what"], case, expected=p.get("expected"), observed=p.get("observed"),
                    oracle="results (and states) of a pipeline started from the state emitted after batch k == those of the uninterrupted run")
    if answers and not obs["problems"]:
        check_model(ctx, case, obs, answers)
    return obs


# ------------------------------------------------------------------ generators

REDUCTION_AGGS = [("sum", "method"), ("count", "method"), ("mean", "method"), ("sum", "agg"), ("mean", "agg"),
                  ("var", "agg"), ("size", "agg"), ("value_counts", "agg"), ("full", "agg")]
GROUPBY_AGGS = ["sum", "count", "mean", "mean", "size", "var"]
WINDOW_AGGS = ["sum", "count", "mean", "var", "std", "size", "value_counts", "full"]
WGROUPBY_AGGS = ["sum", "count", "mean", "var", "std", "size"]
EXP_AGGS = ["sum", "count", "mean", "var", "std", "size", "value_counts", "full"]
GROUPERS = ["col", "list", "sdf", "expr"]
KEYS = [1, 2, 3, 1, 2, None]


def gen_keys(rng, n):
    """group keys; a key tends to stop appearing (vanishing keys), sometimes NaN"""
    pool = rng.choice([[1, 2], [1, 2, 3], [1, 2, 3, None], [1]])
    out = []
    for i in range(n):
        if i and i % 3 == 0 and len(pool) > 1 and rng.random() < 0.5:
            pool = pool[1:]          # a key vanishes from the data from here on
        out.append(rng.choice(pool))
    return out


def gen_table(rng, n):
    t = c11.gen_table(rng, n)
    t["g"] = gen_keys(rng, n)
    return t


def params_for(rng, fam):
    p = {"family": fam}
    if fam == "reduction":
        p["agg"], p["via"] = rng.choice(REDUCTION_AGGS)
    elif fam == "groupby":
        p["agg"] = rng.choice(GROUPBY_AGGS)
        p["grouper"] = rng.choice(GROUPERS)
    elif fam == "rolling":
        p.update(c11.roll_params(rng))
        p["family"] = "rolling"
        p.pop("kind", None)
        p["explicit_start"] = rng.random() < 0.5
    elif fam in ("window-n", "window-t"):
        p["agg"] = rng.choice(WINDOW_AGGS)
        p["W"] = rng.choice([1, 2, 3, 4, 6]) if fam == "window-n" else rng.choice([1, 2, 3, 5])
    elif fam in ("wgroupby-n", "wgroupby-t"):
        p["agg"] = rng.choice(WGROUPBY_AGGS)
        p["W"] = rng.choice([1, 2, 3, 4, 6]) if fam == "wgroupby-n" else rng.choice([1, 2, 3, 5])
        p["grouper"] = rng.choice(GROUPERS + ["win", "ndarr"])
    elif fam == "expanding":
        p["agg"] = rng.choice(EXP_AGGS)
    elif fam == "ewm":
        p["agg"] = "ewm"
        k = rng.choice(["com", "com", "alpha", "span", "halflife"])
        v = {"com": [[0, 1], [1, 2], [1, 1], [2, 1], [3, 1]], "alpha": [[1, 2], [1, 4], [1, 1], [3, 4]],
             "span": [[1, 1], [2, 1], [3, 1], [5, 1]], "halflife": [[1, 1], [2, 1], [1, 2]]}[k]
        p["param"], p["pval"] = k, rng.choice(v)
    if p["agg"] in ("var", "std"):
        p["ddof"] = rng.choice([1, 1, 0])
    return p


def fix_shape(rng, case):
    """choices forced by what the code accepts at all (so that the uninterrupted run is inside the property)"""
    fam, agg = case["family"], case["agg"]
    tr = transform_of(case)
    if tr:
        if fam in ("wgroupby-n", "wgroupby-t"):
            tr = [t for t in tr if t in UNARY or t == "colsg"]
        elif fam not in ("window-n", "window-t", "expanding"):
            tr = []
        if any(t in TO_SERIES for t in tr):
            # the transform yields one column (possibly boolean, or the index): scalar aggregations only
            first = next(i for i, t in enumerate(tr) if t in TO_SERIES)
            tr = [t for t in tr[:first] if t in UNARY] + [tr[first]] + [t for t in tr[first + 1:] if t in UNARY and tr[first] not in BOOL_TRANSFORMS + ("index",)]
            case["frame"] = "series"
            case["reset_index"] = False
            if "index" in tr and fam != "expanding":
                # diff_iloc / diff_loc slice the retained batches with .iloc / .index, which an Index does not have
                tr = ["gt1" if t == "index" else t for t in tr]
            if "index" in tr:
                tr = ["index"]
                case["agg"] = agg = "size"              # Size is the aggregation whose initial/on_new accept an Index
            elif any(t in BOOL_TRANSFORMS for t in tr) and agg not in ("sum", "count", "mean", "size"):
                case["agg"] = agg = "sum"
        if "cols" in tr and fam.startswith("wgroupby"):
            tr = [t for t in tr if t != "cols"]
        if case.get("reset_index") and fam == "window-t":
            case["reset_index"] = False
        if any(t in TO_FRAME for t in tr) and not any(t in TO_SERIES for t in tr):
            case["select"] = "last"                     # a list of columns can only be taken from the frame window
        case["transform"] = tr
        if not tr:
            case.pop("transform")
    series_var = agg in ("var", "std") and fam in ("reduction", "window-n", "window-t", "expanding")
    if case.get("reset_index"):
        # after reset_index() the old index is a datetime column: select the value column, group by a column name
        case["frame"] = "series"
        if case.get("grouper") not in (None, "col", "list"):
            case["grouper"] = "col"
    if agg == "value_counts":
        case["frame"] = "series"            # only defined on a column
    # (a single column's var / std from an empty example and over an empty first batch is generated like everything else:
    # aggregations.Var used to raise ZeroDivisionError there, repaired in /repo 445f1a7)
    if fam == "ewm" and case["param"] != "halflife" and rng.random() < 0.8:
        for c in ("x", "y"):
            case[c] = [rng.choice(c11.VALUES[1:]) if v is None else v for v in case[c]]
    return case


def make_case(rng, fam, table=None, sizes=None):
    if table is None:
        n = rng.choice([1, 2, 3, 4, 5, 6, 7, 7, 9, 12])
        table = gen_table(rng, n)
    if sizes is None:
        sizes = c11.gen_sizes(rng, table)
    case = params_for(rng, fam)
    case.update(table)
    case["sizes"] = list(sizes)
    case["frame"] = "series" if rng.random() < 0.5 else "df"
    case["example"] = "row" if rng.random() < 0.3 else "empty"
    case["mode"] = rng.choice(MODES)
    case["new_first"] = rng.random() < 0.5
    case["p2_ws"] = rng.random() < 0.6
    case["select"] = "after" if rng.random() < 0.5 else "before"      # sdf.window(..).x.agg() vs sdf.x.window(..).agg()
    if fam in ("window-n", "window-t", "wgroupby-n", "wgroupby-t"):
        case["spell"] = rng.choice(["kw", "kw", "pos", "td", "tdkw"])
    if fam in ("window-n", "expanding", "wgroupby-n") and rng.random() < 0.25:
        case["reset_index"] = True
    if fam in ("window-n", "window-t", "expanding", "wgroupby-n", "wgroupby-t") and rng.random() < 0.5:
        pool = list(UNARY) * 2 + list(TO_SERIES) + list(TO_FRAME)
        case["transform"] = [rng.choice(pool) for _ in range(rng.choice([1, 1, 2]))]
        case["select"] = rng.choice(["before", "after", "last"])
    nb = len(sizes)
    r = rng.random()
    if r < 0.4:
        case["chain"] = list(range(1, nb))                 # rebuilt before every batch
    else:
        case["chain"] = [j for j in range(1, nb) if rng.random() < 0.5]
    if nb >= 2 and rng.random() < 0.3:
        case["fault"] = rng.randrange(nb - 1)                 # a consumer rejects this delivery (0-based); later batches exist
    return fix_shape(rng, case)


T7 = {"times": [0, 1, 1, 3, 4, 6, 6], "x": [1, 3, 2, 1, None, 1, 1], "y": [None, None, 1, 2, 3, None, 1], "g": [1, 2, 1, 3, 2, 2, 1]}
T7B = {"times": [5, 6, 7, 8, 9, 10, 11], "x": [2, None, 2, 0, None, 3, None], "y": [None, 1, None, 1, None, 1, None], "g": [3, 3, 1, None, 1, 2, 2]}


def corpus_case(fam, agg, sizes, table=T7, **kw):
    case = {"family": fam, "agg": agg}
    case.update(table)
    case.update({"sizes": sizes, "frame": "series", "example": "empty", "mode": "after", "new_first": False, "p2_ws": True,
                 "chain": list(range(1, len(sizes))), "select": "after" if len(sizes) % 2 else "before"})
    case.update(kw)
    return case


CORPUS = [
    # the shapes of test_*_with_start_state, at every cut and with empty batches
    corpus_case("reduction", "sum", [0, 2, 0, 3, 2], via="method"),
    # a consumer of the aggregation rejects one delivery, the producer carries on: emitted state == retained state
    corpus_case("groupby", "mean", [2, 1, 2, 2], grouper="col", fault=1),
    corpus_case("rolling", "sum", [2, 1, 2, 2], win="count", W=3, fault=1),
    corpus_case("window-n", "sum", [2, 1, 2, 2], W=4, fault=2),
    corpus_case("window-t", "mean", [2, 2, 3], W=3, fault=0),
    corpus_case("wgroupby-n", "sum", [2, 1, 2, 2], W=4, grouper="col", fault=1),
    corpus_case("expanding", "sum", [2, 1, 2, 2], fault=1),
    corpus_case("ewm", "ewm", [2, 1, 2, 2], param="com", pval=[1, 1], fault=1, table={**T7, "x": [1, 3, 2, 1, 4, 1, 1], "y": [2, 0, 1, 2, 3, 3, 1]}),
    corpus_case("reduction", "mean", [2, 1, 2, 2], via="method", fault=1),
    # positional spellings of the window: window('3s'), window(Timedelta), window(3)
    corpus_case("window-t", "sum", [2, 1, 2, 2], W=3, spell="pos"),
    corpus_case("window-t", "mean", [2, 2, 3], W=2, spell="td", frame="df", mode="lockstep"),
    corpus_case("wgroupby-t", "sum", [2, 1, 2, 2], W=3, grouper="col", spell="pos"),
    corpus_case("window-n", "sum", [2, 1, 2, 2], W=3, spell="pos", mode="eager"),
    corpus_case("window-t", "count", [2, 1, 2, 2], W=3, spell="tdkw"),
    corpus_case("reduction", "mean", [2, 0, 3, 2], via="method", frame="df"),
    corpus_case("reduction", "mean", [0, 0, 3, 4], via="method"),                       # zero-count state is resumed too
    corpus_case("reduction", "count", [1, 1, 1, 1, 1, 1, 1], via="method", mode="lockstep"),
    corpus_case("reduction", "var", [2, 3, 2], via="agg", ddof=1, example="row"),
    corpus_case("reduction", "value_counts", [3, 0, 2, 2], via="agg", mode="eager"),
    corpus_case("reduction", "full", [3, 0, 2, 2], via="agg", frame="df", mode="lockstep", new_first=True),
    corpus_case("groupby", "mean", [2, 0, 3, 2], grouper="col"),
    corpus_case("groupby", "mean", [2, 3, 0, 2], grouper="sdf", frame="df", mode="eager"),
    corpus_case("groupby", "sum", [1, 2, 2, 2], grouper="list", mode="lockstep"),
    corpus_case("groupby", "count", [0, 4, 3], grouper="expr", mode="after-reverse"),
    corpus_case("groupby", "var", [2, 3, 2], grouper="col", ddof=1),
    corpus_case("groupby", "size", [2, 3, 2], grouper="sdf", table=T7B),
    corpus_case("rolling", "sum", [3, 1, 0, 3], win="count", W=2, explicit_start=True),
    corpus_case("rolling", "mean", [1, 1, 1, 1, 1, 1, 1], win="count", W=4, frame="df", mode="lockstep"),
    corpus_case("rolling", "max", [0, 3, 0, 1, 3, 0], win="time", W=2, mode="eager"),
    corpus_case("rolling", "std", [2, 2, 3], win="time", W=3, frame="df", mode="after-reverse"),
    corpus_case("window-n", "sum", [3, 1, 0, 3], W=2),
    corpus_case("window-n", "mean", [1, 1, 1, 1, 1, 1, 1], W=3, mode="lockstep", new_first=True),
    corpus_case("window-n", "var", [2, 2, 3], W=4, frame="df", ddof=1, mode="eager"),
    corpus_case("window-n", "std", [2, 2, 3], W=4, frame="df", ddof=0),
    corpus_case("window-n", "value_counts", [2, 0, 2, 3], W=3, mode="lockstep"),
    corpus_case("window-n", "full", [2, 0, 2, 3], W=3, frame="df", mode="after-reverse"),
    corpus_case("window-n", "size", [2, 2, 2, 1], W=1),
    corpus_case("window-n", "sum", [2, 1, 0, 1, 3], W=3, reset_index=True),
    corpus_case("window-n", "mean", [2, 1, 1, 3], W=4, reset_index=True, mode="lockstep"),
    corpus_case("wgroupby-n", "sum", [2, 1, 0, 1, 3], W=3, grouper="col", reset_index=True, mode="eager"),
    corpus_case("expanding", "count", [2, 1, 0, 1, 3], reset_index=True, mode="after-reverse"),
    # element-wise transforms of the window object between window(..., start=) and the aggregation
    corpus_case("window-n", "sum", [3, 1, 2, 1], W=4, transform=["mul2"], select="last"),             # (sdf.window(n=4) * 2).x.sum()
    corpus_case("expanding", "sum", [3, 1, 2, 1], transform=["mul2"], select="last", mode="eager"),
    corpus_case("window-n", "mean", [2, 0, 2, 3], W=3, transform=["add1"], frame="df", mode="lockstep"),   # (w + 1).mean()
    corpus_case("window-t", "sum", [0, 3, 0, 1, 3], W=2, transform=["neg"], select="after", mode="after-reverse"),
    corpus_case("window-n", "sum", [2, 1, 1, 3], W=3, transform=["x+y"]),
    corpus_case("expanding", "mean", [2, 1, 1, 3], transform=["x+sdf.y"], mode="lockstep"),
    corpus_case("expanding", "count", [1, 2, 0, 4], transform=["gt1"], mode="eager"),
    corpus_case("window-n", "sum", [1, 2, 0, 4], W=2, transform=["and"]),
    corpus_case("window-t", "mean", [2, 2, 3], W=3, transform=["not"], mode="lockstep", new_first=True),
    corpus_case("expanding", "size", [2, 1, 1, 3], transform=["index"]),
    corpus_case("window-n", "var", [2, 2, 3], W=4, transform=["cols"], frame="df", ddof=1, mode="eager"),
    corpus_case("window-n", "sum", [2, 1, 0, 1, 3], W=3, transform=["cols", "mul2"], select="last"),
    corpus_case("window-n", "full", [2, 0, 2, 3], W=3, transform=["pow2"], select="before", mode="after-reverse"),
    corpus_case("window-n", "sum", [2, 1, 0, 1, 3], W=3, transform=["mul2"], reset_index=True, mode="lockstep"),
    corpus_case("expanding", "sum", [2, 1, 0, 1, 3], transform=["rsub", "div2"], reset_index=True),
    corpus_case("wgroupby-n", "sum", [3, 1, 2, 1], W=4, grouper="col", transform=["mul2"]),
    corpus_case("wgroupby-t", "mean", [2, 2, 3], W=3, grouper="sdf", transform=["abs", "add1"], mode="eager"),
    corpus_case("wgroupby-n", "count", [2, 1, 0, 1, 3], W=3, grouper="win", transform=["colsg", "mod2"], frame="df", mode="lockstep"),
    corpus_case("window-t", "sum", [0, 3, 0, 1, 3, 0], W=2),
    corpus_case("window-t", "count", [1, 1, 1, 1, 1, 1, 1], W=1, frame="df", mode="lockstep"),
    corpus_case("window-t", "mean", [2, 2, 3], W=3, mode="eager", table=T7B),
    corpus_case("wgroupby-n", "sum", [3, 3, 1], W=5, grouper="list"),
    corpus_case("wgroupby-n", "mean", [2, 0, 2, 3], W=3, grouper="sdf", mode="lockstep"),
    corpus_case("wgroupby-n", "count", [1, 1, 1, 1, 1, 1, 1], W=2, grouper="win", mode="eager"),
    corpus_case("wgroupby-n", "var", [2, 2, 3], W=4, grouper="expr", ddof=1, frame="df", mode="after-reverse"),
    corpus_case("wgroupby-n", "size", [2, 2, 3], W=2, grouper="col", table=T7B),
    corpus_case("wgroupby-t", "sum", [0, 3, 0, 1, 3, 0], W=2, grouper="col"),
    corpus_case("wgroupby-t", "mean", [2, 2, 3], W=1, grouper="sdf", mode="lockstep", new_first=True),
    corpus_case("wgroupby-t", "std", [2, 2, 3], W=3, grouper="win", ddof=1, mode="eager"),
    corpus_case("expanding", "sum", [0, 1, 0, 2, 4]),
    corpus_case("expanding", "mean", [0, 0, 3, 4], mode="lockstep"),
    corpus_case("expanding", "var", [2, 2, 3], frame="df", ddof=1, mode="eager"),
    corpus_case("expanding", "std", [2, 2, 3], frame="df", ddof=1),
    corpus_case("expanding", "full", [2, 0, 2, 3], mode="after-reverse"),
    corpus_case("ewm", "ewm", [0, 1, 2, 0, 4], param="com", pval=[1, 1], table={**T7, "x": [1, 3, 2, 1, 4, 1, 1], "y": [2, 0, 1, 2, 3, 3, 1]}),
    corpus_case("ewm", "ewm", [0, 0, 3, 4], param="alpha", pval=[1, 4], frame="df", mode="lockstep",
                table={**T7, "x": [1, 3, 2, 1, 4, 1, 1], "y": [2, 0, 1, 2, 3, 3, 1]}),
    corpus_case("ewm", "ewm", [2, 2, 3], param="halflife", pval=[2, 1], mode="eager"),
    corpus_case("ewm", "ewm", [1, 1, 1, 1, 1, 1, 1], param="span", pval=[3, 1], mode="after-reverse",
                table={**T7, "x": [1, 3, 2, 1, 4, 1, 1], "y": [2, 0, 1, 2, 3, 3, 1]}),
]


def grid_cases(ctx):
    """every (family, aggregation) pair on the two fixed tables, all cuts of a fixed composition, every schedule"""
    rng = ctx.rng
    cases = []
    combos = []
    for a, via in REDUCTION_AGGS:
        combos.append(("reduction", {"agg": a, "via": via}))
    for a in sorted(set(GROUPBY_AGGS)):
        for g in GROUPERS:
            combos.append(("groupby", {"agg": a, "grouper": g}))
    for a in c11.ROLL_AGGS:
        for win, W in (("count", 2), ("count", 3), ("time", 2)):
            p = {"agg": a, "win": win, "W": W}
            if a == "quantile":
                p["q"] = [1, 4]
            if a == "aggregate":
                p["func"] = "max"
            combos.append(("rolling", p))
    for fam in ("window-n", "window-t"):
        for a in WINDOW_AGGS:
            for W in (2, 3):
                combos.append((fam, {"agg": a, "W": W}))
    for fam in ("wgroupby-n", "wgroupby-t"):
        for a in WGROUPBY_AGGS:
            for g in GROUPERS + ["win"]:
                combos.append((fam, {"agg": a, "W": rng.choice([2, 3, 4]), "grouper": g}))
    for a in EXP_AGGS:
        combos.append(("expanding", {"agg": a}))
    for k, v in (("com", [1, 1]), ("alpha", [1, 4]), ("span", [3, 1]), ("halflife", [2, 1])):
        combos.append(("ewm", {"agg": "ewm", "param": k, "pval": v}))
    for t in list(UNARY) + list(TO_SERIES) + list(TO_FRAME):
        for fam in ("window-n" if len(combos) % 2 else "window-t", "expanding"):
            combos.append((fam, {"agg": rng.choice(["sum", "mean", "count"]), "W": rng.choice([2, 3, 4]), "transform": [t],
                                 "select": rng.choice(["before", "after", "last"]), "reset_index": False}))
    for t in UNARY:
        combos.append((rng.choice(["wgroupby-n", "wgroupby-t"]), {"agg": rng.choice(["sum", "mean", "size"]), "W": 3,
                                                                    "grouper": rng.choice(GROUPERS + ["win"]), "transform": [t], "reset_index": False}))
    comps = [[2, 0, 3, 2], [0, 3, 1, 0, 3], [1, 1, 1, 1, 1, 1, 1], [3, 4], [2, 2, 2, 1]]
    for i, (fam, p) in enumerate(combos):
        table = [T7, T7B][i % 2]
        case = make_case(rng, fam, table=dict(table), sizes=comps[i % len(comps)])
        if "transform" not in p:
            case.pop("transform", None)
            case["reset_index"] = False
        case.update(p)
        if case["agg"] in ("var", "std"):
            case.setdefault("ddof", 1)
        case["mode"] = MODES[i % len(MODES)]
        case["frame"] = "series" if (i // 2) % 2 == 0 else "df"
        cases.append(fix_shape(rng, case))
    return cases


def random_cases(ctx, count):
    rng = ctx.rng
    return [make_case(rng, FAMILIES[i % len(FAMILIES)]) for i in range(count)]


def extra_modules():
    mods = []
    for m in ("C12Agg", "C12Window", "C12Graph"):
        if os.path.exists(os.path.join(common.LEAN_DIR, "StreamzVerif", "Props", m + ".lean")):
            mods.append("StreamzVerif.Props." + m)
    return mods


def run_cases(ctx, cases):
    lines, sp = [], []
    for c in cases:
        ml = model_lines(c)
        sp.append((len(lines), len(lines) + len(ml)))
        lines += ml
    answers = common.lean_driver("Resume", lines) if lines else []
    for c, (a, b) in zip(cases, sp):
        check_case(ctx, c, answers[a:b])


ASSUMPTIONS = [
    "the state 'emitted after batch k' is the state component of the (state, result) tuple wherever the entry point takes with_state=; "
    "for the entry points that do not (reductions sum/count/mean/aggregate(start=), groupby sum/count, and std = var ** 0.5 which cannot "
    "map over the tuple) it is the accumulate node's `state` attribute after batch k — the very object with_state=True emits",
    "groupby size/var expose neither start= nor with_state=: they are exercised through the private GroupBy._accumulate(Agg, with_state=, start=, ddof=) "
    "(distribution key private-api); groupby std and the cumulative aggregations (start=() is hard-wired) cannot be seeded at all and are not exercised",
    "no copy is ever taken of an emitted state: the resumed pipeline and the first pipeline continue from the same Python object under four schedules; "
    "a canonical snapshot of every emitted state taken at emission time is compared with the object at the end of the case",
    "cells are small integers stored as float64 (NaN for missing); results are compared bit for bit except var/std/ewm (relative 1e-9)",
    "cases whose UNINTERRUPTED run raises are outside the property and only counted (distribution keys outside:...); the generators avoid the known one "
    "(aggregations.Var on a single column before the first row: python-int 0/0, see C06) by using a non-empty example / a frame there",
    "the non-empty example row is stamped after every generated row (accumulate_partitions runs one step `func(start, example)` to compute the output "
    "example; with a time index that step needs a monotonic index just like real data)",
    "the Mean zero-count substitute (C06) and the diff_loc cut (C07) change WHAT is computed but identically in the first and the resumed pipeline; "
    "C12 compares the two and is independent of both",
    "with_state=True does not compose with std() (= var() ** 0.5) and apply(): the map that follows the accumulate node receives the (state, result) tuple "
    "(std raises TypeError on the first batch, apply hands the tuple to the user function); that is a limitation of state exposure, not a resumption "
    "failure, and is not reported — std is checked with the state read from the node",
    "window-like objects: every method that returns a new Rolling/Window/Expanding/EWM/WindowedGroupBy (getitem/getattr, map_partitions through every "
    "operator, index, reset_index, groupby) is exercised between window(..., with_state=True, start=) and the aggregation; boolean-mask selection on a "
    "window and operators on an EWM object raise when the pipeline is built on the unchanged tree and are not exercised; Window.index only with expanding "
    "(diff_iloc/diff_loc cannot slice an Index) and only with size",
    "Lean comparison (Drivers/Resume.lean executing Resume.resumeAt / Resume.runWS on the C11 step functions) covers rolling, expanding sum/count/mean/var/std "
    "and NaN-free ewm with rational parameters; the other families are compared implementation against implementation only",
]


def run(ctx):
    ctx.audit(extra_modules=extra_modules())
    ctx.assumptions += ASSUMPTIONS
    cases = list(CORPUS) + grid_cases(ctx)
    # the corpus under the other schedules too (thorough: all four; quick: one more, rotating)
    for i, c in enumerate(CORPUS):
        others = [m for m in MODES if m != c["mode"]]
        for m in (others if ctx.thorough() else [others[i % len(others)]]):
            cases.append(dict(c, mode=m))
    cases += random_cases(ctx, 6300 if ctx.thorough() else 180)
    for i in range(0, len(cases), 2000):
        run_cases(ctx, cases[i:i + 2000])
    ctx.coverage["rule"] = (
        "corpus of boundary cases (every family; thorough: each under all four schedules, quick: under two); a grid with every (family, aggregation[, grouper kind / window kind]) "
        "pair on two fixed tables; seeded random tables (1..12 rows, NaN density 0-0.7, vanishing and NaN group keys, monotonic time index with duplicates "
        "and gaps) cut into batches with empty batches sprinkled in, round-robin over the 9 families; for the window / expanding / windowed-groupby families half of "
        "the cases transform the window object element-wise (1-2 operators out of 18, every one also in the grid) before aggregating, a quarter go through reset_index(). For every case: ALL cut points k = 1..n-1, one resumed "
        "pipeline per cut from the un-copied emitted state, plus a chain rebuilt at a random subset (40%: all) of the cuts. Non-trivial: at least one cut and "
        "two non-empty batches. Distinct = distinct case JSON.")


def replay(ctx, data):
    ctx.audit(extra_modules=extra_modules())
    case = data["case"]
    ml = model_lines(case)
    answers = common.lean_driver("Resume", ml) if ml else []
    check_case(ctx, case, answers)
    ctx.coverage["rule"] = "replay of one recorded case"
