"""C18 — source lifecycle: one polling loop at a time, nothing begun after stop.

Lean: Model/Source.lean (poll-loop LTS and from_iterable LTS, FIXED start() and the
ORIGINAL start() side by side), Proofs/Source.lean, Props/C18.lean.

Correspondence (this file) is *trace acceptance*: the real source (from_periodic,
from_textfile, filenames, from_iterable) runs on the virtual-time loop under a
generated history of start()/stop() calls placed at every suspension point of the
polling loop (before it has begun, during its sleep, during a back-pressured emit
-- the sink returns a Future the harness resolves later --, between the completion
of an emit and the resumption of the loop, between items).  Instrumentation only
uses override points of the public Source API (instance attributes `run` / `_run`,
the iterable / callback / file object handed to the source, a recording downstream
node); a contextvar identifies the run() invocation (each is its own asyncio Task).
The observed event log is cut into model actions `start | stop | resume i` and the
Lean driver replays them: the events it produces for every action, the `stopped`
flag and (when the tree has it) the `_run_live` flag must equal the observed ones,
and at the end no model loop may be left over.

Model-free oracle on the observed log (property statement only):
  * never two run() invocations in progress, never two overlapping polling cycles,
    from_periodic cycles at least one poll interval apart, from_iterable emissions
    a concatenation of prefixes of the iterable                  -> `two-polling-loops`
    (`cycle-overlap` / `poll-rate` / `emission-order` when no second invocation was seen);
  * no cycle (from_iterable: no emission) begins while the last control call is
    stop()                                                        -> `cycle-after-stop`;
  * a started source polls: a cycle begins after start()          -> `no-loop-after-start`;
  * start() on a started source, stop() on a stopped one change nothing:
    re-run without the redundant calls gives the same log         -> `redundant-call-not-identity`;
  * from_iterable takes the next item only when every emit-awaitable handed out is
    done                                                          -> `take-before-downstream-done`;
    a polling source begins its next cycle only then             -> `poll-before-downstream-done`
    (the source-side half of C03's backpressure clause; `./check C03` runs this family too);
    a run that exhausts the iterable undisturbed emitted exactly its items -> `iterable-not-exact`.
"""
import asyncio
import contextvars
import os
import shutil
import tempfile

from tornado.ioloop import IOLoop

from .. import common, vloop

POLL = 1.0
EPS = 1e-9
KINDS = ["periodic", "iterable", "textfile", "filenames", "q", "periodic-tornado"]

_run_id = contextvars.ContextVar("c18_run_id", default=None)


# ------------------------------------------------------------------ implementation runner

class _RecIter:
    def __init__(self, owner):
        self.owner = owner
        self.pos = 0

    def __iter__(self):
        return self

    def __next__(self):
        o = self.owner
        if self.pos >= len(o.items):
            o.rec("exhausted")
            raise StopIteration
        x = o.items[self.pos]
        self.pos += 1
        o.rec("take", x=x)
        return x


class _RecIterable:
    """Re-iterable (list-like: every iter() restarts) or shared (iterator-like: one cursor)."""

    def __init__(self, items, shared, rec):
        self.items, self.shared, self.rec = list(items), shared, rec
        self._it = _RecIter(self) if shared else None

    def __iter__(self):
        return self._it if self.shared else _RecIter(self)


class _FakeFile:
    """File-like object for from_textfile: an append-only text with a read position (read() returns what lies behind it)."""

    def __init__(self):
        self.data = ""
        self.pos = 0

    def read(self):
        r = self.data[self.pos:]
        self.pos = len(self.data)
        return r

    def seek(self, off, whence=0):
        self.pos = (len(self.data) if whence == 2 else self.pos if whence == 1 else 0) + off
        return self.pos

    def tell(self):
        return self.pos

    def close(self):
        pass


def run_impl(case, scratch):
    """Run the real source under the history case["ops"] (+ an implicit wind-down).

    Returns the chronological event log, a list of dicts with keys
      e: call|run-begin|run-exit|cycle-begin|cycle-end|take|exhausted|emit|done
      l: run() invocation number (instrumentation events), o/before: (call events),
      x: item, t: virtual time, st: src.stopped after the event, rl: src._run_live or None
    """
    from streamz import Stream
    kind = case["kind"]
    log = []
    futures = []          # emit-awaitables handed out by the sink, not yet resolved
    nruns = [0]
    state = {}

    def rec(e, **kw):
        src = state.get("src")
        kw.update(e=e, t=state["loop"].time(), st=bool(src.stopped) if src is not None else None,
                  rl=getattr(src, "_run_live", None))
        if e != "call" and e != "done":
            kw["l"] = _run_id.get()
        log.append(kw)

    class Rec(Stream):
        def update(self, x, who=None, metadata=None):
            rec("emit", x=x)
            if case["sink"] == "future":
                f = asyncio.get_event_loop().create_future()
                futures.append(f)
                return f
            return None

    def active():
        a = set()
        for ev in log:
            if ev["e"] == "run-begin":
                a.add(ev["l"])
            elif ev["e"] == "run-exit":
                a.discard(ev["l"])
        return a

    async def main(loop):
        state["loop"] = loop
        kw = dict(asynchronous=True, loop=IOLoop.current())
        counter = [0]
        fobj = d = None
        if kind in ("periodic", "periodic-tornado"):
            def cb():
                counter[0] += 1
                return counter[0] - 1
            if kind == "periodic-tornado":
                # a plugin-style source: the same polling loop written as a tornado coroutine - run() returns a Future, not a coroutine
                import streamz.sources as ssrc
                from tornado import gen

                class TornadoPeriodic(ssrc.from_periodic):
                    @gen.coroutine
                    def run(self):
                        while not self.stopped:
                            yield self._run()
                src = TornadoPeriodic(cb, POLL, **kw)
            else:
                src = Stream.from_periodic(cb, POLL, **kw)
        elif kind == "iterable":
            src = Stream.from_iterable(_RecIterable(case["items"], case["shared"], rec), **kw)
        elif kind == "textfile":
            fobj = _FakeFile()
            # from_end=True seeks to the end once, when the source is built (the file is still empty then: nothing is skipped)
            src = Stream.from_textfile(fobj, poll_interval=POLL, from_end=bool(case.get("from_end")), **kw)
        elif kind == "filenames":
            d = os.path.join(scratch, "dir")
            os.makedirs(d)
            src = Stream.filenames(d, poll_interval=POLL, **kw)
        elif kind == "q":
            import queue
            import streamz.sources as ssrc
            fobj = queue.Queue()
            src = ssrc.from_q(fobj, sleep_time=POLL, **kw)
        else:
            raise ValueError(kind)
        state["src"] = src
        state["sink"] = Rec(src)          # downstreams are weak references: keep it alive

        orig_run = src.run

        async def run_wrapper():
            l = nruns[0]
            nruns[0] += 1
            _run_id.set(l)
            rec("run-begin")
            try:
                r = orig_run()
                if asyncio.iscoroutine(r) or isinstance(r, asyncio.Future):
                    r = await r
                return r
            finally:
                rec("run-exit")
        if kind == "periodic-tornado":
            # keep what the kind is about: run() hands back a Future (a Task), not a coroutine object
            src.run = lambda: asyncio.ensure_future(run_wrapper())
        else:
            src.run = run_wrapper

        if kind != "iterable":
            orig_cycle = src._run

            def cycle_wrapper():
                # the cycle begins when run() CALLS _run() (a tornado-style run() only schedules the coroutine it yields: its body
                # starts one loop iteration later, but the decision to poll again has been taken here)
                rec("cycle-begin")

                async def body():
                    try:
                        return await orig_cycle()
                    finally:
                        rec("cycle-end")
                return body()
            src._run = cycle_wrapper

        nw = [0]

        def call(o):
            before = bool(src.stopped)
            getattr(src, o)()
            rec("call", o=o, before=before)

        for op in case["ops"]:
            o = op[0]
            if o in ("start", "stop"):
                call(o)
            elif o == "adv":
                await vloop.advance(op[1], loop)
            elif o == "tick":
                await asyncio.sleep(0)
            elif o == "settle":
                await vloop.settle(loop)
            elif o == "resolve":
                if futures:
                    f = futures.pop(0)
                    rec("done")
                    f.set_result(None)
            elif o == "w":
                if kind == "textfile":
                    fobj.data += "L%d\n" % nw[0]
                elif kind == "filenames":
                    open(os.path.join(d, "f%03d" % nw[0]), "w").close()
                elif kind == "q":
                    fobj.put("Q%d" % nw[0])
                nw[0] += 1
            else:
                raise ValueError(op)
        # wind-down (part of the history): stop, release every emit, let the loop(s) notice
        call("stop")
        for _ in range(60):
            while futures:
                rec("done")
                futures.pop(0).set_result(None)
            await vloop.advance(POLL, loop)
            if not futures and not active():
                break
        await vloop.advance(3 * POLL, loop)       # anything still polling shows up here
        rec("end")
        return log

    return vloop.run(main, step_mode=bool(case.get("step")))


# ------------------------------------------------------------------ model-free oracle

def written_items(case):
    n = sum(1 for op in case["ops"] if op[0] == "w")
    if case["kind"] == "textfile":
        return ["L%d\n" % i for i in range(n)]
    if case["kind"] == "q":
        return ["Q%d" % i for i in range(n)]
    return ["f%03d" % i for i in range(n)]


def oracle(case, log):
    """Evaluate the property statement on the observed log.  Returns (signature, message) or None."""
    kind = case["kind"]
    active, in_cycle = set(), set()
    last_ctl = None
    last_cycle_t = None
    pending = 0
    want = None                  # time of an effective start() not yet followed by any polling
    items = case.get("items") or []
    k = 0                        # from_iterable: length of the current run's emitted prefix
    fresh = False                # a run began since the last emission
    last_idx = -1                # shared iterator: index of the last emitted item
    run_info = {}                # l -> dict(disturbed, emitted)
    seen_w = written_items(case) if kind in ("textfile", "filenames", "q") else None
    cycle_emits = {}             # from_q: emissions of the cycle in progress, per run() invocation
    n_emit = 0

    for i, ev in enumerate(log):
        e = ev["e"]
        if want is not None and pending == 0 and ev["t"] - want > 2 * POLL and e not in ("cycle-begin", "take", "exhausted"):
            return ("no-loop-after-start",
                    "start() at t=%s took effect, downstream is idle, yet nothing was polled by t=%s (event %d)" % (want, ev["t"], i))
        if e == "call":
            last_ctl = ev["o"]
            if ev["o"] == "start" and ev["before"]:
                want = ev["t"]
            if ev["o"] == "stop":
                want = None
                for r in run_info.values():
                    r["disturbed"] = True
        elif e == "run-begin":
            active.add(ev["l"])
            run_info[ev["l"]] = {"disturbed": last_ctl != "start", "emitted": [], "takes": 0}
            if len(active) > 1:
                return ("two-polling-loops",
                        "run() invocation #%s begins at t=%s while invocation(s) %s are still in progress (event %d)"
                        % (ev["l"], ev["t"], sorted(active - {ev["l"]}), i))
            fresh = True
        elif e == "run-exit":
            active.discard(ev["l"])
            in_cycle.discard(ev["l"])
        elif e == "cycle-begin":
            want = None
            if in_cycle:
                return ("cycle-overlap", "polling cycle begins at t=%s while another is in progress (event %d)" % (ev["t"], i))
            in_cycle.add(ev["l"])
            cycle_emits[ev["l"]] = 0
            if pending:
                return ("poll-before-downstream-done",
                        "polling cycle begins at t=%s while %d emit-awaitable(s) handed out by an earlier cycle are still pending: the source "
                        "reads on without waiting for its consumers (event %d)" % (ev["t"], pending, i))
            if last_ctl != "start":
                return ("cycle-after-stop", "polling cycle begins at t=%s although the last control call is %s (event %d)"
                        % (ev["t"], last_ctl, i))
            if kind in ("periodic", "periodic-tornado", "filenames") and last_cycle_t is not None and ev["t"] - last_cycle_t < POLL - EPS:
                return ("poll-rate", "polling cycles begin at t=%s and t=%s, less than poll_interval=%s apart (event %d)"
                        % (last_cycle_t, ev["t"], POLL, i))
            last_cycle_t = ev["t"]
        elif e == "cycle-end":
            in_cycle.discard(ev["l"])
        elif e == "take":
            want = None
            if pending:
                return ("take-before-downstream-done",
                        "item %r taken from the iterable while %d emit-awaitable(s) are pending (event %d)" % (ev["x"], pending, i))
            r = run_info.get(ev["l"])
            if r is not None:
                r["takes"] += 1
                # (`for x in iterable: if self.stopped: break` pulls one item when run() begins stopped; later never)
                if last_ctl != "start" and r["takes"] > 1:
                    return ("cycle-after-stop", "item %r taken from the iterable although the last control call is %s (event %d)"
                            % (ev["x"], last_ctl, i))
        elif e == "exhausted":
            want = None
            r = run_info.get(ev["l"])
            if r is not None and not r["disturbed"] and not case.get("shared") and r["emitted"] != items:
                return ("iterable-not-exact", "undisturbed run exhausted the iterable %r having emitted %r (event %d)"
                        % (items, r["emitted"], i))
        elif e == "done":
            pending -= 1
            if want is not None:
                want = ev["t"]         # the loop may have been blocked by downstream until now
        elif e == "emit":
            n_emit += 1
            if case["sink"] == "future":
                pending += 1
                want = None
            x = ev["x"]
            if kind == "iterable":
                if last_ctl != "start":
                    return ("cycle-after-stop", "item %r emitted although the last control call is %s (event %d)" % (x, last_ctl, i))
                if ev["l"] in run_info:
                    run_info[ev["l"]]["emitted"].append(x)
                if case["shared"]:
                    idx = items.index(x)
                    if idx <= last_idx:
                        return ("emission-order", "item %r emitted after item %r (event %d)" % (x, items[last_idx], i))
                    last_idx = idx
                else:
                    if fresh:
                        k, fresh = 0, False
                    if k >= len(items) or x != items[k]:
                        return ("emission-order",
                                "item %r emitted where the current run should emit %r: the emission log is not a "
                                "concatenation of prefixes of the iterable (event %d)" % (x, items[k] if k < len(items) else None, i))
                    k += 1
            elif kind in ("periodic", "periodic-tornado"):
                if x != n_emit - 1:
                    return ("emission-order", "from_periodic emitted %r as its %d-th value" % (x, n_emit))
            else:
                if kind == "q":
                    # one cycle of from_q takes ONE item off the queue: a further item taken in the same cycle after stop() is a
                    # new take after stop (the cycle in progress may finish, nothing new begins)
                    cycle_emits[ev["l"]] = cycle_emits.get(ev["l"], 0) + 1
                    if last_ctl != "start" and cycle_emits[ev["l"]] > 1:
                        return ("cycle-after-stop", "from_q took %r off the queue and emitted it although the last control call is %s "
                                "(the %d-th item of one polling cycle; event %d)" % (x, last_ctl, cycle_emits[ev["l"]], i))
                name = x if kind in ("textfile", "q") else os.path.basename(x)
                if n_emit > len(seen_w) or name != seen_w[n_emit - 1]:
                    return ("emission-order", "%s emitted %r as its %d-th record, written were %r" % (kind, x, n_emit, seen_w))
    if active:
        return ("loop-survives-stop", "run() invocation(s) %s still in progress long after the final stop()" % sorted(active))
    return None


def strip_redundant(case, log):
    """The history without the calls that the property says have no effect."""
    calls = [ev for ev in log if ev["e"] == "call"]
    ops, j, removed = [], 0, 0
    for op in case["ops"]:
        if op[0] in ("start", "stop"):
            ev = calls[j]
            j += 1
            if (op[0] == "start") != ev["before"]:      # start on started / stop on stopped
                removed += 1
                continue
        ops.append(op)
    c = dict(case)
    c["ops"] = ops
    return c, removed


def visible(log):
    """What an observer of the source sees, calls aside."""
    def norm(x):
        return os.path.basename(x) if isinstance(x, str) and os.sep in x else x
    return [(ev["e"], norm(ev.get("x")), ev["t"]) for ev in log if ev["e"] in ("cycle-begin", "emit", "take", "exhausted")]


# ------------------------------------------------------------------ translation to model actions

def to_actions(case, log):
    """Cut the observed log into model actions.  Returns [(line, expect)] where expect =
    dict(ev=[...], st=stopped, rl=_run_live or None)."""
    kind = case["kind"]
    live = []                 # invocation ids begun and not exited, in order of creation
    acts = []
    cur = {}                  # l -> events of the burst in progress
    for ev in log:
        e = ev["e"]
        if e == "call":
            acts.append(({"op": ev["o"]}, {"ev": [], "st": ev["st"], "rl": ev["rl"]}))
            continue
        if e == "done":
            continue
        if e == "end":
            acts.append((None, {"ev": [], "st": ev["st"], "rl": ev["rl"]}))
            continue
        if kind != "iterable" and e == "emit":
            continue
        l = ev["l"]
        if e == "run-begin":
            live.append(l)
        name = {"take": "take:%s" % ev.get("x"), "emit": "emit:%s" % ev.get("x")}.get(e, e)
        cur.setdefault(l, []).append(name)
        closes = (e in ("emit", "run-exit")) if kind == "iterable" else (e in ("cycle-begin", "run-exit"))
        if closes:
            idx = live.index(l)
            # (at run-exit the instrumentation fires before Source clears `_run_live`: not sampled there)
            acts.append(({"op": "resume", "i": idx},
                         {"ev": cur.pop(l), "st": ev["st"], "rl": None if e == "run-exit" else ev["rl"]}))
            if e == "run-exit":
                live.remove(l)
    for l, evs in cur.items():      # a burst that never closed (cannot happen when loops end)
        acts.append(({"op": "resume", "i": live.index(l)}, {"ev": evs + ["?unfinished"], "st": None, "rl": None}))
    return acts


def model_lines(case, acts, fixed):
    if case["kind"] == "iterable":
        head = {"op": "reset", "kind": "iter", "fixed": fixed, "items": case["items"], "shared": case["shared"]}
    else:
        head = {"op": "reset", "kind": "poll", "fixed": fixed}
    return [head] + [a for a, _ in acts if a is not None]


def compare(acts, answers, check_rl):
    """None when the model accepts the observed trace, else a description."""
    if answers[0].get("ok") is not True:
        return "model refused the header: %r" % (answers[0],)
    last = None
    it = iter(answers[1:])
    for n, (line, exp) in enumerate(acts):
        if line is None:          # final sample: compare the flags with the model's last state
            ans = dict(last or {"stopped": True, "runLive": False, "live": 0}, ev=[])
        else:
            ans = next(it)
        if "ev" not in ans:
            return "action %d %r: model answered %r (observed %r)" % (n, line, ans, exp["ev"])
        mev = []
        for s in ans["ev"]:
            if s == "done":
                continue
            mev.append(s)
            if s == "exhausted":
                mev.append("run-exit")
        if mev != exp["ev"]:
            return "action %d %r: model events %r, observed %r" % (n, line, mev, exp["ev"])
        if exp["st"] is not None and ans["stopped"] != exp["st"]:
            return "action %d %r: model stopped=%r, observed %r" % (n, line, ans["stopped"], exp["st"])
        if check_rl and exp["rl"] is not None and ans["runLive"] != exp["rl"]:
            return "action %d %r: model _run_live=%r, observed %r" % (n, line, ans["runLive"], exp["rl"])
        last = ans
    if last is not None and last["live"] != 0:
        return "model is left with %d live loop(s) the implementation never ran" % last["live"]
    return None


# ------------------------------------------------------------------ generators

def gen_case(rng, kind=None):
    kind = kind or rng.choice(KINDS)
    sink = rng.choice(["future", "future", "sync"])
    case = {"kind": kind, "sink": sink, "step": rng.random() < 0.25}
    if kind == "iterable":
        n = rng.choice([0, 1, 2, 3, 4, 6])
        base = rng.choice([0, 0, 10])
        case["items"] = [base + i for i in range(n)]
        case["shared"] = rng.random() < 0.3
    if kind == "textfile" and rng.random() < 0.5:
        case["from_end"] = True          # tailing mode: the position is moved to the end when the source is BUILT, never again
    ops = []
    n_ops = rng.choice([4, 8, 12, 18, 26])
    started = False
    if kind in ("textfile", "filenames", "q") and rng.random() < 0.7:
        ops += [["w"]] * rng.randint(1, 3)
    while len(ops) < n_ops:
        r = rng.random()
        if r < 0.13:
            # a call that takes effect
            ops.append(["stop"] if started else ["start"])
            started = not started
        elif r < 0.18:
            # a call the property says has no effect
            ops.append(["start"] if started else ["stop"])
        elif r < 0.30 and started:
            # the critical shape: stop(); start() with at most a few loop turns in between
            ops.append(["stop"])
            ops += [["tick"]] * rng.choice([0, 0, 0, 1, 2, 3])
            ops.append(["start"])
        elif r < 0.37 and started:
            # ... placed between the completion of an emit and the resumption of the loop
            ops.append(["resolve"])
            ops += [["tick"]] * rng.choice([0, 0, 1, 2])
            ops.append(["stop"])
            ops += [["tick"]] * rng.choice([0, 0, 1])
            ops.append(["start"])
        elif r < 0.41:
            ops += [[rng.choice(["start", "stop"])]] * 2          # redundant pair
            started = ops[-1][0] == "start"
        elif r < 0.58:
            ops.append(["adv", rng.choice([0.25, 0.5, 0.5, 1.0, 1.0, 1.5, 2.0])])
        elif r < 0.68:
            ops.append(["tick"])
        elif r < 0.76:
            ops.append(["settle"])
        elif r < 0.92:
            ops.append(["resolve"])
            if rng.random() < 0.5:
                ops.append(rng.choice([["settle"], ["tick"]]))
        elif kind in ("textfile", "filenames", "q"):
            ops.append(["w"])
        else:
            ops.append(["settle"])
    case["ops"] = ops
    return case


def _c(kind, sink, ops, **kw):
    c = {"kind": kind, "sink": sink, "step": False, "ops": ops}
    c.update(kw)
    return c


S, T, SE, RS, TK = ["start"], ["stop"], ["settle"], ["resolve"], ["tick"]

CORPUS = [
    # a run() that returns a Future is seen to be finished only some loop turns after it left its loop: a start() landing in between
    # must not be lost (found by a thorough sweep on the unchanged tree, repaired in /repo)
    {"kind": "periodic-tornado", "sink": "future", "step": False,
     "ops": [["resolve"], ["start"], ["stop"], ["tick"], ["tick"], ["tick"], ["start"], ["adv", 2.0], ["start"], ["adv", 2.0], ["resolve"], ["settle"]]},
    {"kind": "periodic-tornado", "sink": "sync", "step": False,
     "ops": [["start"], ["adv", 0.5], ["stop"], ["adv", 1.0], ["tick"], ["start"], ["adv", 2.0], ["stop"], ["tick"], ["tick"], ["start"], ["adv", 2.0]]},
    # stop(); start() during the back-pressured emit of the first item (the probe-confirmed defect)
    _c("iterable", "future", [S, SE, T, S, SE, RS, SE, RS, SE, RS, SE, RS, SE, RS, SE], items=[0, 1, 2, 3], shared=False),
    # ... during the sleep of from_periodic / filenames, during the emit of from_textfile
    _c("periodic", "sync", [S, ["adv", 0.5], T, S, ["adv", 1.0], ["adv", 1.0]]),
    _c("periodic", "future", [S, SE, T, S, RS, ["adv", 1.0], RS, ["adv", 1.0]]),
    _c("textfile", "future", [["w"], ["w"], S, SE, T, S, RS, SE, RS, ["adv", 1.0], ["w"], ["adv", 1.0]]),
    _c("filenames", "sync", [["w"], S, ["adv", 0.5], T, S, ["w"], ["adv", 1.0], ["adv", 1.0]]),
    # between the completion of the emit and the resumption of the loop
    _c("iterable", "future", [S, SE, RS, T, S, SE, RS, TK, T, TK, S, SE, RS, SE], items=[0, 1, 2, 3], shared=False),
    # stop before the loop has begun, restart before / after it noticed
    _c("iterable", "future", [S, T, S, SE, RS, SE], items=[0, 1], shared=False),
    _c("iterable", "future", [S, T, SE, S, SE, RS, SE, RS, SE], items=[5, 6], shared=True),
    _c("periodic", "sync", [S, T, SE, S, SE, ["adv", 1.0]]),
    # restart after the loop has really exited (what the test-suite does)
    _c("iterable", "future", [S, SE, T, RS, SE, S, SE, RS, SE, RS, SE], items=[0, 1], shared=False),
    _c("periodic", "sync", [S, ["adv", 0.5], T, ["adv", 1.0], S, ["adv", 2.0]]),
    # exhaustion and restart; redundant calls; empty iterable; sync downstream (no suspension at all)
    _c("iterable", "sync", [S, SE, S, SE, S, T, T, SE], items=[0, 1, 2], shared=False),
    _c("iterable", "future", [S, S, SE, RS, SE, S, RS, SE, T, T, S, SE], items=[7], shared=False),
    _c("iterable", "sync", [S, SE, S, SE], items=[], shared=False),
    _c("iterable", "future", [S, SE, RS, SE, T, S, S, SE, RS, SE, RS, SE], items=[0, 1, 2, 3], shared=True),
    _c("textfile", "sync", [S, ["adv", 0.5], ["w"], T, S, ["adv", 0.5], ["adv", 1.0], T, T, ["w"], ["adv", 2.0]]),
    _c("filenames", "future", [["w"], ["w"], S, SE, T, S, RS, TK, T, S, RS, ["adv", 1.0], ["adv", 1.0]]),
]


# ------------------------------------------------------------------ checking

def observe(case, scratch):
    sub = tempfile.mkdtemp(dir=scratch)
    try:
        return run_impl(case, sub)
    finally:
        shutil.rmtree(sub, ignore_errors=True)


def classify(ctx, case, log):
    """Input-distribution counters; returns whether the case is non-trivial."""
    ctx.count("kind:" + case["kind"])
    ctx.count("sink:" + case["sink"])
    active, pending, in_cycle = set(), 0, set()
    exited = False
    interesting = False
    scheduled = False            # an effective start() whose run() has not begun yet
    calls = [ev for ev in log if ev["e"] == "call"]
    final_stop = calls[-1] if calls else None
    for ev in log:
        e = ev["e"]
        if e == "run-begin":
            active.add(ev["l"])
            scheduled = False
        elif e == "run-exit":
            active.discard(ev["l"])
            exited = True
        elif e == "cycle-begin":
            in_cycle.add(ev["l"])
        elif e == "cycle-end":
            in_cycle.discard(ev["l"])
        elif e == "emit" and case["sink"] == "future":
            pending += 1
        elif e == "done":
            pending -= 1
        elif e == "call" and ev is not final_stop:
            eff = (ev["o"] == "start") == ev["before"]
            where = ("in-emit" if (pending and active) else "in-cycle" if in_cycle else "between-items" if active
                     else "not-begun-yet" if scheduled else None)
            if not eff:
                interesting = True
                ctx.count("redundant-" + ev["o"])
            elif ev["o"] == "start":
                if where:
                    interesting = True
                    ctx.count("start-while-old-loop-live:" + where)
                elif exited:
                    interesting = True
                    ctx.count("start-after-loop-exit")
                else:
                    ctx.count("start:first")
                if not active:
                    scheduled = True
            else:
                ctx.count("stop:" + (where or "no-loop-running"))
    return interesting


def check_case(ctx, case, obs, answers_fixed, answers_orig, scratch):
    log, acts = obs
    nontrivial = classify(ctx, case, log)
    ctx.case(case, nontrivial=nontrivial)
    # --- model-free oracle
    bad = oracle(case, log)
    if bad is None:
        c2, removed = strip_redundant(case, log)
        if removed:
            log2 = observe(c2, scratch)
            if visible(log2) != visible(log):
                bad = ("redundant-call-not-identity",
                       "dropping %d redundant start()/stop() call(s) changes the behaviour: %r vs %r"
                       % (removed, visible(log)[:12], visible(log2)[:12]))
    if bad is not None:
        ctx.failure(bad[0], "%s: %s" % (case["kind"], bad[1]), case,
                    observed=[_short(ev) for ev in log[:60]],
                    oracle="one run() invocation at a time; no cycle after stop; a started source polls; redundant calls are "
                           "identities; from_iterable emits prefixes of its items waiting for downstream")
    # --- trace acceptance by the model (not for the tornado-style subclass: its run() is a Task the harness creates, whose first step
    #     is one loop iteration behind the invocation the model describes; the model-free statements above apply to it unchanged)
    if answers_fixed is not None and case["kind"] != "periodic-tornado":
        # `_run_live` is a private attribute: it is compared when the tree has it under that name and ignored otherwise
        # (a harmless rename must not matter); the trace itself has to be accepted by the fixed-code model either way
        check_rl = any(ev["rl"] is not None for ev in log)
        why = compare(acts, answers_fixed, check_rl)
        if why is None:
            ctx.coverage["traces_validated_against_impl"] += 1
        else:
            also = compare(acts, answers_orig, False) if answers_orig is not None else "?"
            note = (" (the trace IS accepted by the model of the ORIGINAL start(): the tree lacks the fix)"
                    if also is None else " (not accepted by the ORIGINAL-mechanism model either: %s)" % also)
            ctx.disagreement("%s trace rejected by the fixed-code model: %s%s" % (case["kind"], why, note), case)


def _short(ev):
    return {k: v for k, v in ev.items() if k in ("e", "l", "o", "x", "t", "before", "st") and v is not None}


def tcp_cases(ctx, cases=None):
    """from_tcp overrides run()/stop(): its 'polling cycle' is one read of one open connection.  Real sockets on 127.0.0.1, real time
    (small directed sample): after stop() at most the read already pending on each open connection is delivered - nothing of what the
    clients send later - and a restart serves new connections without duplicating anything.  Slowness can only hide a violation here
    (what must NOT arrive is awaited for a fixed 0.3 s; what MUST arrive is awaited for up to 20 s)."""
    import socket
    import time
    from streamz import Source
    if cases is None:
        cases = [{"tcp": True, "conns": c, "after": a, "double_stop": d} for c, a, d in ((1, 3, False), (2, 2, True), (1, 2, True))]
    for case in cases:
        out = {}

        async def main(case=case, out=out):
            sk = socket.socket()
            sk.bind(("127.0.0.1", 0))
            port = sk.getsockname()[1]
            sk.close()
            src = Source.from_tcp(port, asynchronous=True)
            got = src.sink_to_list()
            src.start()
            await asyncio.sleep(0.05)

            async def wait_for(pred, t=20):
                t0 = time.time()
                while not pred() and time.time() - t0 < t:
                    await asyncio.sleep(0.01)
                return pred()
            ws = []
            for c in range(case["conns"]):
                _, w = await asyncio.open_connection("127.0.0.1", port)
                ws.append(w)
                w.write(b"before-%d\n" % c)
                await w.drain()
            out["before_ok"] = await wait_for(lambda: len(got) == case["conns"])
            src.stop()
            if case["double_stop"]:
                src.stop()
            for k in range(case["after"]):
                for c, w in enumerate(ws):
                    w.write(b"after-%d-%d\n" % (c, k))
                    await w.drain()
                await asyncio.sleep(0.05)
            await asyncio.sleep(0.3)
            out["after_stop"] = [g.decode().strip() for g in got]
            src.start()
            await asyncio.sleep(0.05)
            _, w2 = await asyncio.open_connection("127.0.0.1", port)
            w2.write(b"restarted\n")
            await w2.drain()
            out["restart_ok"] = await wait_for(lambda: b"restarted\n" in got)
            out["final"] = [g.decode().strip() for g in got]
            src.stop()
            for w in ws + [w2]:
                w.close()
            await asyncio.sleep(0.05)
        try:
            asyncio.run(main())
        except OSError as e:          # no loopback / port taken in between: nothing observed, nothing claimed
            ctx.count("tcp:skipped:" + type(e).__name__)
            continue
        ctx.case(case, nontrivial=True)
        ctx.count("tcp:stop-with-open-connections")
        late = [m for m in out.get("after_stop", []) if m.startswith("after-") and not m.endswith("-0")]
        firsts = [m for m in out.get("after_stop", []) if m.startswith("after-")]
        final = out.get("final", [])
        if not out.get("before_ok"):
            ctx.failure("tcp:not-delivered", "from_tcp: the records sent while the source was running did not arrive within 20 s: %r" % (final,), case)
        elif late or len(firsts) > case["conns"]:
            ctx.failure("emit-after-stop:from_tcp", "from_tcp with %d open connection(s): after stop() the clients sent %d more records each; delivered after the stop: %r "
                        "(at most the one read pending on each connection may finish)" % (case["conns"], case["after"], firsts), case)
        elif not out.get("restart_ok") or len(set(final)) != len(final):
            ctx.failure("tcp:restart", "from_tcp after stop(); start(): a new connection's record %s; all deliveries %r"
                        % ("arrived" if out.get("restart_ok") else "did not arrive within 20 s", final), case)


def http_cases(ctx, cases=None):
    """from_http_server (own run()/stop()): real HTTP requests on 127.0.0.1.  Redundant stop() / start() calls have no effect, nothing is
    accepted while stopped, a restart serves again, every body is delivered once."""
    import socket
    from streamz import Source
    if cases is None:
        cases = [{"http": ["start", "post", "stop", "stop", "post-refused", "start", "start", "post", "stop"]},
                 {"http": ["stop", "start", "post", "post", "stop", "start", "post", "stop", "stop"]}]
    for case in cases:
        out = {"raised": None, "refused": [], "codes": []}

        async def main(case=case, out=out):
            from tornado.httpclient import AsyncHTTPClient, HTTPRequest
            sk = socket.socket()
            sk.bind(("127.0.0.1", 0))
            port = sk.getsockname()[1]
            sk.close()
            src = Source.from_http_server(port, asynchronous=True)
            got = src.sink_to_list()
            out["got"] = got
            client = AsyncHTTPClient(force_instance=True)
            k = 0
            for step in case["http"]:
                try:
                    if step == "start":
                        src.start()
                        await asyncio.sleep(0.05)
                    elif step == "stop":
                        src.stop()
                        await asyncio.sleep(0.05)
                except Exception as e:      # noqa: BLE001
                    out["raised"] = "%s() raised %s: %s" % (step, type(e).__name__, e)
                    break
                if step.startswith("post"):
                    k += 1
                    try:
                        r = await client.fetch(HTTPRequest("http://127.0.0.1:%d/x" % port, method="POST", body="m%d" % k,
                                                           connect_timeout=5, request_timeout=20), raise_error=False)
                        out["codes"].append((k, r.code))
                    except OSError:
                        out["codes"].append((k, 599))
            try:
                src.stop()
            except Exception:       # noqa: BLE001
                pass
            client.close()
            await asyncio.sleep(0.05)
        try:
            asyncio.run(main())
        except OSError as e:
            ctx.count("http:skipped:" + type(e).__name__)
            continue
        ctx.case(case, nontrivial=True)
        ctx.count("http:start-stop-history")
        # expected: a POST while running is answered 200 and delivered once; a POST while stopped is refused (599) and not delivered
        running, want, k = False, [], 0
        for step in case["http"]:
            if step == "start":
                running = True
            elif step == "stop":
                running = False
            elif step.startswith("post"):
                k += 1
                if running:
                    want.append(("m%d" % k).encode())
        got = list(out.get("got", []))
        if out["raised"]:
            ctx.failure("redundant-call-raised:from_http_server", "from_http_server under %r: %s" % (case["http"], out["raised"]), case,
                        oracle="starting a started source or stopping a stopped one has no effect")
        elif got != want:
            ctx.failure("http:deliveries", "from_http_server under %r: delivered %r, the requests made while it was running are %r (status codes %r)"
                        % (case["http"], got, want, out["codes"]), case)


def run(ctx):
    ctx.audit(extra_modules=["StreamzVerif.Props.SourceFuture"])
    tcp_cases(ctx)
    http_cases(ctx)
    from .. import corr_sourcefuture
    corr_sourcefuture.run(ctx, "C18", 80 if not ctx.thorough() else 4000)
    ctx.assumptions += [
        "one event loop, one thread: start()/stop() are called on the loop thread (cross-thread races with a source on the background loop are out of scope)",
        "suspension points inside a polling cycle are not distinguished by the model (a cycle is atomic between begin and end); the harness places calls at each of them",
        "from_iterable's iterable is a finite list of distinct naturals, re-iterable (list-like) or a one-shot iterator (shared cursor)",
        "sources overriding start()/stop() themselves: from_tcp by a small real-socket sample (oracle only); from_http_server by a small real-HTTP sample (oracle only); from_kafka* under C09; from_websocket not covered",
    ]
    n = 200 if not ctx.thorough() else 5000
    cases = [dict(c) for c in CORPUS]
    per = n // len(KINDS)
    for kind in KINDS:
        cases += [gen_case(ctx.rng, kind) for _ in range(per)]
    scratch = tempfile.mkdtemp(prefix="verif-c18-", dir=os.environ.get("VERIF_SCRATCH"))
    try:
        obs = []
        lines, spans = [], []
        for c in cases:
            log = observe(c, scratch)
            acts = to_actions(c, log)
            obs.append((log, acts))
            a = len(lines)
            lines += model_lines(c, acts, True)
            b = len(lines)
            lines += model_lines(c, acts, False)
            spans.append((a, b, len(lines)))
        answers = common.lean_driver("Source", lines)
        for c, o, (a, b, e) in zip(cases, obs, spans):
            check_case(ctx, c, o, answers[a:b], answers[b:e], scratch)
    finally:
        shutil.rmtree(scratch, ignore_errors=True)
    ctx.coverage["rule"] = (
        "corpus of boundary histories + seeded generator, equal shares of from_periodic / from_iterable / from_textfile / filenames; "
        "a history is 4-26 operations among start, stop, stop-then-start with 0-3 loop turns in between, redundant pairs, "
        "advance virtual time by 0.25-2 poll intervals, single loop turn, settle, resolve the oldest back-pressure Future, write a record/file; "
        "sink either synchronous or returning a Future (back-pressure); a quarter of the runs in single-handle step mode. "
        "Non-trivial: the history contains a start() that takes effect after a stop (old loop still live, or already exited) or a redundant call. "
        "Distinct = distinct case JSON.")


def replay(ctx, data):
    ctx.audit(extra_modules=["StreamzVerif.Props.SourceFuture"])
    if data["case"].get("source_future"):
        from .. import corr_sourcefuture
        corr_sourcefuture.CORPUS[:] = [data["case"]["source_future"]]
        corr_sourcefuture.run(ctx, "C18", 0)
        ctx.coverage["rule"] = "replay of one recorded case"
        return
    scratch = tempfile.mkdtemp(prefix="verif-c18-")
    try:
        case = data["case"]
        if case.get("http"):
            http_cases(ctx, [case])
            ctx.coverage["rule"] = "replay of one recorded case"
            return
        if case.get("tcp"):
            tcp_cases(ctx, [case])
            ctx.coverage["rule"] = "replay of one recorded case"
            return
        log = observe(case, scratch)
        acts = to_actions(case, log)
        lf = model_lines(case, acts, True)
        lo = model_lines(case, acts, False)
        answers = common.lean_driver("Source", lf + lo)
        check_case(ctx, case, (log, acts), answers[:len(lf)], answers[len(lf):], scratch)
    finally:
        shutil.rmtree(scratch, ignore_errors=True)
    ctx.coverage["rule"] = "replay of one recorded case"
