"""C10 — metadata travels with exactly the data it describes.

Lean: Model/Graph.lean (`md` component of every effect), Props/C10.lean.  Correspondence:
tag lists at every arrive/emit event of every node, implementation vs model.  Oracle
(model-free): per output the concatenation, in member order, of the tags of the inputs that
contributed to it according to the node's documented meaning; shape check (flat list of dicts).
"""
from .. import graphcheck

ASPECTS = ("flow", "tags", "err")
CHECKS = ("sem", "md")
SIGS = ("metadata", "metadata-shape")

CORPUS = [
    {"mode": "sync", "nodes": [{"kind": "source", "ups": []}, {"kind": "partition_unique", "ups": [0], "n": 2, "key": ["modk", 3], "keep": "last"},
                               {"kind": "sink", "mode": "sync", "f": ["id"], "ups": [1]}],
     "ops": [{"op": "emit", "node": 0, "val": v, "md": [{"tag": 10 + i, "ref": None}]} for i, v in enumerate((1, 4, 2, 5))]},
    {"mode": "sync", "nodes": [{"kind": "source", "ups": []}, {"kind": "map", "f": ["rep", 3], "ups": [0]}, {"kind": "flatten", "ups": [1]},
                               {"kind": "sliding_window", "ups": [2], "n": 2, "partial": True}, {"kind": "sink", "mode": "sync", "f": ["id"], "ups": [3]}],
     "ops": [{"op": "emit", "node": 0, "val": v, "md": [{"tag": 20 + 2 * i, "ref": None}, {"tag": 21 + 2 * i, "ref": None}]} for i, v in enumerate((1, 2))]},
]


def run(ctx):
    ctx.audit()
    n = 300 if not ctx.thorough() else 10000
    graphcheck.run_family(ctx, n, ASPECTS, CHECKS, SIGS, corpus=CORPUS)
    ctx.coverage["rule"] = ("as C01; every emission carries 0, 1 or 2 tagged metadata dictionaries (70% of emissions carry some). "
                            "Non-trivial: pipeline has a combining/batching/dropping node and >= 8 flow events.")
    ctx.assumptions += ["metadata dictionaries are identified by an integer tag; reference counters are a logging RefCounter subclass"]


def replay(ctx, data):
    ctx.audit()
    graphcheck.replay_case(ctx, data["case"], ASPECTS, CHECKS, SIGS)
    ctx.coverage["rule"] = "replay of one recorded case"
