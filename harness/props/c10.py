"""C10 — metadata travels with exactly the data it describes.

Lean: Model/Graph.lean (`md` component of every effect), Props/C10.lean; asynchronous node groups (timed windows,
partition with timeout, zip(maxsize), buffer, map_async): the `c10_` theorems of Props/AsyncMetadata.lean.  Correspondence:
tag lists at every arrive/emit event of every node, implementation vs model.  Oracle
(model-free): per output the concatenation, in member order, of the tags of the inputs that
contributed to it according to the node's documented meaning; shape check (flat list of dicts).
"""
from .. import graphcheck

ASPECTS = ("flow", "tags", "err")
CHECKS = ("sem", "md")
SIGS = ("metadata", "metadata-shape")

CORPUS_FAULT = [
    # a consumer raises in the middle of a flush; the next flush must carry exactly the metadata of what it emits
    {"mode": "sync", "nodes": [{"kind": "source", "ups": []}, {"kind": "collect", "ups": [0]}, {"kind": "map", "f": ["len"], "ups": [1]},
                               {"kind": "sink", "mode": "sync", "f": ["failIf", 3, 2], "ups": [2]}],
     "ops": [{"op": "emit", "node": 0, "val": 0, "md": [{"tag": 1, "ref": None}]}, {"op": "emit", "node": 0, "val": 1, "md": [{"tag": 2, "ref": None}]},
             {"op": "flush", "node": 1}, {"op": "emit", "node": 0, "val": 2, "md": [{"tag": 3, "ref": None}]}, {"op": "flush", "node": 1},
             {"op": "emit", "node": 0, "val": 3, "md": [{"tag": 4, "ref": None}]}, {"op": "flush", "node": 1}]},
]

CORPUS = [
    # partition_unique keep=last: a key seen again AFTER another key moves to the end of the batch, and so must its metadata
    {"mode": "sync", "nodes": [{"kind": "source", "ups": []}, {"kind": "partition_unique", "ups": [0], "n": 3, "key": ["modk", 3], "keep": "last"},
                               {"kind": "sink", "mode": "sync", "f": ["id"], "ups": [1]}],
     "ops": [{"op": "emit", "node": 0, "val": v, "md": [{"tag": 30 + i, "ref": 1 + i}]} for i, v in enumerate((1, 2, 4, 3, 5, 7, 5, 8, 6))]},
    {"mode": "sync", "nodes": [{"kind": "source", "ups": []}, {"kind": "partition_unique", "ups": [0], "n": 2, "key": ["modk", 2], "keep": "first"},
                               {"kind": "sink", "mode": "sync", "f": ["id"], "ups": [1]}],
     "ops": [{"op": "emit", "node": 0, "val": v, "md": [{"tag": 50 + i, "ref": None}]} for i, v in enumerate((1, 3, 2, 4, 6, 5))]},
    {"mode": "sync", "nodes": [{"kind": "source", "ups": []}, {"kind": "partition_unique", "ups": [0], "n": 2, "key": ["modk", 3], "keep": "last"},
                               {"kind": "sink", "mode": "sync", "f": ["id"], "ups": [1]}],
     "ops": [{"op": "emit", "node": 0, "val": v, "md": [{"tag": 10 + i, "ref": None}]} for i, v in enumerate((1, 4, 2, 5))]},
    {"mode": "sync", "nodes": [{"kind": "source", "ups": []}, {"kind": "map", "f": ["rep", 3], "ups": [0]}, {"kind": "flatten", "ups": [1]},
                               {"kind": "sliding_window", "ups": [2], "n": 2, "partial": True}, {"kind": "sink", "mode": "sync", "f": ["id"], "ups": [3]}],
     "ops": [{"op": "emit", "node": 0, "val": v, "md": [{"tag": 20 + 2 * i, "ref": None}, {"tag": 21 + 2 * i, "ref": None}]} for i, v in enumerate((1, 2))]},
]


ASYNC_KINDS = ["buffer", "delay", "rate_limit", "map_async", "timed_window", "partition_timeout"]


def lean_extra():
    """Extra Props modules audited for C10: the `c10_` theorems of the asynchronous node groups (Props/AsyncMetadata.lean,
    plus any `c10_` theorem the node-group modules themselves carry)."""
    import os
    from .. import common
    from . import c02
    out = list(c02.lean_extra("C10"))
    if os.path.exists(os.path.join(common.LEAN_DIR, "StreamzVerif", "Props", "AsyncMetadata.lean")):
        out.append(("StreamzVerif.Props.AsyncMetadata", "c10_"))
    return out


def run(ctx):
    ctx.audit(extra_modules=lean_extra())
    n = 300 if not ctx.thorough() else 10000
    graphcheck.run_family(ctx, n, ASPECTS, CHECKS, SIGS, corpus=CORPUS)
    # metadata must stay attached to the right data after a fault as well (a consumer raising in the middle of a
    # flush / window emission): compared against the model on every later event (the oracle stops at the fault)
    graphcheck.run_family(ctx, n // 3, ASPECTS, CHECKS, SIGS, fail_prob=0.25, corpus=CORPUS_FAULT)
    # asynchronous nodes (buffer / delay / rate_limit / map_async / timed_window / partition with timeout): the metadata entries each sink
    # has received at quiescence, in order, against the same pipeline with the timing removed
    from . import _async_common as A
    A.sweep(ctx, 100 if not ctx.thorough() else 3000, ASYNC_KINDS, ["metadata"], ("metadata",), p_zip=0.1, opts={"p_multi": 0.2})
    # ... and the node-group correspondences (batches / tuples WITH their metadata against Model/AsyncWindows, Model/AsyncZip)
    from .. import corr_asyncwindows, corr_asynczip
    for m in (corr_asyncwindows, corr_asynczip):
        m.run(ctx, "C10", 30 if not ctx.thorough() else 1000)
    ctx.coverage["rule"] = ("as C01; every emission carries 0, 1 or 2 tagged metadata dictionaries (70% of emissions carry some). "
                            "Non-trivial: pipeline has a combining/batching/dropping node and >= 8 flow events.")
    ctx.assumptions += ["metadata dictionaries are identified by an integer tag; reference counters are a logging RefCounter subclass"]


def replay(ctx, data):
    ctx.audit(extra_modules=lean_extra())
    case = data["case"]
    if case.get("mode") == "async" and any(n["kind"] in ASYNC_KINDS for n in case["nodes"]):
        from .. import asynccheck as ac
        ac.evaluate(ctx, case, ac.rerun(case), ["metadata"], ("metadata",))
    else:
        graphcheck.replay_case(ctx, case, ASPECTS, CHECKS, SIGS)
    ctx.coverage["rule"] = "replay of one recorded case"
