"""C14 — latest delivers an in-order subsequence ending with the newest element.

Lean: Model/Latest.lean (labelled transition system of `streamz.core.latest` with the
wake-up mechanism explicit: slot, queued notify callbacks, coroutine state), Proofs/Latest.lean
(inductive invariant), Props/C14.lean (in-order subsequence / strictly increasing / no lost
wake-up / newest delivered at quiescence / arrival-free runs terminate; negations for the
ORIGINAL mechanism on two witnesses).

Correspondence (this file): the real `Stream.latest()` node runs on the virtual loop in
`step_mode` (one ready handle per loop iteration).  A *schedule* is a word over
    a  arrive      (upstream emit of the next element)
    h  handle      (let the loop run its next ready handle)
    d  done        (complete the consumer's outstanding awaitable)
    r  re-entrant  (arm the consumer: during the NEXT delivery the consumer itself emits a new
                    element into the upstream of `latest` before it returns its future / None —
                    a feedback cycle; in model terms an `arrive` while the coroutine is already in
                    its `emitting` state, inside the very handle that performed the `resume`)
    c  connect     (late-connect cases only: attach the consumer to the latest node now; before
                    that the node has NO downstream and what it emits goes to nobody)
    x  detach      (rewiring: `upstream.disconnect(latest)` — or `latest.destroy()` — while idle, while the
                    consumer is busy, with an element in the slot; what the producer emits while the node
                    is detached goes nowhere: it is NOT an arrival and carries no claim)
    y  re-attach   (`upstream.connect(latest)`)
executed from the loop's `after_handle` hook, so an arrival can be placed between any two
handles — in particular between a `condition.notify` callback and the coroutine's resumption.
The consumer is a sink whose `update` returns a Future the harness completes ('A' mode) or
returns None at once ('S' mode: no back-pressure).  What each step did is observed on the
collaborators of the node (a logging `tornado.locks.Condition`, the sink, the loop's ready
queue), translated to model actions (A arrive, N runNotify, R resume, D consumerDone) and
the Lean model — an LTS — must ACCEPT the observed action sequence and agree with the
observed state (slot, queued notifies, coroutine state) after every step and on the delivery
log.  The model-free oracle is the property statement evaluated on the arrival / delivery logs.
"""
import asyncio
import functools

from tornado.locks import Condition

from .. import common, vloop

CHECK_REFS = True     # auxiliary oracle on reference counts (the fix touches them; see C04)


class Falsy:
    """Payload whose truth value is False (a slot test must not look at the payload)."""
    def __init__(self, i):
        self.i = i

    def __bool__(self):
        return False

    def __repr__(self):
        return "Falsy(%d)" % self.i


class AllEqual:
    """Payloads that all compare equal (and hash alike): two versions of one record."""
    def __init__(self, i):
        self.i = i

    def __eq__(self, other):
        return isinstance(other, AllEqual)

    def __hash__(self):
        return 7

    def __repr__(self):
        return "AllEqual(%d)" % self.i


# Payload codes for `case["payloads"]` (arrival i uses payloads[i-1]; '-' or past the end = the
# case's default kind).  The singletons are used at most once per case, so every arrival is still
# recognised by IDENTITY — the oracle never looks at truthiness or equality of a payload.
SPECIAL = {"N": lambda: None, "0": lambda: 0, "E": lambda: "", "F": lambda: False, "T": lambda: (),
           "B": lambda: b"", "L": lambda: [], "D": lambda: {}}
SINGLETONS = "N0EFTB"


def _is_read_self(h):
    return getattr(h._callback, "__name__", "") == "_read_from_self"


class Exec:
    """One run of the real node under one schedule."""

    def __init__(self, case, chooser=None):
        self.case = case
        self.tokens = list(case.get("tokens", ""))
        self.modes = case.get("modes") or "A"
        self.payload_kind = case.get("payload", "idx")
        self.payloads = case.get("payloads") or ""
        self.late = bool(case.get("late"))      # the consumer is attached by the first 'c' (or when draining starts)
        self.sink = None
        self.attached_at = None                 # number of arrivals when the consumer was attached
        self.emits = []                         # everything the node emitted (to the consumer or to nobody), for the model
        self.detached = False                   # the latest node currently has no upstream (x ... y)
        self.detach_via = case.get("detach_via", "disconnect")
        self.rewire = bool(case.get("rewire"))  # exhaustive mode: offer x / y as choices
        self.max_detach = case.get("max_detach", 1)
        self.detaches = 0
        self.detach_busy = 0                    # detached while the consumer was busy
        self.detach_slot = 0                    # detached with a fresh element in the slot
        self.done_while_detached = 0            # the consumer finished while the node was detached
        self.lost_emits = 0                     # producer emits while detached (reach nobody)
        self.arrivals_after_reattach = 0
        self.reattached = False
        self.max_arrivals = case.get("max_arrivals")
        self.chooser = chooser          # exhaustive mode: called with the enabled token list
        self.executed = []              # tokens actually performed
        self.pos = 0
        self.events = []                # events of the step in progress
        self.steps = []                 # [{"tok","acts","obs","events"}]
        self.arrivals = []              # payload objects, index i+1
        self.refs = []
        self.deliveries = []            # arrival indices in delivery order (0 = unknown object)
        self.outstanding = None         # (index, future) of the async delivery in progress
        self.problems = []              # (signature, text) from the model-free oracle
        self.quiescent_points = 0
        self.busy_arrivals = 0          # arrivals while the consumer was busy
        self.gap_arrivals = 0           # arrivals between a notify and the resumption
        self.armed = 0                  # pending 'r' tokens: the next `armed` deliveries re-enter
        self.reentry = bool(case.get("reentry"))   # exhaustive mode: re-entry is a choice at each delivery
        self.reentrant_arrivals = 0
        self.driving = False
        self.draining = False
        self.error = None

    # ------------------------------------------------------------ pipeline
    def setup(self, loop):
        from streamz import Stream
        from streamz.core import RefCounter
        ex = self
        self.loop = loop
        self.RefCounter = RefCounter

        class LogCondition(Condition):
            def notify(self, n=1):
                ex.events.append("notify")
                return super().notify(n)

            def wait(self, timeout=None):
                ex.events.append("wait")
                return super().wait(timeout)

        class SlowSink(Stream):
            def update(self, x, who=None, metadata=None):
                return ex.on_deliver(x, metadata)

        self.SlowSink = SlowSink
        self.source = Stream(asynchronous=True)
        self.node = self.source.latest()
        self.cond = LogCondition()
        self.node._condition = self.cond      # `latest.condition` creates it lazily; cb has not run yet
        real_emit = self.node._emit

        def logged_emit(x, metadata=None):
            # only used to SEE an emission that goes to nobody (no downstream attached yet): in model terms
            # a delivery whose consumer is free again at once (resume; consumerDone)
            if ex.sink is None:
                ex.events.append(("void", ex.index_of(x)))
                ex.emits.append(ex.index_of(x))
                r = real_emit(x, metadata)
                ex.events.append("syncdone")
                return r
            return real_emit(x, metadata)

        self.node._emit = logged_emit
        if not self.late:
            self.attach()
        self.finished = loop.create_future()

    def attach(self):
        self.sink = self.SlowSink(self.node)
        self.attached_at = len(self.arrivals)

    def index_of(self, x):
        idx = 0
        for i, p in enumerate(self.arrivals, 1):
            if p is x:
                idx = i
        return idx

    def on_deliver(self, x, metadata):
        idx = self.index_of(x)
        self.events.append(("deliver", idx))
        # ---- model-free oracle, clause 1 (evaluated at the moment of delivery)
        if idx == 0:
            self.problem("latest-phantom", "delivered %r which never arrived" % (x,))
        elif idx in self.deliveries:
            self.problem("latest-duplicate", "arrival %d delivered twice: deliveries %r then %d again"
                         % (idx, self.deliveries, idx))
        elif self.deliveries and idx < max(self.deliveries):
            self.problem("latest-out-of-order", "arrival %d delivered after %r" % (idx, self.deliveries))
        if self.outstanding is not None:
            self.problem("latest-overlap", "delivery %d started while the consumer was still busy with %d"
                         % (idx, self.outstanding[0]))
        if CHECK_REFS and idx and self.refs[idx - 1].count < 1:
            self.problem("latest-ref-released-in-flight",
                         "arrival %d handed downstream with reference count %d" % (idx, self.refs[idx - 1].count))
        self.deliveries.append(idx)
        self.emits.append(idx)
        if len(self.deliveries) > 2 * len(self.arrivals) + 4:
            # a node that re-delivers without bound would spin inside one handle: stop it (the
            # duplicate has been recorded above; the exception ends the forwarding coroutine)
            raise RuntimeError("C14 harness: runaway deliveries %r" % (self.deliveries[-6:],))
        # ---- re-entrant arrival: the consumer feeds a new element back in before it returns
        re = False
        if self.chooser is not None:
            if self.reentry and not self.detached and (
                    self.max_arrivals is None or len(self.arrivals) + self.lost_emits < self.max_arrivals):
                re = self.chooser(["-", "r"]) == "r"
                if re:
                    self.executed.append("r")     # lands before the 'h' of the handle in progress
        elif self.armed:
            self.armed -= 1
            re = True
        if re:
            self.do_rearrive()
            if CHECK_REFS and idx and self.refs[idx - 1].count < 1:
                self.problem("latest-ref-released-in-flight",
                             "reference of arrival %d dropped to %d when the consumer, while being handed it, emitted "
                             "the next element" % (idx, self.refs[idx - 1].count))
        mode = self.modes[(len(self.deliveries) - 1) % len(self.modes)]
        if mode == "S":
            self.events.append("syncdone")
            return None
        fut = self.loop.create_future()
        self.outstanding = (idx, fut)
        return fut

    def problem(self, sig, text):
        if not any(s == sig for s, _ in self.problems):
            self.problems.append((sig, text))

    # ------------------------------------------------------------ observation
    def notify_handles(self):
        n = 0
        for h in self.loop._ready:
            if h._cancelled:
                continue
            for a in (h._args or ()):
                f = a.func if isinstance(a, functools.partial) else a
                if getattr(f, "__self__", None) is self.cond and getattr(f, "__name__", "") == "notify":
                    n += 1
        return n

    def observe(self):
        nxt = self.node.next
        if isinstance(nxt, list) and len(nxt) == 0:
            slot = "-"
        elif isinstance(nxt, list) and len(nxt) == 1:
            slot = str(self.index_of(nxt[0]) or "?")
        else:
            slot = "?"          # not the one-element-list slot the model describes
        waiters = sum(1 for w in self.cond._waiters if not w.done())
        if waiters:
            co = "W" if waiters == 1 else "W%d" % waiters
            if self.outstanding is not None:
                co += "+E%d" % self.outstanding[0]
        elif self.outstanding is not None:
            co = "E%d" % self.outstanding[0]
        else:
            co = "K"
        return "%s|%d|%s" % (slot, self.notify_handles(), co)

    def real_quiescent(self):
        return all(h._cancelled or _is_read_self(h) for h in self.loop._ready)

    def record(self, tok, lead):
        acts = lead
        for e in self.events:
            if e == "notify":
                acts += "N"
            elif e == "wait":
                acts += "R"
            elif e == "rearrive":
                acts += "A"
            elif e == "syncdone":
                acts += "D"
            else:
                acts += "R"
        self.steps.append({"tok": tok, "acts": acts, "obs": self.observe(),
                           "events": [e if isinstance(e, str) else "%s%d" % e for e in self.events]})
        self.events = []
        self.executed.append(tok)
        if self.real_quiescent():
            self.at_quiescence()

    def at_quiescence(self):
        """Model-free oracle, clause 2: nothing left to run; if the consumer is free the newest
        arrival must have been delivered."""
        if self.outstanding is not None:
            return
        n = len(self.arrivals)
        if self.sink is not None:
            self.quiescent_points += 1
            # a consumer attached late: the claim is about the newest element received AFTER it was attached;
            # no claim for elements that arrived while the node had no downstream at all
            if n > self.attached_at and (not self.deliveries or self.deliveries[-1] != n):
                self.problem("latest-lost-wakeup",
                             "loop idle and consumer free after %d arrivals%s, but deliveries are %r: the newest "
                             "element (%r) was not delivered and nothing is scheduled that would deliver it"
                             % (n, " (consumer attached after the first %d)" % self.attached_at if self.attached_at else "",
                                self.deliveries, self.arrivals[-1]))
        if CHECK_REFS and n:
            counts = [r.count for r in self.refs]
            if counts[-1] != 1 or any(counts[:-1]):
                self.problem("latest-ref-balance",
                             "at rest latest must hold exactly the newest element's reference; counts %r" % (counts,))

    # ------------------------------------------------------------ driving
    def enabled(self):
        en = []
        if self.max_arrivals is None or len(self.arrivals) + self.lost_emits < self.max_arrivals:
            en.append("a")
        if self.rewire:
            if self.detached:
                en.append("y")
            elif self.detaches < self.max_detach:
                en.append("x")
        if any(not h._cancelled for h in self.loop._ready):
            en.append("h")
        if self.outstanding is not None:
            en.append("d")
        if self.sink is None:
            en.append("c")
        return en

    def next_token(self):
        if self.chooser is not None:
            en = self.enabled()
            # a self-pipe read is a no-op that commutes with everything: run it without branching
            if "h" in en and _is_read_self(self.loop._ready[0]):
                return "h"
            if not en:
                return None
            return self.chooser(en)
        if self.pos < len(self.tokens):
            t = self.tokens[self.pos]
            self.pos += 1
            return t
        # drain: run everything, complete the consumer, until nothing is left
        self.draining = True
        if any(not h._cancelled for h in self.loop._ready):
            return "h"
        if self.sink is None:
            return "c"
        if self.outstanding is not None:
            return "d"
        return None

    def hook(self, handle):
        try:
            if self.driving:
                self.record("h", "")
            self.driving = True
            budget = 100000
            while budget:
                budget -= 1
                tok = self.next_token()
                if tok is None:
                    self.finish()
                    return
                if tok == "h":
                    if any(not h._cancelled for h in self.loop._ready):
                        return          # the loop now runs exactly one handle, then calls us again
                    continue
                if tok == "x":
                    if not self.detached:
                        self.do_detach()
                    continue
                if tok == "y":
                    if self.detached:
                        self.do_reattach()
                    continue
                if tok == "c":
                    if self.sink is None:
                        self.attach()
                        self.record("c", "")
                    continue
                if tok == "r":
                    self.armed += 1
                    self.executed.append("r")
                    continue
                if tok == "a":
                    if self.max_arrivals is not None and len(self.arrivals) + self.lost_emits >= self.max_arrivals:
                        continue
                    self.do_arrive()
                elif tok == "d":
                    if self.outstanding is None:
                        continue
                    self.do_done()
            raise RuntimeError("schedule did not terminate")
        except Exception as e:       # never let an exception escape into the loop machinery
            self.error = e
            self.finish()

    def make_payload(self, i):
        """payload object of arrival i; always a fresh object (recognised by identity).  'ndarray' / 'frame': objects whose == does
        not yield a bool (an implementation must not compare payloads); 'equal': every payload == every other one."""
        k = self.payload_kind
        if k == "falsy":
            return Falsy(i)
        if k == "str":
            return "v%d" % i
        if k == "ndarray":
            import numpy as np
            return np.array([i, i + 1])
        if k == "frame":
            import pandas as pd
            return pd.DataFrame({"x": [i, i + 1]})
        if k == "equal":
            return AllEqual(i)
        return [i]

    def emit_arrival(self, p, ref):
        """source.emit for an arrival: latest.update must take whatever the payload is"""
        try:
            self.source.emit(p, metadata=[{"ref": ref}])
        except Exception as e:      # noqa: BLE001
            self.problems.append(("latest-emit-raised", "latest: the emit of arrival %d (payload kind %r) raised %s: %s"
                                  % (len(self.arrivals), self.payload_kind, type(e).__name__, e)))

    def new_element(self):
        i = len(self.arrivals) + 1
        code = self.payloads[i - 1] if i <= len(self.payloads) else "-"
        if code in SPECIAL:
            p = SPECIAL[code]()
        else:
            p = self.make_payload(i)
        ref = self.RefCounter()
        self.arrivals.append(p)
        self.refs.append(ref)
        return p, ref

    def do_rearrive(self):
        """Called from inside the consumer, i.e. inside latest.cb's `self._emit(x, ...)`: the slot has
        been taken and the delivery has started; now `update` runs re-entrantly (slot filled, notify queued)."""
        if self.detached:
            self.emit_nowhere()
            return
        p, ref = self.new_element()
        self.reentrant_arrivals += 1
        self.busy_arrivals += 1
        if self.reattached:
            self.arrivals_after_reattach += 1
        self.events.append("rearrive")
        self.emit_arrival(p, ref)

    def emit_nowhere(self):
        """The producer emits while the latest node is detached: the element reaches nobody."""
        self.lost_emits += 1
        self.source.emit(["lost", self.lost_emits], metadata=[{"ref": self.RefCounter()}])

    def do_detach(self):
        self.detaches += 1
        if self.outstanding is not None:
            self.detach_busy += 1
        if self.node.next:
            self.detach_slot += 1
        if self.detach_via == "destroy":
            self.node.destroy()
        else:
            self.source.disconnect(self.node)
        self.detached = True
        self.record("x", "")

    def do_reattach(self):
        self.source.connect(self.node)
        self.detached = False
        self.reattached = True
        self.record("y", "")

    def do_arrive(self):
        if self.detached:
            self.emit_nowhere()
            self.record("a", "")        # not an arrival: the node must not change at all
            return
        p, ref = self.new_element()
        if self.reattached:
            self.arrivals_after_reattach += 1
        if self.outstanding is not None:
            self.busy_arrivals += 1
        elif not self.cond._waiters and self.steps:
            self.gap_arrivals += 1
        self.emit_arrival(p, ref)
        self.record("a", "A")

    def do_done(self):
        idx, fut = self.outstanding
        if CHECK_REFS and self.refs[idx - 1].count < 1:
            self.problem("latest-ref-released-in-flight",
                         "reference of arrival %d dropped to %d while it was still being delivered downstream"
                         % (idx, self.refs[idx - 1].count))
        self.outstanding = None
        if self.detached:
            self.done_while_detached += 1
        fut.set_result(None)
        self.record("d", "D")

    def finish(self):
        self.driving = False
        self.loop.after_handle = None
        if not self.finished.done():
            self.finished.set_result(None)

    async def main(self, loop):
        self.setup(loop)
        loop.after_handle = self.hook
        await self.finished
        loop.after_handle = None
        if self.error is not None:
            raise self.error
        return self


def execute(case, chooser=None):
    ex = Exec(case, chooser)
    vloop.run(ex.main, step_mode=True)
    return ex


# ------------------------------------------------------------------ exhaustive interleavings

def enumerate_paths(base_case, limit=None):
    """Stateless depth-first enumeration of every maximal interleaving of {a, h, d} (only
    enabled actions are offered; `max_arrivals` bounds the tree).  Yields the finished Exec."""
    prefix = []
    n = 0
    while True:
        trace = []

        def chooser(en, trace=trace, prefix=prefix):
            k = len(trace)
            idx = prefix[k][0] if k < len(prefix) else 0
            trace.append((idx, len(en)))
            return en[idx]

        ex = execute(dict(base_case), chooser)
        yield ex
        n += 1
        if limit is not None and n >= limit:
            return
        while trace and trace[-1][0] + 1 >= trace[-1][1]:
            trace.pop()
        if not trace:
            return
        trace[-1] = (trace[-1][0] + 1, trace[-1][1])
        prefix = trace


# ------------------------------------------------------------------ generators

def gen_case(rng):
    """Structured random schedule: a style fixes the action weights, so that bursts during a busy
    period, arrivals exactly one loop turn apart, long idle stretches and fully synchronous
    consumers are all frequent."""
    style = rng.choice(["uniform", "uniform", "turn-apart", "busy-burst", "eager-loop", "slow-loop", "sync",
                        "feedback", "feedback", "late-connect", "late-connect", "rewire", "rewire"])
    n = rng.choice([3, 6, 10, 16, 25, 40])
    toks = []
    if style == "turn-apart":
        # emit, then arrivals one (sometimes two) handles apart, consumer completed promptly or not
        k = rng.randint(0, 3)
        toks += ["h"] * k
        for _ in range(rng.randint(2, 9)):
            toks.append("a")
            toks += ["h"] * rng.choice([1, 1, 1, 2])
            if rng.random() < 0.6:
                toks.append("d")
    elif style == "busy-burst":
        toks += ["h"] * rng.randint(0, 2)
        for _ in range(rng.randint(1, 4)):
            toks += ["a"] + ["h"] * rng.randint(1, 4)            # get one element into delivery
            toks += [rng.choice("aah") for _ in range(rng.randint(1, 6))]   # burst while busy
            toks += ["d"] + ["h"] * rng.randint(0, 4)
    elif style == "rewire":
        # the latest node is detached from its upstream and re-attached: while idle, while the consumer is
        # busy (and finishing while detached), with an element pending; producer emits while detached go nowhere
        toks += ["h"] * rng.randint(0, 2)
        for _ in range(rng.randint(1, 3)):
            toks += ["a"] + ["h"] * rng.randint(0, 3)                       # usually: one element in delivery
            toks += rng.choices("ah", weights=(1, 2), k=rng.randint(0, 3))   # maybe a pending one
            toks.append("x")
            toks += rng.choices("ahd", weights=(1, 4, 3), k=rng.randint(0, 6))   # consumer may finish while detached
            if rng.random() < 0.8:
                toks.append("y")
                toks += rng.choices("ahd", weights=(3, 4, 2), k=rng.randint(0, 8))
    elif style == "late-connect":
        # some arrivals while latest() has no downstream at all, then the consumer is attached, then more input
        toks += rng.choices("ah", weights=(2, 3), k=rng.randint(1, 8))
        toks.append("c")
        toks += rng.choices("ahd", weights=(3, 4, 2), k=rng.randint(0, 12))
    elif style == "feedback":
        # the consumer feeds elements back into the upstream while it is being handed one (re-entrant
        # arrivals), alone (the chain ends with the newest element) or mixed with outside arrivals
        toks += ["h"] * rng.randint(0, 2)
        for _ in range(rng.randint(1, 3)):
            toks += ["r"] * rng.randint(1, 4) + ["a"]
            toks += rng.choices("hdar", weights=(6, 3, 1, 1), k=rng.randint(0, 10))
    else:
        w = {"uniform": (3, 4, 2, 1), "eager-loop": (2, 8, 2, 1), "slow-loop": (4, 2, 2, 1), "sync": (3, 5, 0, 1)}[style]
        toks = rng.choices("ahdr", weights=w, k=n)
    if style in ("turn-apart", "busy-burst") and rng.random() < 0.3:
        for _ in range(rng.randint(1, 2)):
            toks.insert(rng.randint(0, len(toks)), "r")
    if style == "sync":
        modes = "S"
    else:
        modes = rng.choice(["A", "A", "A", "AS", "SA", "AAS", "".join(rng.choice("AS") for _ in range(5))])
    case = {"tokens": "".join(toks), "modes": modes, "payload": rng.choice(["idx", "idx", "falsy", "str", "ndarray", "frame", "equal"]),
            "style": style}
    if style == "rewire" or rng.random() < 0.15:
        case["detach_via"] = rng.choice(["disconnect", "disconnect", "destroy"])
        if style != "rewire":
            # a detach / re-attach pair dropped anywhere into another style
            toks = list(case["tokens"])
            i = rng.randint(0, len(toks))
            j = rng.randint(i, len(toks))
            toks.insert(j, "y")
            toks.insert(i, "x")
            if rng.random() < 0.25:
                toks.remove("y")         # stays detached to the end
            case["tokens"] = "".join(toks)
    if style == "late-connect":
        case["late"] = True
    elif rng.random() < 0.12:
        # late attachment inside any other style ('c' somewhere, or only when draining starts)
        case["late"] = True
        if rng.random() < 0.7:
            toks = list(case["tokens"])
            k = rng.randint(0, len(toks))
            case["tokens"] = "".join(toks[:k] + ["c"] + toks[k:])
    if rng.random() < 0.4:
        # None and other falsy payloads (each singleton at most once, so identity still identifies the arrival)
        pool = list(SINGLETONS)
        rng.shuffle(pool)
        codes = []
        for _ in range(rng.randint(1, 10)):
            r = rng.random()
            if r < 0.45 and pool:
                codes.append(pool.pop())
            elif r < 0.6:
                codes.append(rng.choice("LD"))
            else:
                codes.append("-")
        if rng.random() < 0.5 and "N" in pool:
            codes[rng.randrange(len(codes))] = "N"      # make sure None itself is frequent
        case["payloads"] = "".join(codes)
    return case


CORPUS = [
    # the two Lean witnesses of Props/C14.lean (origLostWitness / origDupWitness) as schedules
    {"tokens": "hahhahdhh", "modes": "A", "payload": "idx", "style": "corpus:lost-wakeup"},
    {"tokens": "hahahdhhh", "modes": "A", "payload": "idx", "style": "corpus:duplicate"},
    # emit 1, then 2..6 one loop turn apart, consumer completed at once: [.., n, n] on the unchanged tree
    {"tokens": "h" + "ahd" * 6, "modes": "A", "payload": "idx", "style": "corpus:turn-apart"},
    # several arrivals during one busy period, then the consumer becomes free
    {"tokens": "hahhaaahhhd", "modes": "A", "payload": "idx", "style": "corpus:burst-while-busy"},
    # arrival before the coroutine has started at all; arrivals in the same turn
    {"tokens": "aaa", "modes": "A", "payload": "idx", "style": "corpus:before-start"},
    # arrival between the consumer's completion and the coroutine's resumption
    {"tokens": "hahhdahh", "modes": "A", "payload": "idx", "style": "corpus:after-done"},
    {"tokens": "hahhdhahh", "modes": "A", "payload": "idx", "style": "corpus:after-done-2"},
    # no back-pressure at all (the only schedule the existing test samples), and falsy payloads
    {"tokens": "hahhaahhh", "modes": "S", "payload": "falsy", "style": "corpus:sync"},
    {"tokens": "hahhahdhh", "modes": "A", "payload": "falsy", "style": "corpus:falsy"},
    {"tokens": "", "modes": "A", "payload": "idx", "style": "corpus:no-input"},
    {"tokens": "hahhaaahhhd", "modes": "A", "payload": "ndarray", "style": "corpus:arrays-burst-while-busy"},
    {"tokens": "aaahhdhhd", "modes": "A", "payload": "frame", "style": "corpus:frames-one-turn"},
    {"tokens": "hahhaaahhhdhhd", "modes": "A", "payload": "equal", "style": "corpus:equal-payloads-while-busy"},
    # re-entrant arrivals: the consumer emits the next element while it is being handed the current one
    # (feedback cycle); synchronous consumer / slow consumer that feeds back before it starts waiting
    {"tokens": "rrrah", "modes": "S", "payload": "idx", "style": "corpus:feedback-sync"},
    {"tokens": "rrrah", "modes": "A", "payload": "idx", "style": "corpus:feedback-slow"},
    {"tokens": "hahrhahh", "modes": "AS", "payload": "falsy", "style": "corpus:feedback-then-outside-arrival"},
    {"tokens": "hrahhdhh", "modes": "A", "payload": "idx", "style": "corpus:feedback-last-element"},
    # None / falsy payloads: while idle, as the newest element, arriving while the consumer is busy
    {"tokens": "hahhh", "modes": "A", "payload": "idx", "payloads": "N", "style": "corpus:none-idle"},
    {"tokens": "hahhahhdhh", "modes": "A", "payload": "idx", "payloads": "-N", "style": "corpus:none-while-busy"},
    {"tokens": "hahhaahhdhh", "modes": "A", "payload": "idx", "payloads": "-0N", "style": "corpus:none-after-burst"},
    {"tokens": "hahhdahhdahhdahhdahhd", "modes": "AS", "payload": "idx", "payloads": "0EFTB", "style": "corpus:falsy-singletons"},
    {"tokens": "aaahh", "modes": "S", "payload": "idx", "payloads": "LDN", "style": "corpus:none-newest-sync"},
    # consumer attached late: arrivals while latest() has no downstream, then connect, then more input
    {"tokens": "hahhhcahhhahhh", "modes": "A", "payload": "idx", "late": True, "style": "corpus:late-connect"},
    {"tokens": "ahhaahhhhcahdahd", "modes": "A", "payload": "idx", "late": True, "style": "corpus:late-connect-burst-before"},
    {"tokens": "hacahh", "modes": "A", "payload": "idx", "late": True, "style": "corpus:late-connect-element-still-in-slot"},
    {"tokens": "hahhh", "modes": "S", "payload": "idx", "late": True, "style": "corpus:connect-only-when-draining"},
    {"tokens": "hahhcahhh", "modes": "S", "payload": "idx", "payloads": "0N", "late": True, "style": "corpus:late-connect-none"},
    # rewiring: the node is detached from its upstream (and re-attached)
    #   busy, an element pending, detached, the consumer finishes while detached: the pending element must still go out
    {"tokens": "hahhaxdhhh", "modes": "A", "payload": "idx", "style": "corpus:detach-busy-pending"},
    #   busy, detached, consumer finishes while detached, re-attached, a later arrival must be delivered
    {"tokens": "hahhxdhhhyahhh", "modes": "A", "payload": "idx", "style": "corpus:detach-busy-reattach"},
    {"tokens": "hahhxdhhhyahhh", "modes": "A", "payload": "idx", "detach_via": "destroy", "style": "corpus:destroy-busy-reattach"},
    #   detached while idle / with an element still in the slot / producer emits while detached reach nobody
    {"tokens": "hahhdhhxaahhyahhdhh", "modes": "A", "payload": "idx", "style": "corpus:detach-idle-lost-emits"},
    {"tokens": "haxhhhdyhh", "modes": "A", "payload": "idx", "style": "corpus:detach-element-in-slot"},
    {"tokens": "hahhxydhhahh", "modes": "AS", "payload": "falsy", "style": "corpus:detach-reattach-back-to-back"},
    {"tokens": "rhahhxdhhyrahhdhh", "modes": "A", "payload": "idx", "style": "corpus:detach-feedback"},
]


# ------------------------------------------------------------------ checking

def case_json(ex):
    c = {k: v for k, v in ex.case.items()}
    if ex.chooser is not None:
        c["tokens"] = "".join(ex.executed)
    c["kind"] = c.get("style", "?").split(":")[0]
    return c


def norm_state(s):
    # the harness cannot tell `woken` from Orig's `finished` (both: runnable, nobody waiting)
    return s.replace("|F", "|K")


def compare(ex, ans):
    """None when the model accepts the observed trace and agrees with every observation."""
    if "accepted" not in ans:
        return "driver answered %r" % (ans,)
    if not ans["accepted"]:
        i = ans["at"]
        st = ex.steps[i]
        return ("model rejects step %d (%s: actions %r, events %r): action %s is not enabled in model state %s"
                % (i, st["tok"], st["acts"], st["events"], ans["act"], (ans["states"] or ["init"])[-1]))
    for i, (st, ms) in enumerate(zip(ex.steps, ans["states"])):
        if norm_state(ms) != st["obs"]:
            return ("after step %d (%s, actions %r) the node is in state %s, the model in %s"
                    % (i, st["tok"], st["acts"], st["obs"], ms))
    if ans["delivered"] != ex.emits:
        return "emissions %r (to the consumer: %r), model %r" % (ex.emits, ex.deliveries, ans["delivered"])
    if ans["arrived"] != len(ex.arrivals):
        return "arrivals %d, model %d" % (len(ex.arrivals), ans["arrived"])
    if not (ans["quiescent"] and ans["free"]):
        return "run drained (loop idle, consumer free) but the model is not quiescent/free: %r" % (ans,)
    return None


class Batch:
    """Collects executed cases, ships them to the Lean driver in one go, then judges."""

    def __init__(self, ctx):
        self.ctx = ctx
        self.items = []      # (case, steps acts, Exec-lite)
        self.fail = {}       # signature -> (size, text, case)

    def add(self, ex, kind):
        ctx = self.ctx
        case = case_json(ex)
        n = len(ex.arrivals)
        skipped = n - len(set(ex.deliveries))
        nontrivial = n >= 2 and (ex.busy_arrivals > 0 or ex.gap_arrivals > 0)
        ctx.case(case, nontrivial=nontrivial)
        ctx.count("kind:" + kind)
        ctx.count("arrivals:%s" % (n if n < 5 else "5-9" if n < 10 else "10+"))
        ctx.count("modes:" + ("async" if set(ex.modes) == {"A"} else "sync" if set(ex.modes) == {"S"} else "mixed"))
        if ex.busy_arrivals:
            ctx.count("arrival-while-consumer-busy")
        if ex.busy_arrivals >= 2:
            ctx.count("several-arrivals-in-busy-period")
        if ex.gap_arrivals:
            ctx.count("arrival-between-notify-and-resumption")
        if ex.late:
            ctx.count("consumer-attached-late")
            if ex.attached_at and len(ex.arrivals) > ex.attached_at:
                ctx.count("arrivals-before-and-after-late-attachment")
            if len(ex.emits) > len(ex.deliveries):
                ctx.count("element-emitted-to-nobody-before-attachment")
        if ex.detaches:
            ctx.count("node-detached-from-upstream")
            if ex.detach_busy:
                ctx.count("detached-while-consumer-busy")
            if ex.detach_slot:
                ctx.count("detached-with-element-in-slot")
            if ex.done_while_detached:
                ctx.count("consumer-finished-while-detached")
            if ex.lost_emits:
                ctx.count("producer-emit-while-detached(no-arrival)")
            if ex.arrivals_after_reattach:
                ctx.count("arrival-after-re-attach")
            if ex.detached:
                ctx.count("ends-detached")
        if ex.payloads:
            codes = ex.payloads[:len(ex.arrivals)]
            if "N" in codes:
                ctx.count("payload-None")
                if codes and codes[-1] == "N":
                    ctx.count("payload-None-is-newest")
            if any(c in codes for c in "0EFTBLD"):
                ctx.count("payload-other-falsy")
        if ex.reentrant_arrivals:
            ctx.count("re-entrant-arrival-during-delivery")
            if ex.reentrant_arrivals and ex.steps and any("rearrive" in st["events"] and st["events"][-1] != "rearrive"
                                                        for st in ex.steps):
                ctx.count("re-entrant-arrival-delivered-in-same-handle")
        if skipped > 0:
            ctx.count("some-element-skipped")
        ctx.count("quiescent-points-judged", ex.quiescent_points)
        for sig, text in ex.problems:
            size = len(case.get("tokens", ""))
            if sig not in self.fail or size < self.fail[sig][0]:
                self.fail[sig] = (size, text, case)
        self.items.append((case, [s["acts"] for s in ex.steps], ex))

    def judge(self):
        ctx = self.ctx
        lines = [{"op": "trace", "variant": "fixed", "steps": acts} for _, acts, _ in self.items]
        answers = common.lean_driver("Latest", lines) if lines else []
        bad = []
        for (case, acts, ex), ans in zip(self.items, answers):
            why = compare(ex, ans)
            if why is None:
                ctx.coverage["traces_validated_against_impl"] += 1
            else:
                bad.append((case, acts, ex, why))
        if bad:
            # does the observed behaviour follow the ORIGINAL mechanism (Latest.Orig)?
            answers = common.lean_driver("Latest", [{"op": "trace", "variant": "orig", "steps": acts} for _, acts, _, _ in bad])
            for (case, acts, ex, why), ans in zip(bad, answers):
                o = compare(ex, ans)
                # the original mechanism may end non-quiescent-free only by design; ignore that last clause
                is_orig = o is None
                if is_orig:
                    ctx.count("trace-accepted-by-ORIGINAL-model")
                ctx.disagreement("latest vs Model/Latest.lean (fixed mechanism): %s%s"
                                 % (why, " [the trace is accepted step by step by Latest.Orig, the model of the unfixed mechanism]"
                                    if is_orig else ""), case)
        for sig, (size, text, case) in sorted(self.fail.items()):
            ctx.failure(sig, "latest: " + text, case,
                        oracle="deliveries strictly increasing in arrival order, each at most once; "
                               "loop idle and consumer free => last delivery is the newest arrival")
        self.items = []


def directed_sample(ctx):
    """Two situations outside the schedule alphabet: (1) latest has two consumers and the first removes itself (destroy()) while an
    element is being delivered - the other consumer still gets that element and every later one; (2) an arrival that reaches the node
    on another thread than the loop's (a loop-less producer attached with connect(), the loop in its background thread) - the sleeping
    delivery coroutine must be woken.  Both are judged by the property statement alone."""
    import time as _time
    from streamz import Stream
    from tornado.ioloop import IOLoop
    for first in (True, False):
        got, holder = [], {}

        async def main(loop, first=first, got=got, holder=holder):
            src = Stream(asynchronous=True, loop=IOLoop.current())
            lat = src.latest()

            def oneshot(x):
                holder["s"].destroy()
            if first:
                holder["s"] = lat.sink(oneshot)
                lat.sink(got.append)
            else:
                lat.sink(got.append)
                holder["s"] = lat.sink(oneshot)
            for x in (1, 2, 3):
                await src.emit(x)
                await vloop.settle(loop)
        vloop.run(main)
        case = {"directed": "self-removing-consumer", "removed_consumer_attached_first": first}
        ctx.case(case, nontrivial=True)
        ctx.count("directed:self-removing-consumer")
        if got != [1, 2, 3]:
            ctx.failure("latest-lost-wakeup:consumer-removed-during-delivery", "latest with two consumers, one of which destroys itself during "
                        "its first delivery: the other consumer received %r of the arrivals [1, 2, 3] (each delivered while the consumer was free)" % (got,), case)
    # (3) latest feeding a combining / batching node whose update() returns a NESTED result (zip_latest returns a list of lists of
    # awaitables): the delivery coroutine must survive it and go on delivering the newest element
    for below in ("zip_latest", "combine_latest", "zip", "union", "sliding_window", "map"):
        got, errs = [], []

        async def main(loop, below=below, got=got, errs=errs):
            src = Stream(asynchronous=True, loop=IOLoop.current())
            other = Stream(asynchronous=True, loop=IOLoop.current())
            lat = src.latest()
            node = {"zip_latest": lambda: lat.zip_latest(other), "combine_latest": lambda: lat.combine_latest(other),
                    "zip": lambda: lat.zip(other), "union": lambda: lat.union(other),
                    "sliding_window": lambda: lat.sliding_window(1), "map": lambda: lat.map(lambda x: x)}[below]()
            gates = []

            async def consumer(x):
                got.append(x)
                fut = loop.create_future()
                gates.append(fut)
                await fut
            s1 = node.sink(consumer)
            s2 = node.sink(consumer)         # two consumers: every delivery yields a list of awaitables

            async def free():
                while gates:
                    gates.pop(0).set_result(None)
                    await vloop.settle(loop)
            if below in ("zip_latest", "combine_latest"):
                other.emit("c")
                await vloop.settle(loop)
                await free()
            elif below == "zip":
                for _ in range(4):
                    other.emit("c")
                await vloop.settle(loop)
            for burst in ([1], [2, 3], [4]):          # idle arrival; two arrivals while busy; idle arrival again
                for x in burst:
                    src.emit(x)
                    await vloop.settle(loop)
                await free()
            del s1, s2
        try:
            vloop.run(main)
        except Exception as e:      # noqa: BLE001
            errs.append(repr(e))
        case = {"directed": "latest-feeds-nested-result", "below": below}
        ctx.case(case, nontrivial=True)
        ctx.count("directed:latest-feeds:" + below)

        def first(v):
            while isinstance(v, (tuple, list)):
                v = v[0]
            return v
        seen = [first(v) for v in got if first(v) != "c"]
        lasts = [x for i, x in enumerate(seen) if i == 0 or seen[i - 1] != x]     # (two consumers: each value twice)
        if errs or not lasts or lasts[-1] != 4 or 1 not in lasts or 3 not in lasts or lasts != sorted(lasts):
            ctx.failure("latest-lost-wakeup:nested-result-below", "source -> latest -> %s -> two awaiting consumers; arrivals 1 (idle), 2 and 3 (while busy), 4 (idle): "
                        "the consumers received %r (expected 1, then 3 - or 2 and 3 -, then 4)%s" % (below, got, "; raised " + errs[0] if errs else ""), case)
    # (4) the very same object arrives again while it is being delivered, another element in between (a, b, a): the newest arrival is
    # `a` once more and must be delivered after the consumer becomes free
    for mode in ("awaiting", "sync"):
        got = []

        async def main(loop, mode=mode, got=got):
            src = Stream(asynchronous=True, loop=IOLoop.current())
            lat = src.latest()
            gates = []

            async def consumer(x):
                got.append(x)
                if mode == "awaiting":
                    fut = loop.create_future()
                    gates.append(fut)
                    await fut
            s_ = lat.sink(consumer)
            a, b = ["a"], ["b"]
            src.emit(a)
            await vloop.settle(loop)
            src.emit(b)
            src.emit(a)
            await vloop.settle(loop)
            for _ in range(4):
                while gates:
                    gates.pop(0).set_result(None)
                    await vloop.settle(loop)
                await vloop.settle(loop)
            got[:] = ["a" if x is a else "b" if x is b else repr(x) for x in got]
            del s_
        vloop.run(main)
        case = {"directed": "same-object-again", "consumer": mode}
        ctx.case(case, nontrivial=True)
        ctx.count("directed:same-object-again")
        if len(got) < 2 or got[0] != "a" or got[-1] != "a":
            ctx.failure("latest-lost-wakeup:same-object-again", "latest with a %s consumer; arrivals a, then (while a is handled) b and the SAME object a again: "
                        "delivered %r - the element received last (a) must be the one delivered last" % (mode, got), case)
    # (2)
    src = Stream(asynchronous=False)
    lat = src.latest()
    got = lat.sink_to_list()
    other = Stream()
    other.connect(lat)
    sent = []
    for x in ("a", "b", "c"):
        other.emit(x)                   # runs latest.update on THIS thread; the node's loop lives in the background thread
        sent.append(x)
        t0 = _time.time()
        while (not got or got[-1] != x) and _time.time() - t0 < 20:
            _time.sleep(0.005)
    case = {"directed": "arrival-from-another-thread"}
    ctx.case(case, nontrivial=True)
    ctx.count("directed:arrival-from-another-thread")
    if got != sent:
        ctx.failure("latest-lost-wakeup:off-thread-arrival", "elements %r arrived one by one from another thread (each after the previous one had been "
                    "delivered, or 20 s later); delivered %r" % (sent, got), case)


def run(ctx):
    ctx.audit()
    directed_sample(ctx)
    ctx.assumptions += [
        "elements are identified by arrival index (the harness emits distinct objects and recognises them by identity)",
        "update() is called on the loop thread (Stream.emit guarantees it: synchronous emit goes through sync(loop, ...))",
        "the event loop runs ready handles in FIFO order; the model allows ANY order of the queued notify callbacks and the "
        "coroutine's resumption, so every real schedule is a model schedule",
        "the consumer completes every awaitable it returns (otherwise 'the consumer becomes free' never happens)",
        "while latest() has no downstream an emission goes to nobody: in the model that is `resume` immediately followed by "
        "`consumerDone` (a delivery whose consumer is free at once); the model's delivery log is compared with ALL emissions of the "
        "node, the oracle looks only at what the consumer received and claims 'newest delivered' only for elements that arrived "
        "after the consumer was attached (an element received at or after attachment is necessarily emitted after it, hence to the consumer)",
        "an emission to nobody is observed through a logging wrapper installed as the instance attribute latest._emit",
        "rewiring (upstream.disconnect(latest) / latest.destroy() / upstream.connect(latest)) is NOT a model action: the node's "
        "transition system is unchanged by it; what the producer emits while the node is detached does not reach the node, is "
        "not an `arrive` and carries no claim (the harness checks that the node's observable state does not change on it); "
        "everything that did reach the node — before, and after re-attachment — is subject to all statements, in particular "
        "'newest delivered once the loop is idle and the consumer free' also while the node is (still) detached",
        "a re-entrant arrival (the consumer emits into the upstream of latest during the call that hands it an element) is "
        "the model action `arrive` taken in state `emitting`, inside the handle that performed `resume`; arrivals from other "
        "threads are excluded (update runs on the loop thread)",
        "observation of the node: latest.next, a logging subclass of tornado.locks.Condition installed as latest._condition, "
        "the loop's ready queue (CPython private _ready), a sink whose awaitable the harness completes",
    ]
    batch = Batch(ctx)
    for c in CORPUS:
        batch.add(execute(dict(c)), "corpus")
    n_random = 10000 if ctx.thorough() else 300
    for _ in range(n_random):
        batch.add(execute(gen_case(ctx.rng)), "random")
    # (consumer modes, max arrivals, may the consumer re-enter at each delivery)
    exh = [("A", 4, False), ("A", 3, True), ("AS", 4, True), ("SA", 3, True), ("S", 4, True)]
    if ctx.thorough():
        exh = [("A", 5, True), ("AS", 5, True), ("SA", 5, True), ("S", 6, True), ("AAS", 4, True)]
    cap = 1000000 if ctx.thorough() else 60000     # > 10x the size of the largest tree of a conforming node
    for modes, nmax, reentry in exh:
        broken = False
        for n in range(1, nmax + 1):
            k = 0
            for ex in enumerate_paths({"max_arrivals": n, "modes": modes, "payload": "idx", "style": "exhaustive",
                                       "reentry": reentry}):
                batch.add(ex, "exhaustive")
                ctx.count("exhaustive:%s%s:%d" % (modes, ":reentry" if reentry else "", n))
                k += 1
                if ex.problems:
                    # the property already fails on this interleaving: exhaustiveness has nothing to add
                    # (and a misbehaving node can make the tree explode)
                    broken = True
                    break
                if k >= cap:
                    ctx.count("exhaustive-truncated:%s:%d" % (modes, n))
                    ctx.unchecked.append("exhaustive enumeration for modes=%s, %d arrivals exceeded %d interleavings "
                                         "(a conforming node has < %d): not exhaustive" % (modes, n, cap, cap // 10))
                    broken = True
                    break
            if broken:
                break
    # ... with None / falsy singleton payloads in every position, and with the consumer attached late
    extra = [({"modes": "A", "payloads": "N0", "reentry": True}, 2), ({"modes": "A", "payloads": "0N", "reentry": True}, 2),
             ({"modes": "A", "payloads": "0EN", "reentry": True}, 3)]
    extra += [({"modes": "S", "payloads": pl, "reentry": True}, 4) for pl in ("NTB0", "TNB0", "TB0N")]
    extra += [({"modes": "A", "late": True}, 3), ({"modes": "S", "late": True}, 3), ({"modes": "AS", "late": True}, 2)]
    # ... with one detach / re-attach of the node placed everywhere (producer emits while detached count towards the bound)
    extra += [({"modes": "A", "rewire": True, "reentry": True}, 2), ({"modes": "S", "rewire": True}, 3),
              ({"modes": "AS", "rewire": True, "detach_via": "destroy"}, 2)]
    if ctx.thorough():
        extra += [({"modes": "S", "late": True}, 4), ({"modes": "AS", "late": True}, 3)]
        extra += [({"modes": "AS", "rewire": True}, 3), ({"modes": "A", "rewire": True}, 3),
                  ({"modes": "S", "rewire": True, "max_detach": 2}, 3)]
        extra += [({"modes": "A", "payloads": pl, "reentry": True}, 4) for pl in ("N0EF", "0NEF", "0ENF", "0EFN")]
        extra += [({"modes": "A", "late": True, "reentry": True}, 4), ({"modes": "SA", "late": True, "payloads": "0N"}, 4)]
    for base, nmax in extra:
        broken = False
        tag = "exhaustive:%s%s%s%s" % (base["modes"], ":late" if base.get("late") else "",
                                       ":rewire" if base.get("rewire") else "",
                                       ":" + base["payloads"] if base.get("payloads") else "")
        for n in range(1, nmax + 1):
            k = 0
            for ex in enumerate_paths(dict(base, max_arrivals=n, payload="idx", style="exhaustive")):
                batch.add(ex, "exhaustive")
                ctx.count("%s:%d" % (tag, n))
                k += 1
                if ex.problems:
                    broken = True
                    break
                if k >= cap:
                    ctx.unchecked.append("exhaustive enumeration %s, %d arrivals exceeded %d interleavings: not exhaustive"
                                         % (tag, n, cap))
                    broken = True
                    break
            if broken:
                break
    batch.judge()
    ctx.coverage["rule"] = (
        "corpus (incl. the two Lean witness schedules) + seeded schedules over {arrive, run one ready handle, complete consumer, "
        "re-entrant arrival = the consumer itself emits during the next delivery} "
        "in 8 styles (uniform, arrivals one loop turn apart, bursts during a busy period, eager/slow loop, synchronous consumer, "
        "feedback cycles), consumer mode per delivery async/sync, 3 payload kinds; + EXHAUSTIVE enumeration of every maximal "
        "interleaving with <= 4 arrivals (quick; <= 5 thorough) for async, sync and alternating consumers, where at every delivery "
        "the consumer may or may not re-enter (quick: async-only consumer with re-entry up to 3 arrivals, without up to 4); further exhaustive trees with None / falsy singleton payloads in every position and with "
        "the consumer attached late (`c` = connect, interleaved everywhere; before it the node emits to nobody).  Payloads are "
        "recognised by identity only (None, 0, '', False, (), b'', [], {} are all used).  With a late consumer the 'newest delivered' "
        "claim is made only when something arrived after the attachment.  "
        "Rewiring: schedule letters x (detach latest from its upstream: disconnect or destroy) and y (re-attach) in a dedicated style, "
        "dropped into the other styles, and in exhaustive trees with one detach/re-attach placed everywhere (idle, consumer busy, "
        "element in the slot, consumer finishing while detached); producer emits while detached are not arrivals.  Every run is drained at the end and the oracle "
        "is evaluated at every point where the loop is idle.  Non-trivial: >= 2 arrivals and at least one arrival while the "
        "consumer is busy or between a notify callback and the coroutine's resumption.  Distinct = distinct schedule JSON.")


def replay(ctx, data):
    ctx.audit()
    if data["case"].get("directed"):
        directed_sample(ctx)
        ctx.coverage["rule"] = "replay: directed sample"
        return
    batch = Batch(ctx)
    batch.add(execute(dict(data["case"])), "replay")
    batch.judge()
    ctx.coverage["rule"] = "replay of one recorded schedule"
