"""C17 — file-based sources deliver every record exactly once however the data arrives.

Lean: Model/TextFile.lean, Props/C17.lean (chunking independence of `split`,
conservation, record well-formedness, filenames exactly-once / sorted).
Correspondence (this file), three streams of cases:
  split      Python `str.split` vs the model's `split` (ties the modelled builtin);
  textfile   the real `Stream.from_textfile` on a real temp file written in random
             chunks with polls placed between chunks, on the virtual-time loop,
             vs the model fed the same reads, and vs the model-free oracle;
  filenames  the real `Stream.filenames` on a temp directory vs model and oracle.
"""
import asyncio
import os
import shutil
import tempfile

from tornado.ioloop import IOLoop

from .. import common, vloop

ALPHABETS = ["ab", "abc", "ab\n", "a\n"]


def gen_delim(rng, alpha):
    n = rng.choice([1, 1, 2, 2, 3])
    return "".join(rng.choice(alpha) for _ in range(n))


def gen_text(rng, alpha, d, maxlen):
    # mostly built from delimiter-ish fragments so that occurrences, overlaps and
    # near-misses are frequent
    out = []
    n = rng.randint(0, maxlen)
    while sum(map(len, out)) < n:
        r = rng.random()
        if r < 0.35:
            out.append(d)
        elif r < 0.55 and len(d) > 1:
            out.append(d[:rng.randint(1, len(d) - 1)])
        else:
            out.append(rng.choice(alpha))
    return "".join(out)


def chunk_text(rng, text):
    """Random composition of `text` into chunks (never empty)."""
    cuts = sorted(rng.sample(range(1, len(text)), rng.randint(0, min(6, len(text) - 1)))) if len(text) > 1 else []
    return [text[i:j] for i, j in zip([0] + cuts, cuts + [len(text)])] if text else []


# ------------------------------------------------------------------ oracle

def oracle_text(d, whole, emitted):
    """Property statement on observations only.  Returns None or a description."""
    parts = whole.split(d)
    want = [p + d for p in parts[:-1]]
    if emitted != want:
        # classify
        if len(emitted) > len(want) and not want[len(want):]:
            pass
        return "records delivered %r, records of the text %r" % (emitted, want)
    for r in emitted:
        if not r.endswith(d) or r.find(d) != len(r) - len(d):
            return "malformed record %r" % (r,)
    return None


# ------------------------------------------------------------------ impl runners

def run_textfile_impl(case, scratch):
    """case: {delim, from_end, pre, ops:[["w",chunk]|["p"]], poll}.  Returns list of (emitted so far) after each op."""
    import streamz  # noqa: F401  (import from /repo working tree)
    from streamz import Stream
    path = os.path.join(scratch, "f.txt")
    with open(path, "w", newline="") as f:
        f.write(case["pre"])
    got = []
    snaps = []

    async def main(loop):
        # the file is given as a path or as an already opened file object (both documented)
        target = open(path, newline="") if case.get("as_object") else path
        src = Stream.from_textfile(target, poll_interval=0.5, delimiter=case["delim"], from_end=case["from_end"],
                                   asynchronous=True, loop=IOLoop.current())
        state = {"failed": False}

        def consume(rec):
            got.append(rec)
            if case.get("fail_rec") is not None and not state["failed"] and len(got) - 1 == case["fail_rec"]:
                state["failed"] = True
                raise ValueError("consumer failed on this record")
        src.sink(consume)
        src.start()
        await vloop.settle(loop)
        snaps.append(list(got))
        w = open(path, "a", newline="")
        try:
            for op in case["ops"]:
                if op[0] == "w":
                    w.write(op[1])
                    w.flush()
                elif op[0] == "stop":
                    src.stop()
                    await vloop.settle(loop)
                elif op[0] == "start":
                    src.start()
                    await vloop.settle(loop)
                else:
                    await vloop.advance(0.5, loop)
                snaps.append(list(got))
            src.stop()
            await vloop.advance(0.5, loop)
        finally:
            w.close()
            try:
                src.file.close()
            except Exception:
                pass
        return snaps

    return vloop.run(main)


def reads_of(case):
    """The reads the source performs (an initial one at start, one per poll while a loop is running, one at each
    restart) and, per op, the index of the read it triggered.  With `fail_rec`, the consumer raises on that delivered
    record (0-based): the polling loop dies there and only comes back with stop() + start()."""
    reads, per_op, fails = [], [], {}
    d = case["delim"]
    st = {"pending": "" if case["from_end"] else case["pre"], "buffer": "", "delivered": 0, "alive": True, "stopped": False, "failed": False}

    def do_read():
        chunk, st["pending"] = st["pending"], ""
        reads.append(chunk)
        if chunk:
            parts = (st["buffer"] + chunk).split(d)
            st["buffer"] = parts.pop(-1)
            n = len(parts)
            fr = case.get("fail_rec")
            if fr is not None and not st["failed"] and st["delivered"] <= fr < st["delivered"] + n:
                fails[len(reads) - 1] = fr - st["delivered"]
                st["delivered"] = fr + 1
                st["failed"] = True
                st["alive"] = False
            else:
                st["delivered"] += n
        return len(reads) - 1
    do_read()
    for op in case["ops"]:
        if op[0] == "w":
            st["pending"] += op[1]
            per_op.append(None)
        elif op[0] == "stop":
            st["stopped"] = True
            per_op.append(None)
        elif op[0] == "start":
            if st["stopped"]:
                st["stopped"] = False
                st["alive"] = True
                per_op.append(do_read())
            else:
                per_op.append(None)      # start() on a source that is not stopped does nothing (even if its loop died)
        elif st["stopped"]:
            st["alive"] = False          # a sleeping loop wakes up, sees `stopped` and exits
            per_op.append(None)
        elif st["alive"]:
            per_op.append(do_read())
        else:
            per_op.append(None)
    case["_fails"] = fails
    return reads, per_op


def run_filenames_impl(case, scratch):
    from streamz import Stream
    d = os.path.join(scratch, "dir")
    os.makedirs(d)
    for n in case["pre"]:
        open(os.path.join(d, "f%03d" % n), "w").close()
    got = []
    snaps = []

    async def main(loop):
        # the documented spellings of the path: a directory, a directory with a trailing separator, a glob
        target = {"dir": d, "dirsep": d + os.path.sep, "glob": os.path.join(d, "*")}[case["style"]]
        src = Stream.filenames(target, poll_interval=0.5, asynchronous=True, loop=IOLoop.current())
        state = {"failed": False}

        def consume(path):
            got.append(path)
            if case.get("fail_on") is not None and not state["failed"] and os.path.basename(path)[1:] == str(case["fail_on"]).zfill(3):
                state["failed"] = True
                raise ValueError("consumer failed on this path")
        src.sink(consume)
        src.start()
        await vloop.settle(loop)
        snaps.append(list(got))
        for op in case["ops"]:
            if op[0] == "c":
                for n in op[1]:
                    open(os.path.join(d, "f%03d" % n), "w").close()
            elif op[0] == "stop":
                src.stop()
                await vloop.settle(loop)
            elif op[0] == "start":
                src.start()
                await vloop.settle(loop)
            else:
                await vloop.advance(0.5, loop)
            snaps.append(list(got))
        src.stop()
        await vloop.advance(0.5, loop)
        # a second, independent source over the same directory (same process): it has seen nothing yet
        src2 = Stream.filenames(target, poll_interval=0.5, asynchronous=True, loop=IOLoop.current())
        src2.sink(second.append)
        src2.start()
        await vloop.settle(loop)
        src2.stop()
        await vloop.advance(0.5, loop)
        return snaps

    second = []
    snaps = vloop.run(main)
    def num(p):
        b = os.path.basename(p)
        return int(b[1:]) if b[1:].isdigit() else -1        # anything that is not one of the files (e.g. the directory itself)
    case["_second"] = [num(p) for p in second]
    case["_present"] = sorted(int(f[1:]) for f in os.listdir(d))
    return [[num(p) for p in s] for s in snaps]


# ------------------------------------------------------------------ cases

def gen_text_case(rng):
    alpha = rng.choice(ALPHABETS)
    d = gen_delim(rng, alpha) if rng.random() < 0.85 else "\n"
    text = gen_text(rng, alpha, d, rng.choice([4, 10, 24]))
    pre = gen_text(rng, alpha, d, 6) if rng.random() < 0.5 else ""
    ops = []
    for c in chunk_text(rng, text):
        ops.append(["w", c])
        r = rng.random()
        if r < 0.55:
            ops.append(["p"])
        if r < 0.1:
            ops.append(["p"])       # an empty read in between
    ops.append(["p"])
    if rng.random() < 0.3 and len(ops) > 3:
        # stop the source somewhere, keep writing while it is stopped, let a poll interval pass, start it again
        i = rng.randrange(1, len(ops) - 1)
        j = rng.randrange(i, len(ops) - 1)
        ops = ops[:i] + [["stop"]] + [o for o in ops[i:j] if o[0] == "w"] + [["p"], ["start"]] + ops[j:]
    case = {"kind": "textfile", "delim": d, "from_end": rng.random() < 0.4, "pre": pre, "ops": ops, "as_object": rng.random() < 0.4}
    if rng.random() < 0.2:
        nrec = max(1, len(text.split(d)) - 1)
        case["fail_rec"] = rng.randrange(0, nrec)
        i = rng.randrange(1, len(ops) + 1)
        extra = gen_text(rng, alpha, d, 6) + d
        case["ops"] = ops[:i] + [["stop"], ["p"], ["start"]] + ops[i:] + [["stop"], ["p"], ["start"], ["w", extra], ["p"]]
    return case


def gen_files_case(rng):
    universe = rng.sample(range(0, 40), rng.randint(1, 9))
    rng.shuffle(universe)
    pre = [universe.pop() for _ in range(rng.randint(0, min(2, len(universe))))]
    ops = []
    while universe:
        k = rng.randint(1, min(3, len(universe)))
        ops.append(["c", [universe.pop() for _ in range(k)]])
        if rng.random() < 0.6:
            ops.append(["p"])
    ops.append(["p"])
    if rng.random() < 0.3:
        ops.append(["p"])
    case = {"kind": "filenames", "style": rng.choice(["dir", "glob", "dirsep"]), "pre": pre, "ops": ops}
    if rng.random() < 0.3:
        names = sorted(set(pre) | {n for o in ops if o[0] == "c" for n in o[1]})
        case["fail_on"] = rng.choice(names)
        i = rng.randrange(0, len(ops))
        case["ops"] = ops[:i] + [["stop"], ["p"], ["start"]] + ops[i:] + [["stop"], ["p"], ["start"], ["p"]]
    return case


def gen_split_case(rng):
    alpha = rng.choice(ALPHABETS)
    d = gen_delim(rng, alpha)
    return {"kind": "split", "delim": d, "text": gen_text(rng, alpha, d, rng.choice([3, 8, 20]))}


# ------------------------------------------------------------------ checking

def model_lines(case):
    if case["kind"] == "split":
        return [{"op": "reset", "model": "textfile", "delim": case["delim"]}, {"op": "chunk", "s": case["text"]}]
    if case["kind"] == "textfile":
        reads, _ = reads_of(case)
        fails = case.pop("_fails", {})
        lines = [{"op": "reset", "model": "textfile", "delim": case["delim"]}]
        for i, r in enumerate(reads):
            line = {"op": "chunk", "s": r}
            if i in fails:
                line["fail_at"] = fails[i]
            lines.append(line)
        return lines
    if case["kind"] == "filenames":
        lines = [{"op": "reset", "model": "filenames"}]
        for _i, pres, fail in file_polls(case):
            line = {"op": "listing", "l": sorted(pres)}
            if fail is not None:
                line["fail_on"] = fail
            lines.append(line)
        return lines
    raise ValueError(case["kind"])


def file_polls(case):
    """The polls the source performs: (index of the op after which it is observed, files present, failing path or None).
    A consumer that raises ends the polling loop; it only comes back with stop() + start() (start() alone is a no-op
    on a source that is not stopped)."""
    present = set(case["pre"])
    polls = []
    alive, stopped, failed = True, False, False
    delivered = set()

    def poll(i):
        nonlocal alive, failed
        new = sorted(present - delivered)
        fail = None
        if case.get("fail_on") is not None and not failed and case["fail_on"] in new:
            fail = case["fail_on"]
            new = new[:new.index(fail) + 1]
            failed = True
            alive = False
        delivered.update(new)
        polls.append((i, set(present), fail))
    poll(-1)
    for i, op in enumerate(case["ops"]):
        if op[0] == "c":
            present |= set(op[1])
        elif op[0] == "stop":
            stopped = True
            alive = False if not alive else alive
        elif op[0] == "start":
            if stopped:
                stopped = False
                alive = True
                poll(i)
        elif alive and not stopped:
            poll(i)
        elif alive and stopped:
            alive = False       # the sleeping loop wakes up, sees `stopped` and exits
    return polls


def check_case(ctx, case, answers, scratch):
    """Run implementation + oracle (+ compare with the model's `answers`, if given)."""
    kind = case["kind"]
    ctx.count("kind:" + kind)
    if kind == "split":
        d, t = case["delim"], case["text"]
        parts = t.split(d)
        impl = {"emit": [p + d for p in parts[:-1]], "buffer": parts[-1]}
        ctx.case(case, nontrivial=len(parts) > 1)
        if answers is not None and (answers[1].get("emit") != impl["emit"] or answers[1].get("buffer") != impl["buffer"]):
            ctx.disagreement("model split differs from str.split on %r / %r: %r vs %r" % (d, t, answers[1], impl), case)
        return
    sub = tempfile.mkdtemp(dir=scratch)
    try:
        if kind == "textfile":
            snaps = run_textfile_impl(case, sub)
            reads, per_op = reads_of(case)
            d = case["delim"]
            # oracle at every poll point and at the end
            case.pop("_fails", None)
            whole = reads[0]
            err = None
            if case.get("fail_rec") is None:
                err = oracle_text(d, whole, snaps[0])
                i = 0
                while err is None and i < len(case["ops"]):
                    if per_op[i] is not None:
                        whole += reads[per_op[i]]
                    err = oracle_text(d, whole, snaps[i + 1])
                    i += 1
            else:
                # a consumer raised once: no exactly-once claim for the rest of that read, but never a record twice and
                # never out of order: the deliveries are a subsequence of the records of the text, and everything read
                # after the restart is delivered
                whole = "".join(reads)
                recs = [p + d for p in whole.split(d)[:-1]]
                it = iter(recs)
                final = snaps[-1]
                if not all(any(r == x for x in it) for r in final):
                    err = "after a consumer failure and a restart the deliveries %r are not an in-order duplicate-free selection of the records %r" % (final, recs)
            nontrivial = len(snaps[-1]) >= 1 and any(len(r) and r.count(d) == 0 for r in reads)
            ctx.case(case, nontrivial=nontrivial)
            if len(d) > 1:
                ctx.count("multichar-delim")
            if any(r and d not in r for r in reads):
                ctx.count("read-without-delim")
            if err is not None:
                ctx.failure("textfile:" + ("from_end" if case["from_end"] else "plain"),
                            "from_textfile: " + err, case, oracle="records == one-pass split of text read so far")
            if answers is not None:
                model_emits = []
                for a in answers[1:]:
                    if "emit" not in a:
                        ctx.disagreement("model answered %r" % (a,), case)
                        return
                    model_emits += a["emit"]
                if model_emits != snaps[-1]:
                    ctx.disagreement("from_textfile emitted %r, model %r" % (snaps[-1], model_emits), case)
                else:
                    ctx.coverage["traces_validated_against_impl"] += 1
        elif kind == "filenames":
            snaps = run_filenames_impl(case, sub)
            second, present = case.pop("_second"), case.pop("_present")
            if second != present:
                ctx.failure("filenames:second-source", "a second filenames source over the same directory, started after the first one was "
                            "stopped, emitted %r; the directory holds %r (each source delivers every path once)" % (second, present), case,
                            oracle="every source delivers every path exactly once")
            # oracle: batch added at each poll is sorted and = new files; no duplicates overall
            seen = []
            err = None
            prev = []
            polls = file_polls(case)
            for i, pres, fail in polls:
                cur = snaps[i + 1]
                batch = cur[len(prev):]
                if cur[:len(prev)] != prev:
                    err = "history rewritten"
                want = sorted(pres - set(seen))
                if fail is not None:
                    want = want[:want.index(fail) + 1]      # the consumer raised on `fail`: the rest waits for the next poll
                if batch != want:
                    err = "poll emitted %r, new paths sorted are %r" % (batch, want)
                    break
                seen += batch
                prev = cur
            ctx.case(case, nontrivial=len(polls) > 2)
            if err is not None:
                ctx.failure("filenames", "filenames: " + err, case, oracle="each poll emits sorted(new paths), nothing twice")
            if answers is not None:
                model = [a.get("emit") for a in answers[1:]]
                flat = [x for b in model for x in (b or [])]
                if flat != snaps[-1]:
                    ctx.disagreement("filenames emitted %r, model %r" % (snaps[-1], flat), case)
                else:
                    ctx.coverage["traces_validated_against_impl"] += 1
    finally:
        shutil.rmtree(sub, ignore_errors=True)


CORPUS = [
    {"kind": "textfile", "delim": "\n", "from_end": False, "pre": "", "fail_rec": 1,
     "ops": [["w", "a\nb\nc\n"], ["p"], ["stop"], ["p"], ["start"], ["w", "d\n"], ["p"]]},
    {"kind": "textfile", "delim": "\n", "from_end": True, "pre": "old\n", "ops": [["w", "r1\npar"], ["p"], ["stop"], ["w", "tial\nr3\n"], ["p"], ["start"], ["w", "r4\n"], ["p"]]},
    {"kind": "filenames", "style": "dir", "pre": [1, 2, 3], "fail_on": 2, "ops": [["p"], ["stop"], ["p"], ["start"], ["c", [4]], ["p"]]},
    {"kind": "textfile", "delim": "aa", "from_end": False, "pre": "", "ops": [["w", "xa"], ["p"], ["w", "a"], ["p"], ["w", "yaaa"], ["p"], ["p"], ["w", "az"], ["p"]]},
    {"kind": "textfile", "delim": "\n", "from_end": True, "pre": "old\nhalf", "ops": [["w", "x\ny"], ["p"], ["w", "\n"], ["p"]]},
    {"kind": "textfile", "delim": "ab", "from_end": False, "pre": "ca", "ops": [["w", "b"], ["w", "a"], ["p"], ["w", "bab"], ["p"]]},
    {"kind": "filenames", "style": "dir", "pre": [5], "ops": [["c", [3, 9]], ["p"], ["c", [1]], ["c", [7]], ["p"], ["p"]]},
]


def pending_consumer_cases(ctx, scratch, cases=None):
    """from_textfile with a consumer that returns an awaitable (the source waits between the records of one read): stop() while a
    multi-record read is being handed over, start() again later - every terminated record is still delivered exactly once, in file order.
    Oracle only (the model has no suspension inside a read)."""
    from streamz import Stream
    if cases is None:
        cases = [{"pending_consumer": True, "first": first, "stop_at": k, "delim": d}
                 for first in (3, 5) for k in (0, 1, first - 1) for d in ("\n", "ab")]
    for ci, case in enumerate(cases):
        d, first, stop_at = case["delim"], case["first"], case["stop_at"]
        path = os.path.join(scratch, "pend%d.txt" % ci)
        open(path, "w").close()
        got, recs = [], ["r%d" % i + d for i in range(first + 2)]

        async def main(loop, path=path, got=got, recs=recs, d=d, first=first, stop_at=stop_at):
            src = Stream.from_textfile(path, poll_interval=0.5, delimiter=d, asynchronous=True, loop=IOLoop.current())
            pend = []

            def consume(rec):
                got.append(rec)
                f = loop.create_future()
                pend.append(f)
                return f
            src.sink(consume)
            src.start()
            await vloop.settle(loop)
            with open(path, "a", newline="") as w:
                w.write("".join(recs[:first]))
            await vloop.advance(0.5, loop)
            await vloop.settle(loop)
            done = 0
            stopped = False
            for _ in range(40):
                if not stopped and len(got) == stop_at + 1:
                    src.stop()                       # in the middle of the hand-over of one read
                    stopped = True
                    await vloop.settle(loop)
                if done < len(pend):
                    pend[done].set_result(None)
                    done += 1
                    await vloop.settle(loop)
                else:
                    break
            await vloop.advance(1.0, loop)
            src.start()
            await vloop.settle(loop)
            with open(path, "a", newline="") as w:
                w.write("".join(recs[first:]))
            for _ in range(12):
                await vloop.advance(0.5, loop)
                await vloop.settle(loop)
                while done < len(pend):
                    pend[done].set_result(None)
                    done += 1
                    await vloop.settle(loop)
            src.stop()
            await vloop.advance(0.5, loop)
            try:
                src.file.close()
            except Exception:       # noqa: BLE001
                pass
        vloop.run(main)
        ctx.case(case, nontrivial=True)
        ctx.count("textfile:pending-consumer")
        if got != recs:
            ctx.failure("textfile:stop-during-read", "from_textfile(delimiter=%r), consumer returning an awaitable: %d records in one read, stop() while record %d was being "
                        "handled, start() later, two more records: delivered %r, records of the text %r" % (d, first, stop_at, got, recs), case,
                        oracle="every delimiter-terminated record is emitted exactly once, in file order")


def nested_glob_cases(ctx, scratch, cases=None):
    """filenames() over a glob that spans several directories: every matching path once, each poll's batch in sorted (path) order."""
    from streamz import Stream
    if cases is None:
        cases = [{"nested_glob": [["2024-01/b", "2024-01/z", "2024-02/a", "2024-03/c"], ["2024-02/y", "2024-01/m"]]},
                 {"nested_glob": [["b/1", "a/2"], ["a/1", "c/0", "b/0"]]}]
    for ci, case in enumerate(cases):
        root = os.path.join(scratch, "nest%d" % ci)
        batches_seen = []

        async def main(loop, case=case, root=root, batches_seen=batches_seen):
            os.makedirs(root)
            src = Stream.filenames(os.path.join(root, "*", "*.csv"), poll_interval=0.5, asynchronous=True, loop=IOLoop.current())
            got = src.sink_to_list()
            src.start()
            await vloop.settle(loop)
            for batch in case["nested_glob"]:
                before = len(got)
                for rel in batch:
                    dd = os.path.join(root, os.path.dirname(rel))
                    os.makedirs(dd, exist_ok=True)
                    open(os.path.join(root, rel + ".csv"), "w").close()
                await vloop.advance(0.5, loop)
                await vloop.settle(loop)
                batches_seen.append([os.path.relpath(p_, root)[:-4] for p_ in got[before:]])
            src.stop()
            await vloop.advance(0.5, loop)
        vloop.run(main)
        ctx.case(case, nontrivial=True)
        ctx.count("filenames:nested-glob")
        want = [sorted(b) for b in case["nested_glob"]]
        if batches_seen != want:
            ctx.failure("filenames:nested-glob", "filenames('root/*/*.csv'), files created per poll %r: polls emitted %r, sorted new paths are %r"
                        % (case["nested_glob"], batches_seen, want), case, oracle="every matching path exactly once, in sorted order per poll")


def run(ctx):
    ctx.audit()
    ctx.assumptions += [
        "text is the decoded character stream returned by file.read() (newline translation happens below from_textfile)",
        "paths are modelled as naturals; the harness uses zero-padded names so string order = numeric order",
        "a poll reads everything appended since the previous poll (files are flushed by the harness before each poll)",
    ]
    n_split, n_text, n_files = (300, 120, 60) if not ctx.thorough() else (20000, 4000, 1500)
    cases = list(CORPUS)
    cases += [gen_split_case(ctx.rng) for _ in range(n_split)]
    cases += [gen_text_case(ctx.rng) for _ in range(n_text)]
    cases += [gen_files_case(ctx.rng) for _ in range(n_files)]
    lines, spans = [], []
    for c in cases:
        ml = model_lines(c)
        spans.append((len(lines), len(lines) + len(ml)))
        lines += ml
    answers = common.lean_driver("TextFile", lines)
    scratch = tempfile.mkdtemp(prefix="verif-c17-", dir=os.environ.get("VERIF_SCRATCH"))
    try:
        for c, (a, b) in zip(cases, spans):
            check_case(ctx, c, answers[a:b], scratch)
        pending_consumer_cases(ctx, scratch)
        nested_glob_cases(ctx, scratch)
    finally:
        shutil.rmtree(scratch, ignore_errors=True)
    ctx.coverage["rule"] = (
        "corpus + seeded generator; split cases: delimiter of 1-3 chars over a 2-3 letter alphabet and delimiter-rich text; "
        "textfile cases: real temp file written in random chunks with polls between chunks, from_end on/off; filenames cases: "
        "random creation orders between polls. Non-trivial: split with >=1 occurrence / textfile run that emitted >=1 record and had a "
        "read without delimiter / filenames run with >=2 polls. Distinct = distinct case JSON.")


def replay(ctx, data):
    ctx.audit()
    scratch = tempfile.mkdtemp(prefix="verif-c17-")
    try:
        if data["case"].get("pending_consumer"):
            pending_consumer_cases(ctx, scratch, [data["case"]])
        elif data["case"].get("nested_glob"):
            nested_glob_cases(ctx, scratch, [data["case"]])
        else:
            check_case(ctx, data["case"], None, scratch)
    finally:
        shutil.rmtree(scratch, ignore_errors=True)
    ctx.coverage["rule"] = "replay of one recorded case"
