"""C20 — a Dask-backed pipeline is observationally equivalent to the local one.

Lean: Model/Dask.lean, Proofs/Dask.lean, Props/C20.lean (per-kind erasure, segment
erasure, gather in arrival order when entered one at a time, the reordering of
the unchanged gather as a proved counter-example, the locked gather in arrival
order for every schedule, counters balanced as locally).

Correspondence (this file).  One in-process cluster (`Client(processes=False)`,
comms inproc://) on a REAL asyncio loop (the virtual loop cannot drive
distributed's worker threads) is shared by all cases.  A case is a segment over
the kinds DaskStream re-implements or inherits, an input list (<= 10 ints), a
producer mode and a delay table (time.sleep of a few ms inside the user
functions, only in the Dask run, so that tasks finish out of submission order):

  await       the producer awaits every emit
  buffer      the producer awaits every emit and a buffer(n) precedes gather
              (the documented usage: tasks overlap, gather is entered one at a time)
  concurrent  the producer does not await: every emit is issued at once

Fault cases (model-free oracle only): a task fails on the cluster for some inputs
(`"fail": {"mod": m, "rem": r}` on a map/starmap/zip kind: the catalogue function
raises TaskFailed when the sum of its arguments is r mod m) and/or the consumer
downstream of gather() rejects some results (`"reject": {"mod", "rem"}`: the sink
raises Rejected).  Locally an exception only affects the element that caused it:
the emitter gets the exception, later elements flow normally.  The Dask-backed
pipeline must give every emit the same outcome (ok / exception type), deliver the
same results in the same order, fire the same counters — and never the counter
of an element whose emit failed.  Every wait in a fault case is bounded by
STUCK_WAIT: an emit of the Dask pipeline that does not come back although the
local pipeline finished is the failure `dask:stuck-after-downstream-failure`
(a genuine hang, not a harness timeout).  Fault segments are linear from the
first failing task on (map/starmap/zip only): a failed task's future that enters
a stateful node (accumulate state, window, partition, zip buffer, union sibling)
is seen by that node on Dask and never locally — errors surface at gather, not at
the node that failed; the accumulate instance of this (state poisoned for ever)
is kept as one corpus case under its own signature `SIG_ACC_POISON`.

For each case the same pipeline is built locally and as scatter() … gather();
both are driven to quiescence (emits returned, buffer queues empty, no
scatter/gather coroutine in flight — conditions, not sleeps; a timeout is a
harness error, exit 2, never a violation) and compared:

  model-free oracle   Dask sink sequence == local sink sequence (values, order,
                      metadata refs); per input RefCounter: same final count, same
                      number of times the count reached zero, no result delivered
                      after the count first reached zero, never negative
  model               Lean `lseg` on the same case == real local run (values,
                      metadata, final counter values from `held`); the real Dask
                      run == the model's prediction (equal to local, theorem
                      dask_equiv_local_partial / dask_equiv_local_locked_partial);
                      in `await`/`buffer` mode without a fan-in straight into gather
                      the hypothesis "gather entered one at a time" is itself
                      observed (max gather.update in flight == 1)
"""
import asyncio
import itertools
import logging
import time
import warnings

from .. import common

TIMEOUT = 60.0          # per pipeline, generous: a timeout is reported as harness error
STUCK_WAIT = 20.0       # fault cases: bounded wait for an emit of the Dask pipeline; exceeding it is the failure
SIG_REORDER = "gather:reorder:concurrent-updates"
SIG_STUCK = "dask:stuck-after-downstream-failure"
SIG_ACC_POISON = "dask:accumulate:failed-task-poisons-state"


class TaskFailed(ArithmeticError):
    """raised by a catalogue function on the inputs its `fail` spec selects"""


class Rejected(ValueError):
    """raised by the consumer downstream of gather on the results the `reject` spec selects"""


def selected(spec, total):
    return bool(spec) and total % spec["mod"] == spec["rem"]


def is_fault(case):
    # (segments that leave the cluster and re-enter it - two gathers in series - are run with the bounded waits of the fault cases:
    #  a pipeline that stops between them is a failure, not a harness timeout)
    return bool(case.get("reject")) or any(k.get("fail") or k["k"] == "regather" for k in case["seg"])


_stuck_seen = []        # once a hang has been observed (STUCK_WAIT), later fault cases wait less

# ------------------------------------------------------------------ catalogue (twins of Drivers/Dask.lean)


def sumv(x):
    return x if isinstance(x, int) else sum(sumv(e) for e in x)


def map_leaves(f, x):
    return f(x) if isinstance(x, int) else tuple(map_leaves(f, e) for e in x)


F1 = {
    "inc": lambda x: map_leaves(lambda n: n + 1, x),
    "dbl": lambda x: map_leaves(lambda n: n * 2, x),
    "neg": lambda x: map_leaves(lambda n: -n, x),
    "sum": lambda x: sumv(x),
    "pair": lambda x: (x, x),
    "first": lambda x: x[0] if isinstance(x, tuple) and x else x,
}
FS = {
    "add*": lambda *xs: sum(sumv(x) for x in xs),
    "rev*": lambda *xs: tuple(reversed(xs)),
    "cnt*": lambda *xs: len(xs),
}
F2 = {
    "add": lambda a, b: sumv(a) + sumv(b),
    "mix": lambda a, b: 2 * sumv(a) + sumv(b),
    "last": lambda a, b: b,
}
FRS = {
    "rs_sum": lambda s, x: (sumv(s) + sumv(x), 2 * sumv(s) + sumv(x)),
    "rs_prev": lambda s, x: (x, (s, x)),
}

_ticket = itertools.count()
FINISHED = []           # tickets (taken at task start) in order of task completion


def _run(table, fn, salt, delays, fail, args):
    t = next(_ticket)
    total = sum(sumv(a) for a in args)
    if delays:
        d = delays[(salt + total) % len(delays)]
        if d:
            time.sleep(d / 1000.0)
    if fail and total % fail[0] == fail[1]:
        FINISHED.append(t)
        raise TaskFailed("%s%r: argument sum %d is %d mod %d" % (fn, args, total, fail[1], fail[0]))
    r = table[fn](*args)
    FINISHED.append(t)
    return r


def f1(x, fn=None, salt=0, delays=(), fail=None):
    return _run(F1, fn, salt, delays, fail, (x,))


def fs(*xs, fn=None, salt=0, delays=(), fail=None):
    return _run(FS, fn, salt, delays, fail, xs)


def f2(acc, x, fn=None, salt=0, delays=(), fail=None):
    return _run(F2, fn, salt, delays, fail, (acc, x))


def frs(acc, x, fn=None, salt=0, delays=(), fail=None):
    return _run(FRS, fn, salt, delays, fail, (acc, x))


def task_fn(table, fn, salt, delays, fail):
    """The catalogue function as a closure without keyword arguments.  Every closure has the same __name__ ('task'): what
    distinguishes two tasks is the function object (and its arguments), never its name."""
    def task(*args):
        return _run(table, fn, salt, delays, fail, args)
    return task


def uncanon(j):
    return tuple(uncanon(e) for e in j["t"]) if isinstance(j, dict) else j


# ------------------------------------------------------------------ building and driving a pipeline

class Pipe:
    pass


def build(case, dask):
    """The segment of `case`, locally or between scatter() and gather(); records (value, ref ids) at the sink."""
    from streamz import Stream
    from streamz.core import no_default
    import streamz.dask  # noqa: F401  registers scatter / DaskStream

    p = Pipe()
    p.log = []
    p.buffers = []
    p.inflight = {"scatter": 0, "gather": 0}
    p.maxflight = {"scatter": 0, "gather": 0}

    def watch(node, name):
        orig = node.update

        def update(x, who=None, metadata=None):
            p.inflight[name] += 1
            p.maxflight[name] = max(p.maxflight[name], p.inflight[name])
            fut = orig(x, who=who, metadata=metadata)

            def done(_):
                p.inflight[name] -= 1
            fut.add_done_callback(done)
            return fut
        node.update = update

    reject = case.get("reject")
    p.rejected = []

    class Rec(Stream):
        def update(self, x, who=None, metadata=None):
            refs = [m["ref"].idx for m in (metadata or []) if "ref" in m]
            if selected(reject, sumv(x)):
                p.rejected.append((x, refs))
                raise Rejected("result %r rejected by the consumer" % (x,))
            p.log.append((x, refs))

    p.src = Stream(asynchronous=True)
    up = p.src
    if dask:
        up = up.scatter()
        watch(up, "scatter")
    delays = tuple(case["delays"]) if dask else ()
    closure = case.get("style") == "closure"

    def attach(up=up):
        """everything below the source (locally) / below scatter (Dask): the segment, gather, the recording consumer"""
        for i, k in enumerate(case["seg"]):
            kw = dict(fn=k.get("f"), salt=case["salt"] + 7 * i, delays=delays)
            if k.get("fail"):
                kw["fail"] = (k["fail"]["mod"], k["fail"]["rem"])

            def fun(table, plain, name=None, dsalt=0):
                """(function, kwargs) in the case's style: module-level function + keyword arguments, or a closure; in "named" cases the
                node also gets a stream_name= (a stream option, never an argument of the user function)"""
                nm = {"stream_name": "n%d%s" % (i, "b" if dsalt else "")} if case.get("named") else {}
                if closure:
                    return task_fn(table, name or kw["fn"], kw["salt"] + dsalt, delays, kw.get("fail")), nm
                return plain, dict(kw, fn=name or kw["fn"], salt=kw["salt"] + dsalt, **nm)
            kind = k["k"]
            if kind == "map":
                f, a = fun(F1, f1)
                up = up.map(f, **a)
            elif kind == "starmap":
                f, a = fun(FS, fs)
                up = up.starmap(f, **a)
            elif kind in ("accumulate", "accumulate_rs"):
                start = no_default if k.get("start") is None else uncanon(k["start"])
                f, a = fun(F2 if kind == "accumulate" else FRS, f2 if kind == "accumulate" else frs)
                if k.get("ws"):
                    a = dict(a, with_state=True)          # the node emits (state, result) pairs
                # (scan is the documented alias of accumulate: a property returning the stream's own accumulate)
                up = (up.scan if k.get("via") == "scan" else up.accumulate)(f, start=start, returns_state=(kind == "accumulate_rs"), **a)
            elif kind == "zip_map":
                f, a = fun(F1, f1)
                side = up.map(f, **a)
                up = up.zip(side)
            elif kind == "union_map":
                f, a = fun(F1, f1)
                side = up.map(f, **a)
                up = up.union(side)
            elif kind == "zip_map2":
                # fan-out inside the segment: two map nodes over the same elements (same-named functions in closure style)
                f, a = fun(F1, f1)
                g, b = fun(F1, f1, name=k["g"], dsalt=3)
                up = up.map(f, **a).zip(up.map(g, **b))
            elif kind == "union_starmap2":
                f, a = fun(FS, fs)
                g, b = fun(FS, fs, name=k["g"], dsalt=3)
                up = up.starmap(f, **a).union(up.starmap(g, **b))
            elif kind == "frequencies":
                # Stream.frequencies(): a convenience built on scan(); the running counts as a sorted tuple of (element, count)
                up = up.frequencies().map(freq_items)
            elif kind == "regather":
                # leave the cluster and re-enter it: ... .gather().scatter() ... (locally: nothing)
                if dask:
                    up = up.gather().scatter()
                continue
            elif kind == "buffer":
                up = up.buffer(k["n"])
                p.buffers.append(up)
            elif kind == "partition":
                up = up.partition(k["n"])
            elif kind == "sliding_window":
                up = up.sliding_window(k["n"], return_partial=k.get("partial", True))
            else:
                raise common.HarnessError("unknown kind %r" % (kind,))
            if dask and type(up).__module__ != "streamz.dask":
                # a local node class on a Dask-backed stream would be handed futures instead of values (and has no gather())
                raise NotDaskBacked("%s on a DaskStream built the local node class %s.%s" % (kind, type(up).__module__, type(up).__name__))
        if dask:
            up = up.gather()
            watch(up, "gather")
        p.rec = Rec(up)
    p.attach = attach
    if not case.get("late"):
        attach()
    return p


class NotDaskBacked(Exception):
    pass


async def drive(case, dask):
    """Run one pipeline to quiescence; returns the observations (JSON-able)."""
    from streamz import RefCounter
    from tornado.ioloop import IOLoop

    p = build(case, dask)
    log = p.log

    class RC(RefCounter):
        def __init__(self, idx):
            RefCounter.__init__(self, cb=self.fire, loop=IOLoop.current())
            self.idx, self.zero_at, self.fired, self.low = idx, [], 0, 0

        def fire(self):
            self.fired += 1

        def release(self, n=1):
            RefCounter.release(self, n)
            self.low = min(self.low, self.count)
            if self.count <= 0:
                self.zero_at.append(len(log))

    rcs = [RC(i) for i in range(len(case["xs"]))]
    deadline = time.monotonic() + TIMEOUT
    del FINISHED[:]

    async def within(aw, what):
        left = deadline - time.monotonic()
        try:
            return await asyncio.wait_for(aw, max(left, 0.001))
        except asyncio.TimeoutError:
            raise common.HarnessError("timeout (%ss) waiting for %s; case %r" % (TIMEOUT, what, case))

    fault = is_fault(case)
    outcomes = []
    stuck = False

    async def outcome(aw, what):
        """ok / exception type of one emit; in a fault case the wait is bounded and 'stuck' is an outcome"""
        try:
            if fault:
                await asyncio.wait_for(aw, 3.0 if _stuck_seen else STUCK_WAIT)
            else:
                # no failure involved: a generous bound; a Dask pipeline that does not come back while the local one does is reported
                # as a failure of the equivalence (check_case), a local pipeline that hangs as a harness error
                await asyncio.wait_for(aw, 5.0 if _stuck_seen else TIMEOUT)
            return "ok"
        except asyncio.TimeoutError:
            return "stuck"
        except common.HarnessError:
            raise
        except (TaskFailed, Rejected) as e:
            if not fault:
                raise
            return type(e).__name__
        except Exception as e:      # noqa: BLE001 - an exception nobody injected: judged by comparing the two pipelines
            if not dask:
                raise
            return "raised:" + type(e).__name__

    def emit(x, rc):
        """the awaitable of one emit, or the outcome when emit itself raised (local synchronous chain)"""
        try:
            return p.src.emit(x, metadata=[{"ref": rc}]), None
        except (TaskFailed, Rejected) as e:
            if not fault:
                raise
            return None, type(e).__name__

    late = case.get("late", 0)
    if late:
        # the first `late` inputs are emitted while nothing is attached below the source (locally) / below scatter (Dask):
        # they reach nobody, and their references must be given back all the same
        for x, rc in zip(case["xs"][:late], rcs[:late]):
            r, o = emit(x, rc)
            if o is None:
                o = await outcome(r, "emit(%r) with nothing attached" % (x,))
            outcomes.append(o)
        for _ in range(20):
            await asyncio.sleep(0)
        p.attach()
    if case["mode"] == "concurrent":
        started = [emit(x, rc) for x, rc in list(zip(case["xs"], rcs))[late:]]
        waits = [outcome(r, "the un-awaited emits") if o is None else None for r, o in started]
        got = await asyncio.gather(*[w for w in waits if w is not None])
        got = iter(got)
        outcomes += [o if o is not None else next(got) for _, o in started]
        stuck = "stuck" in outcomes
    else:
        for x, rc in list(zip(case["xs"], rcs))[late:]:
            r, o = emit(x, rc)
            if o is None:
                o = await outcome(r, "emit(%r)" % (x,))
            outcomes.append(o)
            if o == "stuck":
                stuck = True
                break               # nothing later can get past a pipeline that is stuck
    # quiescence: nothing queued, nothing in flight, for several consecutive bursts of loop turns
    quiet = 0
    t_q = time.monotonic()
    while quiet < 5 and not stuck:
        for _ in range(10):
            await asyncio.sleep(0)
        busy = (any(b.queue.qsize() for b in p.buffers) or p.inflight["scatter"] or p.inflight["gather"])
        quiet = 0 if busy else quiet + 1
        if busy:
            if time.monotonic() > (t_q + 5.0 if _stuck_seen else deadline):
                stuck = True        # elements are still in a buffer / in scatter / in gather and nothing moves any more
                break
            await asyncio.sleep(0.001)
    if stuck and not _stuck_seen:
        _stuck_seen.append(True)
    fin = list(FINISHED)
    return {
        "out": [common.canon(v) for v, _ in log],
        "md": [m for _, m in log],
        "count": [rc.count for rc in rcs],
        "zeros": [len(rc.zero_at) for rc in rcs],
        "fired": [rc.fired for rc in rcs],
        "low": [rc.low for rc in rcs],
        "late": [[i for i, (_, m) in enumerate(log) if rc.idx in m and rc.zero_at and i >= rc.zero_at[0]] for rc in rcs],
        "gather_max": p.maxflight["gather"],
        "scatter_max": p.maxflight["scatter"],
        "tasks": len(fin),
        "tasks_out_of_order": fin != sorted(fin),
        "outcomes": outcomes,
        "stuck": stuck,
        "rejected": [common.canon(v) for v, _ in p.rejected],
    }


async def start_client():
    from distributed import Client
    with warnings.catch_warnings():
        warnings.simplefilter("ignore")
        return await Client(processes=False, asynchronous=True, dashboard_address=None, n_workers=1,
                            threads_per_worker=4, silence_logs=logging.CRITICAL)


def run_cases(cases):
    """[(local observations, dask observations)] for every case, one cluster for all."""
    async def main():
        client = await start_client()
        try:
            res = []
            for c in cases:
                loc = await drive(c, False)
                try:
                    dsk = await drive(c, True)
                except NotDaskBacked as e:
                    dsk = {"not_dask_backed": str(e)}
                res.append((loc, dsk))
            return res
        finally:
            with warnings.catch_warnings():
                warnings.simplefilter("ignore")
                await client.close()
    logging.getLogger("distributed").setLevel(logging.CRITICAL)     # failed tasks are part of the fault cases
    logging.getLogger("streamz").setLevel(logging.CRITICAL)         # local map logs the exception it re-raises
    return asyncio.run(main())


# ------------------------------------------------------------------ generators

K_F1 = ["inc", "dbl", "neg", "sum", "pair", "first"]


def freq_items(d):
    return tuple(sorted(d.items(), key=repr))


def gen_seg(rng, n):
    """Random segment; tracks whether elements are known to be tuples (starmap needs f(*x))."""
    seg, tup = [], False
    while len(seg) < n:
        kind = rng.choice(["map", "map", "accumulate", "accumulate", "accumulate_rs", "zip_map", "union_map",
                           "buffer", "partition", "sliding_window", "starmap", "starmap", "zip_map2", "union_starmap2", "frequencies"])
        if kind in ("starmap", "union_starmap2") and not tup:
            continue
        if kind == "frequencies" and len(seg) != n - 1:
            continue            # its output (a tuple of (element, count) pairs of growing length) fits no catalogue function: last stage only
        k = {"k": kind}
        if kind == "map":
            k["f"] = rng.choice(K_F1)
            tup = {"pair": True, "sum": False, "first": False}.get(k["f"], tup)
        elif kind == "starmap":
            k["f"] = rng.choice(sorted(FS))
            tup = k["f"] == "rev*"
        elif kind == "accumulate":
            k["f"] = rng.choice(sorted(F2))
            k["start"] = rng.choice([None, None, 0, 5, {"t": [1, 2]}])
            tup = tup and k["f"] == "last" and (k["start"] is None or isinstance(k["start"], dict))
            if rng.random() < 0.25:
                k["ws"], tup = True, True
            if rng.random() < 0.3:
                k["via"] = "scan"
        elif kind == "accumulate_rs":
            k["f"] = rng.choice(sorted(FRS))
            k["start"] = rng.choice([None, 0, 3])
            tup = (k["f"] == "rs_prev") and (tup or k["start"] is not None)
            if rng.random() < 0.25:
                k["ws"], tup = True, True
        elif kind == "frequencies":
            tup = True
        elif kind in ("zip_map", "union_map"):
            k["f"] = rng.choice(K_F1)
            tup = True if kind == "zip_map" else (tup and k["f"] in ("inc", "dbl", "neg", "pair"))
        elif kind == "zip_map2":
            k["f"], k["g"] = rng.sample(["inc", "dbl", "neg", "pair", "sum"], 2)
            tup = True
        elif kind == "union_starmap2":
            k["f"], k["g"] = rng.sample(sorted(FS), 2)
            tup = "rev*" in (k["f"], k["g"]) and False
        elif kind == "buffer":
            k["n"] = rng.choice([1, 2, 5])
        elif kind == "partition":
            k["n"] = rng.choice([1, 2, 2, 3])
            tup = True
        elif kind == "sliding_window":
            k["n"] = rng.choice([1, 2, 2, 3])
            k["partial"] = rng.random() < 0.6
            tup = True
        seg.append(k)
    return seg


def gen_case(rng, mode):
    n = rng.choice([1, 2, 3, 4, 5, 6, 7, 8, 9, 10, 10])
    seg = gen_seg(rng, rng.choice([1, 2, 2, 3, 3, 4]))
    if mode == "buffer":
        seg.append({"k": "buffer", "n": rng.choice([1, 2, 5, 10])})
    case = {"mode": mode, "seg": seg, "xs": [rng.randint(-3, 9) for _ in range(n)], "salt": rng.randrange(50),
            "delays": [rng.choice([0, 0, 1, 2, 3, 5, 8]) for _ in range(rng.choice([3, 4, 5]))]}
    if rng.random() < 0.5:
        case["style"] = "closure"       # user functions are same-named closures without keyword arguments
    if rng.random() < 0.4:
        case["named"] = True            # every map / starmap / accumulate node is given a stream_name=
    if n >= 2 and rng.random() < 0.2:
        case["late"] = rng.randint(1, min(3, n - 1))     # the first inputs are emitted before anything is attached below scatter
    return case


def gen_fault_case(rng, mode):
    """Fault case: any non-failing prefix without buffer/union/window, then only map/starmap/zip (linear, stateless)
    from the first failing task on; and/or a consumer that rejects some results."""
    while True:
        pre = [k for k in gen_seg(rng, rng.choice([0, 1, 1, 2]))]
        if not any(k["k"] in ("buffer", "union_map", "union_starmap2", "sliding_window", "frequencies") for k in pre):
            break
    tup = bool(pre) and pre[-1]["k"] in ("zip_map", "partition") or \
        bool(pre) and pre[-1]["k"] == "map" and pre[-1]["f"] == "pair" or \
        bool(pre) and pre[-1]["k"] == "starmap" and pre[-1]["f"] == "rev*"
    seg = list(pre)
    task_fault = rng.random() < 0.75
    for i in range(rng.choice([1, 1, 2, 3]) if task_fault else rng.choice([0, 1])):
        kind = rng.choice(["map", "map", "zip_map", "starmap"])
        if kind == "starmap" and not tup:
            kind = "map"
        k = {"k": kind, "f": rng.choice(sorted(FS) if kind == "starmap" else ["inc", "dbl", "neg", "sum", "pair"])}
        if task_fault and (i == 0 or rng.random() < 0.3):
            m = rng.choice([2, 3, 3, 4])
            k["fail"] = {"mod": m, "rem": rng.randrange(m)}
        tup = kind == "zip_map" or k["f"] in ("pair", "rev*") or (tup and k["f"] in ("inc", "dbl", "neg"))
        seg.append(k)
    case = {"mode": mode, "seg": seg, "xs": [rng.randint(-3, 9) for _ in range(rng.choice([3, 4, 5, 6, 8, 10]))],
            "salt": rng.randrange(50), "delays": [rng.choice([0, 0, 1, 2, 3, 5]) for _ in range(rng.choice([3, 4, 5]))]}
    if not task_fault or rng.random() < 0.4:
        m = rng.choice([2, 3, 3, 4])
        case["reject"] = {"mod": m, "rem": rng.randrange(m)}
    return case


CORPUS = [
    # the convenience spellings of accumulate on a Dask-backed stream: frequencies() and scan()
    {"mode": "await", "seg": [{"k": "frequencies"}], "xs": [1, 2, 1, 3, 2, 1], "salt": 0, "delays": [0, 1]},
    {"mode": "buffer", "seg": [{"k": "map", "f": "inc"}, {"k": "accumulate", "f": "add", "start": 0, "via": "scan"}, {"k": "frequencies"}, {"k": "buffer", "n": 4}],
     "xs": [0, 0, 1, 0, 2], "salt": 2, "delays": [2, 0]},
    # documented usage: buffer before gather, first task much slower than the following ones
    {"mode": "buffer", "seg": [{"k": "map", "f": "inc"}, {"k": "buffer", "n": 8}], "xs": [0, 1, 2, 3, 4, 5],
     "salt": 0, "delays": [40, 0, 0, 0, 0, 0, 0]},
    # accumulate with / without explicit state, returns_state, behind partition and zip; tuples of futures
    {"mode": "await", "seg": [{"k": "partition", "n": 2}, {"k": "accumulate", "f": "mix", "start": None},
                              {"k": "sliding_window", "n": 2, "partial": True}],
     "xs": [1, 2, 3, 4, 5, 6, 7], "salt": 1, "delays": [3, 0, 1]},
    {"mode": "buffer", "seg": [{"k": "zip_map", "f": "dbl"}, {"k": "starmap", "f": "rev*"},
                               {"k": "accumulate_rs", "f": "rs_prev", "start": 7}, {"k": "buffer", "n": 2}],
     "xs": [1, 2, 3, 4], "salt": 2, "delays": [5, 0, 2]},
    {"mode": "await", "seg": [{"k": "accumulate_rs", "f": "rs_sum", "start": None},
                              {"k": "sliding_window", "n": 3, "partial": False}],
     "xs": [2, 2, 2, 5, 1], "salt": 3, "delays": [0, 4]},
    # fan-in straight into gather with an awaiting producer: two gather.update per input
    {"mode": "await", "seg": [{"k": "union_map", "f": "inc"}], "xs": [0, 10, 20], "salt": 0, "delays": [20]},
    {"mode": "buffer", "seg": [{"k": "union_map", "f": "inc"}, {"k": "buffer", "n": 4}], "xs": [0, 10, 20],
     "salt": 0, "delays": [20]},
    # producer that does not await: every element's gather.update in flight at once
    {"mode": "concurrent", "seg": [{"k": "map", "f": "inc"}], "xs": [0, 1, 2, 3], "salt": 0,
     "delays": [80, 0, 0, 0, 0]},
    {"mode": "concurrent", "seg": [{"k": "map", "f": "dbl"}, {"k": "accumulate", "f": "mix", "start": 0}],
     "xs": [4, 0, 1, 2, 3], "salt": 0, "delays": [0, 0, 0, 0, 0, 0, 0, 0, 60]},
    # fan-out inside the segment through two same-named functions (closures, no keyword arguments): each node computes its own
    {"mode": "await", "style": "closure", "seg": [{"k": "map", "f": "pair"}, {"k": "union_starmap2", "f": "add*", "g": "cnt*"}],
     "xs": [5, 6, 7], "salt": 0, "delays": [0, 2]},
    {"mode": "buffer", "style": "closure", "seg": [{"k": "zip_map2", "f": "inc", "g": "dbl"}, {"k": "starmap", "f": "rev*"}, {"k": "buffer", "n": 4}],
     "xs": [1, 2, 3, 4], "salt": 1, "delays": [1, 0]},
    # un-awaited emissions, results fanned in straight to gather (several gather.update waiting for the ordering lock at once)
    {"mode": "concurrent", "seg": [{"k": "sliding_window", "n": 3, "partial": True}, {"k": "union_map", "f": "neg"}],
     "xs": [9, 1, 5, 1, 0, 3, 0, 7], "salt": 12, "delays": [1, 1, 5]},
    {"mode": "concurrent", "seg": [{"k": "map", "f": "inc"}], "xs": [1, 2, 3, 4, 5, 6], "salt": 3, "delays": [6, 0, 0, 3]},
    # accumulate(with_state=True): (state, result) pairs from the very first element on, with and without an explicit start
    {"mode": "await", "seg": [{"k": "accumulate", "f": "add", "start": None, "ws": True}], "xs": [3, 1, 4, 1], "salt": 0, "delays": [1, 0]},
    {"mode": "buffer", "style": "closure", "seg": [{"k": "accumulate_rs", "f": "rs_sum", "start": None, "ws": True}, {"k": "map", "f": "first"},
                                                   {"k": "buffer", "n": 2}], "xs": [2, 7, 1], "salt": 1, "delays": [0, 2]},
    {"mode": "await", "seg": [{"k": "accumulate", "f": "mix", "start": 5, "ws": True}, {"k": "starmap", "f": "add*"}], "xs": [1, 2, 3], "salt": 2, "delays": [0]},
    # named nodes: stream_name= is an option of the node, not an argument of the user function
    {"mode": "await", "named": True, "seg": [{"k": "map", "f": "pair"}, {"k": "starmap", "f": "add*"}, {"k": "accumulate", "f": "add", "start": 0}],
     "xs": [1, 2, 3], "salt": 0, "delays": [1, 0]},
    {"mode": "buffer", "named": True, "style": "closure", "seg": [{"k": "zip_map", "f": "inc"}, {"k": "starmap", "f": "rev*"}, {"k": "buffer", "n": 3}],
     "xs": [4, 5, 6], "salt": 2, "delays": [0, 2]},
    # two scatter()...gather() stretches in series in one pipeline
    {"mode": "await", "seg": [{"k": "map", "f": "inc"}, {"k": "regather"}, {"k": "map", "f": "dbl"}], "xs": [1, 2, 3, 4], "salt": 0, "delays": [2, 0]},
    {"mode": "concurrent", "style": "closure", "seg": [{"k": "accumulate", "f": "add", "start": 0}, {"k": "regather"}, {"k": "partition", "n": 2},
                                                       {"k": "map", "f": "sum"}], "xs": [1, 2, 3, 4, 5], "salt": 1, "delays": [0, 3]},
    # elements emitted while nothing is attached below scatter reach nobody, and their references are given back
    {"mode": "await", "late": 2, "seg": [{"k": "map", "f": "inc"}], "xs": [1, 2, 3, 4], "salt": 0, "delays": [0]},
    {"mode": "concurrent", "late": 1, "style": "closure", "seg": [{"k": "accumulate", "f": "add", "start": 0}], "xs": [1, 2, 3], "salt": 0, "delays": [2, 0]},
]


FAULT_CORPUS = [
    # the consumer downstream of gather rejects the result 30; the task fails for the input 2 (demo of the seeded change)
    {"mode": "await", "seg": [{"k": "map", "f": "dbl", "fail": {"mod": 7, "rem": 2}}, {"k": "map", "f": "inc"}],
     "xs": [1, 2, 3, 14, 5, 6], "salt": 0, "delays": [2, 0], "reject": {"mod": 100, "rem": 29}},
    # only the consumer fails, on the first and on a middle result; later elements must still arrive
    {"mode": "await", "seg": [{"k": "map", "f": "inc"}], "xs": [0, 1, 2, 3, 4, 5], "salt": 1, "delays": [1],
     "reject": {"mod": 3, "rem": 1}},
    {"mode": "concurrent", "seg": [{"k": "map", "f": "inc"}], "xs": [0, 1, 2, 3, 4, 5], "salt": 1, "delays": [3, 0],
     "reject": {"mod": 3, "rem": 1}},
    # a task fails behind partition (the whole partition is rejected, the next one flows) and inside a zip side branch
    {"mode": "await", "seg": [{"k": "partition", "n": 2}, {"k": "map", "f": "sum", "fail": {"mod": 4, "rem": 3}}],
     "xs": [1, 2, 3, 4, 5, 6, 7, 8], "salt": 2, "delays": [0, 2]},
    {"mode": "concurrent", "seg": [{"k": "accumulate", "f": "add", "start": 0},
                                   {"k": "zip_map", "f": "neg", "fail": {"mod": 3, "rem": 0}}, {"k": "starmap", "f": "rev*"}],
     "xs": [1, 1, 1, 2, 2, 5], "salt": 3, "delays": [4, 0, 1], "reject": {"mod": 5, "rem": 0}},
    # accumulate whose own task fails: locally the state stays the last good one (known divergence, own signature)
    {"mode": "await", "seg": [{"k": "accumulate", "f": "add", "start": 0, "fail": {"mod": 5, "rem": 3}}],
     "xs": [1, 2, 4, 1, 1], "salt": 0, "delays": [0]},
]


# ------------------------------------------------------------------ checking

def model_lines(case):
    if is_fault(case):
        return fault_model_lines(case)
    if any(k["k"] in ("zip_map2", "union_starmap2", "regather", "frequencies") or k.get("ws") for k in case["seg"]):
        return []           # two-branch fan-out kinds: model-free oracle only (Model/Dask.lean has one side branch through one map)
    late = case.get("late", 0)
    return [{"op": "reset", "seg": case["seg"]},
            {"op": "local", "xs": case["xs"][late:], "md": [[i] for i in range(late, len(case["xs"]))]}]


def fault_model_lines(case):
    """Model/DaskFail.lean covers linear segments of map(inc|dbl) and accumulate(add, start>=0) over naturals with failing
    functions and no rejecting consumer; other fault cases are decided by the model-free oracle only."""
    if case.get("reject") or any(x < 0 for x in case["xs"]):
        return []
    stages = []
    for k in case["seg"]:
        fail = [k["fail"]["mod"], k["fail"]["rem"]] if k.get("fail") else None
        if k["k"] == "map" and k["f"] in ("inc", "dbl"):
            stages.append({"k": "map", "f": k["f"], "fail": fail})
        elif k["k"] == "accumulate" and k["f"] == "add" and isinstance(k.get("start"), int) and k["start"] >= 0:
            stages.append({"k": "acc", "start": k["start"], "fail": fail})
        else:
            return []
    return [{"op": "fault", "stages": stages, "xs": case["xs"]}]


def gen_linear_fault_case(rng, mode):
    """1-3 stages of map(inc|dbl) / accumulate(add, start), any of them failing on a residue class of its argument sum;
    includes failing tasks at or above an accumulate (the recorded divergence, which the model reproduces)."""
    seg = []
    for i in range(rng.choice([1, 2, 2, 3])):
        if rng.random() < 0.45:
            k = {"k": "accumulate", "f": "add", "start": rng.choice([0, 0, 1, 5])}
        else:
            k = {"k": "map", "f": rng.choice(["inc", "dbl"])}
        seg.append(k)
    for k in rng.sample(seg, rng.choice([1, 1, 2]) if len(seg) > 1 else 1):
        m = rng.choice([2, 3, 4, 5, 7])
        k["fail"] = {"mod": m, "rem": rng.randrange(m)}
    return {"mode": mode, "seg": seg, "xs": [rng.randint(0, 9) for _ in range(rng.choice([3, 4, 5, 6, 8]))],
            "salt": rng.randrange(50), "delays": [rng.choice([0, 0, 1, 2, 3]) for _ in range(rng.choice([2, 3, 4]))]}


def poisoned_by_failure(case):
    """a stateful node at or below the first failing task: on Dask it sees the errored future, locally it never sees the element"""
    first = next((i for i, k in enumerate(case["seg"]) if k.get("fail")), None)
    return first is not None and any(k["k"].startswith("accumulate") for k in case["seg"][first:])


def fan_in_before_gather(case):
    """A union after the last buffer: several elements reach gather from one emit."""
    last = None
    for i, k in enumerate(case["seg"]):
        if k["k"] == "union_map":
            last = i
        elif k["k"] == "buffer" and last is not None:
            last = None
    return last is not None


def key(x):
    return common.json.dumps(x, sort_keys=True)


def check_fault_model(ctx, case, answers, loc, dsk):
    """correspondence with Model/DaskFail.lean: outcomes and delivered values of BOTH real pipelines against lrun / drun"""
    a = answers[0]
    if "bad-op" in a:
        raise common.HarnessError("Dask driver rejected %r: %r" % (fault_model_lines(case), a))
    ctx.count("fault:compared-with-model")
    ok = True
    for name, got, want in (("local", loc, a["local"]), ("dask", dsk, a["dask"])):
        w_out = ["ok" if v is not None else "TaskFailed" for v in want]
        w_val = [v for v in want if v is not None]
        if got["outcomes"] != w_out or got["out"] != w_val:
            ok = False
            ctx.disagreement("failing tasks, %s pipeline: outcomes %r results %r, model (DaskFail.%s) outcomes %r results %r"
                             % (name, got["outcomes"], got["out"], "lrun" if name == "local" else "drun", w_out, w_val), case)
    if ok:
        ctx.coverage["traces_validated_against_impl"] += 1
        if a["local"] != a["dask"]:
            ctx.count("fault:model-reproduces-recorded-divergence")


def check_fault_case(ctx, case, loc, dsk, answers=None):
    """Model-free oracle for a case with failing tasks / a rejecting consumer."""
    if answers and not (loc["stuck"] or dsk["stuck"]):
        check_fault_model(ctx, case, answers, loc, dsk)
    n = len(case["xs"])
    ctx.count("mode:" + case["mode"] + "+fault")
    if case.get("reject"):
        ctx.count("fault:consumer-rejects")
    if any(k.get("fail") for k in case["seg"]):
        ctx.count("fault:task-fails")
    if loc["stuck"]:
        raise common.HarnessError("the local pipeline did not finish within %ss; case %r" % (STUCK_WAIT, case))
    failed_l = [o != "ok" for o in loc["outcomes"]]
    ctx.case(case, nontrivial=any(failed_l) and any(not f for i, f in enumerate(failed_l) if any(failed_l[:i])))
    if "TaskFailed" in loc["outcomes"]:
        ctx.count("fault:emit-got-task-error")
    if "Rejected" in loc["outcomes"]:
        ctx.count("fault:emit-got-consumer-error")
    if dsk["stuck"]:
        k = len(dsk["outcomes"]) - 1 if case["mode"] != "concurrent" else dsk["outcomes"].index("stuck")
        if not any(failed_l):
            ctx.failure("dask:stuck", "the Dask-backed pipeline stopped: an emit never came back within %ss (outcomes %r) although nothing had failed "
                        "yet; the local pipeline finished with %r" % (STUCK_WAIT, dsk["outcomes"], loc["outcomes"]), case,
                        expected=loc["outcomes"], observed=dsk["outcomes"], oracle="the Dask-backed pipeline delivers what the local one delivers")
            return
        ctx.failure(SIG_STUCK, "after an element failed downstream of gather()/on the cluster the Dask-backed pipeline stopped: the emit "
                    "of input #%d never came back (bounded wait %ss); outcomes %r, the local pipeline finished with %r"
                    % (k, STUCK_WAIT, dsk["outcomes"], loc["outcomes"]), case, expected=loc["outcomes"], observed=dsk["outcomes"],
                    oracle="an exception only affects the element that caused it; later emits complete as locally")
        return
    poisoned = poisoned_by_failure(case)
    if dsk["outcomes"] != loc["outcomes"]:
        sig = SIG_ACC_POISON if poisoned else "dask:failure:outcomes-differ"
        ctx.failure(sig, "emit outcomes differ: Dask-backed pipeline %r, local pipeline %r%s" % (
            dsk["outcomes"], loc["outcomes"],
            " (Dask accumulate keeps the errored future as its state)" if poisoned else ""), case,
            expected=loc["outcomes"], observed=dsk["outcomes"], oracle="every emit has the same outcome as locally")
    elif dsk["out"] != loc["out"] or dsk["md"] != loc["md"] or dsk["rejected"] != loc["rejected"]:
        ctx.failure("dask:failure:results-differ", "delivered %r (rejected %r), locally %r (rejected %r)"
                    % (dsk["out"], dsk["rejected"], loc["out"], loc["rejected"]), case,
                    expected=loc["out"], observed=dsk["out"], oracle="same results delivered / rejected, same order")
    elif any(dsk["fired"][i] for i in range(n) if dsk["outcomes"][i] != "ok"):
        ctx.failure("dask:failure:counter-fired", "the done-callback of an element whose emit failed fired: fired %r, outcomes %r"
                    % (dsk["fired"], dsk["outcomes"]), case, oracle="counters of failed elements not fired")
    elif (dsk["fired"] != loc["fired"] or dsk["zeros"] != loc["zeros"]
          or [c == 0 for c in dsk["count"]] != [c == 0 for c in loc["count"]]):
        ctx.failure("dask:failure:counters", "counters fired %r / reached zero %r / final %r, locally %r / %r / %r"
                    % (dsk["fired"], dsk["zeros"], dsk["count"], loc["fired"], loc["zeros"], loc["count"]), case,
                    expected=loc["fired"], observed=dsk["fired"], oracle="the same counters fire as locally")
    elif any(dsk["late"][i] and not loc["late"][i] for i in range(n)):
        ctx.failure("refcount:early-release", "results carrying a ref were delivered after its counter had reached zero "
                    "(sink positions per input: %r)" % (dsk["late"],), case, oracle="no release before the element is done")


def check_case(ctx, case, answers, loc, dsk):
    if dsk.get("not_dask_backed"):
        ctx.case(case, nontrivial=True)
        ctx.failure("dask:node-not-dask-backed", "between scatter() and gather() %s: it would process the futures themselves, not their values "
                    "(the local pipeline delivers %r)" % (dsk["not_dask_backed"], loc["out"]), case, expected=loc["out"],
                    oracle="the Dask-backed pipeline delivers what the local one delivers")
        return
    if is_fault(case):
        return check_fault_case(ctx, case, loc, dsk, answers)
    if loc["stuck"]:
        raise common.HarnessError("the local pipeline did not finish within %ss; case %r" % (TIMEOUT, case))
    if any(o.startswith("raised:") for o in dsk["outcomes"]):
        ctx.case(case, nontrivial=True)
        ctx.failure("dask:emit-raised", "the Dask-backed pipeline raised where the local one delivered: outcomes %r, local results %r"
                    % (dsk["outcomes"], loc["out"]), case, expected=loc["out"], observed=dsk["outcomes"],
                    oracle="the Dask-backed pipeline delivers what the local one delivers")
        return
    if dsk["stuck"]:
        ctx.case(case, nontrivial=True)
        ctx.failure("dask:stuck", "the Dask-backed pipeline stopped: an emit never came back within %ss (outcomes %r) although no task failed and no "
                    "consumer rejected anything; the local pipeline delivered %r" % (TIMEOUT, dsk["outcomes"], loc["out"]), case,
                    expected=loc["out"], observed=dsk["out"], oracle="the Dask-backed pipeline delivers what the local one delivers")
        return
    n = len(case["xs"])
    ctx.count("mode:" + case["mode"])
    for k in case["seg"]:
        ctx.count("kind:" + k["k"])
    ctx.count("inputs:%s" % ("1-3" if n <= 3 else "4-7" if n <= 7 else "8-10"))
    if dsk["tasks_out_of_order"]:
        ctx.count("tasks-finished-out-of-submission-order")
    if dsk["gather_max"] > 1:
        ctx.count("several-gather-updates-in-flight")
    if any(c != 0 for c in loc["count"]):
        ctx.count("refs-held-at-quiescence")
    ctx.case(case, nontrivial=len(loc["out"]) >= 2 and dsk["tasks"] >= 1)

    # ---- model-free oracle: Dask run vs local run
    pairs_l = list(zip(loc["out"], loc["md"]))
    pairs_d = list(zip(dsk["out"], dsk["md"]))
    explained = True        # Dask sink sequence is the local one up to order (what either gather model allows)
    if dsk["out"] != loc["out"]:
        if sorted(map(key, pairs_d)) == sorted(map(key, pairs_l)):
            sig = SIG_REORDER if dsk["gather_max"] > 1 else "sink:order"
            what = ("gather() delivered results in completion order, not arrival order: %d gather.update coroutines "
                    "were in flight at once" % dsk["gather_max"]) if sig == SIG_REORDER else "results reordered"
        else:
            sig, what, explained = "sink:values", "results differ", False
        ctx.failure(sig, "%s: Dask-backed pipeline delivered %r, local pipeline %r" % (what, dsk["out"], loc["out"]),
                    case, expected=loc["out"], observed=dsk["out"], oracle="dask sink sequence == local sink sequence")
    elif dsk["md"] != loc["md"]:
        explained = False
        ctx.failure("sink:metadata", "metadata refs of the results differ: %r vs local %r" % (dsk["md"], loc["md"]),
                    case, expected=loc["md"], observed=dsk["md"], oracle="same refs attached to the same results")
    if dsk["count"] != loc["count"]:
        ctx.failure("refcount:final-count", "RefCounter values after quiescence %r, locally %r" % (dsk["count"], loc["count"]),
                    case, expected=loc["count"], observed=dsk["count"], oracle="counters balanced as locally")
    elif any(l < 0 for l in dsk["low"]):
        ctx.failure("refcount:negative", "a RefCounter went negative: lowest values %r" % (dsk["low"],), case,
                    oracle="never more releases than retains")
    elif any(dsk["late"][i] and not loc["late"][i] for i in range(n)):
        ctx.failure("refcount:early-release", "results carrying a ref were delivered after its counter had reached zero "
                    "(sink positions per input: %r)" % (dsk["late"],), case, oracle="no release before the element is done")
    elif dsk["zeros"][case.get("late", 0):] != loc["zeros"][case.get("late", 0):] or dsk["fired"][case.get("late", 0):] != loc["fired"][case.get("late", 0):]:
        # (inputs emitted while nothing is attached: locally the source has no downstream at all and never touches the counter, while
        #  scatter is a downstream that retains and releases - only the final values are comparable for those)
        ctx.failure("refcount:callback-count", "counters reached zero %r times (callbacks %r), locally %r (%r)"
                    % (dsk["zeros"], dsk["fired"], loc["zeros"], loc["fired"]), case,
                    expected=loc["zeros"], observed=dsk["zeros"], oracle="done-callback fired as locally")

    # ---- correspondence with the Lean model
    if answers is None:
        return
    a = answers[1]
    if "out" not in a:
        ctx.disagreement("model answered %r" % (a,), case)
        return
    held = [r for h in a["held"] for r in h]
    model_count = [held.count(i) for i in range(n)]
    ok = True
    if a["out"] != loc["out"] or a["md"] != loc["md"]:
        ok = False
        ctx.disagreement("local pipeline delivered %r / %r, model lseg %r / %r" % (loc["out"], loc["md"], a["out"], a["md"]), case)
    if model_count != loc["count"]:
        ok = False
        ctx.disagreement("local RefCounter values %r, model (held) %r" % (loc["count"], model_count), case)
    if not explained:
        ok = False
        ctx.disagreement("Dask pipeline delivered %r / %r; neither gather model (same elements as lseg %r, in some order) explains it"
                         % (dsk["out"], dsk["md"], a["out"]), case)
    if case["mode"] != "concurrent" and not fan_in_before_gather(case) and dsk["gather_max"] > 1:
        ok = False
        ctx.disagreement("hypothesis OneAtATime not established: %d gather.update in flight with an awaiting producer and no "
                         "fan-in before gather" % dsk["gather_max"], case)
    if ok and dsk["out"] == a["out"] and dsk["md"] == a["md"] and dsk["count"] == model_count:
        ctx.coverage["traces_validated_against_impl"] += 1


def model_selfcheck(ctx):
    """The timed model on the two proved schedules (keeps the driver's `dask` op exercised)."""
    seg = [{"k": "union_map", "f": "inc"}]
    t = {"xs": [0, 1], "p": [0, 1000], "sigma": [0, 1000], "T": [[30, 1030]], "g": [0, 0, 1000, 1000]}
    ans = common.lean_driver("Dask", [{"op": "reset", "seg": seg}, dict(t, op="local"), dict(t, op="dask"),
                                      dict(t, op="dask", locked=True), {"op": "nonsense"}])
    if not (ans[1]["out"] == [1, 0, 2, 1] and ans[2]["out"] == [0, 1, 1, 2] and ans[2]["one_at_a_time"] is False
            and ans[3]["out"] == [1, 0, 2, 1] and "bad-op" in ans[4]):
        ctx.disagreement("timed model self-check: %r" % (ans,), {"seg": seg, "times": t})


def run(ctx):
    ctx.audit(extra_modules=["StreamzVerif.Props.C20Fail"])
    ctx.assumptions += [
        "a future is a value with an arbitrary completion time; the scheduler's choice of completion order is the only cluster behaviour modelled",
        "elements enter scatter and gather one at a time (awaiting producer or buffer before gather) for the unchanged-code theorem; "
        "with the order-preserving gather only in-order acknowledgement of concurrent client.scatter calls is assumed (observed, not proved)",
        "buffer is modelled at the value level as an order-preserving FIFO; its asynchronous hand-off is the subject of C02/C03",
        "zip/union occur with a side branch through one map from the same upstream (lock-step); zip's maxsize back-pressure is not reached",
        "user functions are pure and total on the values they receive (ints and nested tuples)",
        "real asyncio loop and real worker threads: completion orders are sampled, not enumerated",
        "fault cases (failing task / rejecting consumer): model-free oracle; in the generic fault generator the segment is linear and "
        "stateless (map/starmap/zip) from the first failing task on: a failed task's future entering a stateful node is visible to that node on "
        "Dask and never locally because errors surface at gather (accumulate instance recorded as " + SIG_ACC_POISON + ")",
        "linear fault cases (map inc/dbl, accumulate add with start, naturals, any stage failing on a residue class) are additionally compared, "
        "local AND Dask-backed run, with Model/DaskFail.lean (lrun / drun) - including the cases of the recorded divergence, which the model "
        "reproduces (Props/C20Fail.lean: safe_run_equiv where no stateful node follows a failure, dask_acc_failure_is_permanent otherwise)",
    ]
    model_selfcheck(ctx)
    if ctx.thorough():
        plan = [("await", 400), ("buffer", 600), ("concurrent", 200)]
    else:
        plan = [("await", 6), ("buffer", 8), ("concurrent", 3)]
    cases = list(CORPUS)
    for mode, k in plan:
        cases += [gen_case(ctx.rng, mode) for _ in range(k)]
    cases += FAULT_CORPUS
    for mode, k in ([("await", 160), ("concurrent", 80)] if ctx.thorough() else [("await", 5), ("concurrent", 3)]):
        cases += [gen_fault_case(ctx.rng, mode) for _ in range(k)]
    for mode, k in ([("await", 120), ("concurrent", 60)] if ctx.thorough() else [("await", 6), ("concurrent", 3)]):
        cases += [gen_linear_fault_case(ctx.rng, mode) for _ in range(k)]
    lines, spans = [], []
    for c in cases:
        ml = model_lines(c)       # fault cases outside Model/DaskFail.lean: model-free oracle only
        spans.append((len(lines), len(lines) + len(ml)))
        lines += ml
    answers = common.lean_driver("Dask", lines)
    t0 = time.time()
    results = run_cases(cases)
    ctx.coverage["cluster_wall_s"] = round(time.time() - t0, 2)
    for c, (a, b), (loc, dsk) in zip(cases, spans, results):
        check_case(ctx, c, answers[a:b] or None, loc, dsk)
    ctx.coverage["trusted_base"] = ctx.coverage["trusted_base"] + [
        "dask/distributed 2026.8.0 in-process cluster (scheduler, worker threads, inproc comms): runtime behaviour observed, not modelled",
    ]
    ctx.coverage["rule"] = (
        "corpus (8 hand-picked pipelines) + seeded generator: segments of 1-4 kinds over map/starmap/accumulate(+-start)/"
        "accumulate(returns_state)/zip/union/buffer/partition/sliding_window with catalogue functions, 1-10 integer inputs, "
        "delay tables of 0-8 ms inside the tasks, three producer modes (await / buffer before gather / concurrent emits); every "
        "case is run locally and on the in-process cluster; fault cases (6 hand-picked + generated): a catalogue function fails on the "
        "inputs selected by a modulus and/or the consumer behind gather rejects the results selected by a modulus, await and concurrent "
        "producers, bounded waits. Non-trivial: >=2 results at the sink and >=1 task submitted (fault case: a failure followed by a "
        "later successful element). "
        "Distinct = distinct case JSON.")


def replay(ctx, data):
    ctx.audit(extra_modules=["StreamzVerif.Props.C20Fail"])
    case = data["case"]
    ml = model_lines(case)
    answers = common.lean_driver("Dask", ml) if ml else None
    (loc, dsk), = run_cases([case])
    check_case(ctx, case, answers, loc, dsk)
    ctx.coverage["rule"] = "replay of one recorded case"
