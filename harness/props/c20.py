"""C20 — a Dask-backed pipeline is observationally equivalent to the local one.

Lean: Model/Dask.lean, Proofs/Dask.lean, Props/C20.lean (per-kind erasure, segment
erasure, gather in arrival order when entered one at a time, the reordering of
the unchanged gather as a proved counter-example, the locked gather in arrival
order for every schedule, counters balanced as locally).

Correspondence (this file).  One in-process cluster (`Client(processes=False)`,
comms inproc://) on a REAL asyncio loop (the virtual loop cannot drive
distributed's worker threads) is shared by all cases.  A case is a segment over
the kinds DaskStream re-implements or inherits, an input list (<= 10 ints), a
producer mode and a delay table (time.sleep of a few ms inside the user
functions, only in the Dask run, so that tasks finish out of submission order):

  await       the producer awaits every emit
  buffer      the producer awaits every emit and a buffer(n) precedes gather
              (the documented usage: tasks overlap, gather is entered one at a time)
  concurrent  the producer does not await: every emit is issued at once

For each case the same pipeline is built locally and as scatter() … gather();
both are driven to quiescence (emits returned, buffer queues empty, no
scatter/gather coroutine in flight — conditions, not sleeps; a timeout is a
harness error, exit 2, never a violation) and compared:

  model-free oracle   Dask sink sequence == local sink sequence (values, order,
                      metadata refs); per input RefCounter: same final count, same
                      number of times the count reached zero, no result delivered
                      after the count first reached zero, never negative
  model               Lean `lseg` on the same case == real local run (values,
                      metadata, final counter values from `held`); the real Dask
                      run == the model's prediction (equal to local, theorem
                      dask_equiv_local_partial / dask_equiv_local_locked_partial);
                      in `await`/`buffer` mode without a fan-in straight into gather
                      the hypothesis "gather entered one at a time" is itself
                      observed (max gather.update in flight == 1)
"""
import asyncio
import itertools
import logging
import time
import warnings

from .. import common

TIMEOUT = 60.0          # per pipeline, generous: a timeout is reported as harness error
SIG_REORDER = "gather:reorder:concurrent-updates"

# ------------------------------------------------------------------ catalogue (twins of Drivers/Dask.lean)


def sumv(x):
    return x if isinstance(x, int) else sum(sumv(e) for e in x)


def map_leaves(f, x):
    return f(x) if isinstance(x, int) else tuple(map_leaves(f, e) for e in x)


F1 = {
    "inc": lambda x: map_leaves(lambda n: n + 1, x),
    "dbl": lambda x: map_leaves(lambda n: n * 2, x),
    "neg": lambda x: map_leaves(lambda n: -n, x),
    "sum": lambda x: sumv(x),
    "pair": lambda x: (x, x),
    "first": lambda x: x[0] if isinstance(x, tuple) and x else x,
}
FS = {
    "add*": lambda *xs: sum(sumv(x) for x in xs),
    "rev*": lambda *xs: tuple(reversed(xs)),
    "cnt*": lambda *xs: len(xs),
}
F2 = {
    "add": lambda a, b: sumv(a) + sumv(b),
    "mix": lambda a, b: 2 * sumv(a) + sumv(b),
    "last": lambda a, b: b,
}
FRS = {
    "rs_sum": lambda s, x: (sumv(s) + sumv(x), 2 * sumv(s) + sumv(x)),
    "rs_prev": lambda s, x: (x, (s, x)),
}

_ticket = itertools.count()
FINISHED = []           # tickets (taken at task start) in order of task completion


def _run(table, fn, salt, delays, args):
    t = next(_ticket)
    if delays:
        d = delays[(salt + sum(sumv(a) for a in args)) % len(delays)]
        if d:
            time.sleep(d / 1000.0)
    r = table[fn](*args)
    FINISHED.append(t)
    return r


def f1(x, fn=None, salt=0, delays=()):
    return _run(F1, fn, salt, delays, (x,))


def fs(*xs, fn=None, salt=0, delays=()):
    return _run(FS, fn, salt, delays, xs)


def f2(acc, x, fn=None, salt=0, delays=()):
    return _run(F2, fn, salt, delays, (acc, x))


def frs(acc, x, fn=None, salt=0, delays=()):
    return _run(FRS, fn, salt, delays, (acc, x))


def uncanon(j):
    return tuple(uncanon(e) for e in j["t"]) if isinstance(j, dict) else j


# ------------------------------------------------------------------ building and driving a pipeline

class Pipe:
    pass


def build(case, dask):
    """The segment of `case`, locally or between scatter() and gather(); records (value, ref ids) at the sink."""
    from streamz import Stream
    from streamz.core import no_default
    import streamz.dask  # noqa: F401  registers scatter / DaskStream

    p = Pipe()
    p.log = []
    p.buffers = []
    p.inflight = {"scatter": 0, "gather": 0}
    p.maxflight = {"scatter": 0, "gather": 0}

    def watch(node, name):
        orig = node.update

        def update(x, who=None, metadata=None):
            p.inflight[name] += 1
            p.maxflight[name] = max(p.maxflight[name], p.inflight[name])
            fut = orig(x, who=who, metadata=metadata)

            def done(_):
                p.inflight[name] -= 1
            fut.add_done_callback(done)
            return fut
        node.update = update

    class Rec(Stream):
        def update(self, x, who=None, metadata=None):
            p.log.append((x, [m["ref"].idx for m in (metadata or []) if "ref" in m]))

    p.src = Stream(asynchronous=True)
    up = p.src
    if dask:
        up = up.scatter()
        watch(up, "scatter")
    delays = tuple(case["delays"]) if dask else ()
    for i, k in enumerate(case["seg"]):
        kw = dict(fn=k.get("f"), salt=case["salt"] + 7 * i, delays=delays)
        kind = k["k"]
        if kind == "map":
            up = up.map(f1, **kw)
        elif kind == "starmap":
            up = up.starmap(fs, **kw)
        elif kind in ("accumulate", "accumulate_rs"):
            start = no_default if k.get("start") is None else uncanon(k["start"])
            up = up.accumulate(f2 if kind == "accumulate" else frs, start=start,
                               returns_state=(kind == "accumulate_rs"), **kw)
        elif kind == "zip_map":
            side = up.map(f1, **kw)
            up = up.zip(side)
        elif kind == "union_map":
            side = up.map(f1, **kw)
            up = up.union(side)
        elif kind == "buffer":
            up = up.buffer(k["n"])
            p.buffers.append(up)
        elif kind == "partition":
            up = up.partition(k["n"])
        elif kind == "sliding_window":
            up = up.sliding_window(k["n"], return_partial=k.get("partial", True))
        else:
            raise common.HarnessError("unknown kind %r" % (kind,))
        if dask and type(up).__module__ != "streamz.dask":
            raise common.HarnessError("%s on a DaskStream built %r" % (kind, type(up)))
    if dask:
        up = up.gather()
        watch(up, "gather")
    p.rec = Rec(up)
    return p


async def drive(case, dask):
    """Run one pipeline to quiescence; returns the observations (JSON-able)."""
    from streamz import RefCounter
    from tornado.ioloop import IOLoop

    p = build(case, dask)
    log = p.log

    class RC(RefCounter):
        def __init__(self, idx):
            RefCounter.__init__(self, cb=self.fire, loop=IOLoop.current())
            self.idx, self.zero_at, self.fired, self.low = idx, [], 0, 0

        def fire(self):
            self.fired += 1

        def release(self, n=1):
            RefCounter.release(self, n)
            self.low = min(self.low, self.count)
            if self.count <= 0:
                self.zero_at.append(len(log))

    rcs = [RC(i) for i in range(len(case["xs"]))]
    deadline = time.monotonic() + TIMEOUT
    del FINISHED[:]

    async def within(aw, what):
        left = deadline - time.monotonic()
        try:
            return await asyncio.wait_for(aw, max(left, 0.001))
        except asyncio.TimeoutError:
            raise common.HarnessError("timeout (%ss) waiting for %s; case %r" % (TIMEOUT, what, case))

    pending = []
    for x, rc in zip(case["xs"], rcs):
        r = p.src.emit(x, metadata=[{"ref": rc}])
        if case["mode"] == "concurrent":
            pending.append(r)
        else:
            await within(r, "emit(%r)" % (x,))
    if pending:
        await within(asyncio.gather(*pending), "the un-awaited emits")
    # quiescence: nothing queued, nothing in flight, for several consecutive bursts of loop turns
    quiet = 0
    while quiet < 5:
        for _ in range(10):
            await asyncio.sleep(0)
        busy = (any(b.queue.qsize() for b in p.buffers) or p.inflight["scatter"] or p.inflight["gather"])
        quiet = 0 if busy else quiet + 1
        if busy:
            if time.monotonic() > deadline:
                raise common.HarnessError("timeout (%ss) waiting for quiescence; case %r" % (TIMEOUT, case))
            await asyncio.sleep(0.001)
    fin = list(FINISHED)
    return {
        "out": [common.canon(v) for v, _ in log],
        "md": [m for _, m in log],
        "count": [rc.count for rc in rcs],
        "zeros": [len(rc.zero_at) for rc in rcs],
        "fired": [rc.fired for rc in rcs],
        "low": [rc.low for rc in rcs],
        "late": [[i for i, (_, m) in enumerate(log) if rc.idx in m and rc.zero_at and i >= rc.zero_at[0]] for rc in rcs],
        "gather_max": p.maxflight["gather"],
        "scatter_max": p.maxflight["scatter"],
        "tasks": len(fin),
        "tasks_out_of_order": fin != sorted(fin),
    }


async def start_client():
    from distributed import Client
    with warnings.catch_warnings():
        warnings.simplefilter("ignore")
        return await Client(processes=False, asynchronous=True, dashboard_address=None, n_workers=1,
                            threads_per_worker=4, silence_logs=logging.ERROR)


def run_cases(cases):
    """[(local observations, dask observations)] for every case, one cluster for all."""
    async def main():
        client = await start_client()
        try:
            res = []
            for c in cases:
                loc = await drive(c, False)
                dsk = await drive(c, True)
                res.append((loc, dsk))
            return res
        finally:
            with warnings.catch_warnings():
                warnings.simplefilter("ignore")
                await client.close()
    logging.getLogger("distributed").setLevel(logging.ERROR)
    return asyncio.run(main())


# ------------------------------------------------------------------ generators

K_F1 = ["inc", "dbl", "neg", "sum", "pair", "first"]


def gen_seg(rng, n):
    """Random segment; tracks whether elements are known to be tuples (starmap needs f(*x))."""
    seg, tup = [], False
    while len(seg) < n:
        kind = rng.choice(["map", "map", "accumulate", "accumulate", "accumulate_rs", "zip_map", "union_map",
                           "buffer", "partition", "sliding_window", "starmap", "starmap"])
        if kind == "starmap" and not tup:
            continue
        k = {"k": kind}
        if kind == "map":
            k["f"] = rng.choice(K_F1)
            tup = {"pair": True, "sum": False, "first": False}.get(k["f"], tup)
        elif kind == "starmap":
            k["f"] = rng.choice(sorted(FS))
            tup = k["f"] == "rev*"
        elif kind == "accumulate":
            k["f"] = rng.choice(sorted(F2))
            k["start"] = rng.choice([None, None, 0, 5, {"t": [1, 2]}])
            tup = tup and k["f"] == "last" and (k["start"] is None or isinstance(k["start"], dict))
        elif kind == "accumulate_rs":
            k["f"] = rng.choice(sorted(FRS))
            k["start"] = rng.choice([None, 0, 3])
            tup = (k["f"] == "rs_prev") and (tup or k["start"] is not None)
        elif kind in ("zip_map", "union_map"):
            k["f"] = rng.choice(K_F1)
            tup = True if kind == "zip_map" else (tup and k["f"] in ("inc", "dbl", "neg", "pair"))
        elif kind == "buffer":
            k["n"] = rng.choice([1, 2, 5])
        elif kind == "partition":
            k["n"] = rng.choice([1, 2, 2, 3])
            tup = True
        elif kind == "sliding_window":
            k["n"] = rng.choice([1, 2, 2, 3])
            k["partial"] = rng.random() < 0.6
            tup = True
        seg.append(k)
    return seg


def gen_case(rng, mode):
    n = rng.choice([1, 2, 3, 4, 5, 6, 7, 8, 9, 10, 10])
    seg = gen_seg(rng, rng.choice([1, 2, 2, 3, 3, 4]))
    if mode == "buffer":
        seg.append({"k": "buffer", "n": rng.choice([1, 2, 5, 10])})
    return {"mode": mode, "seg": seg, "xs": [rng.randint(-3, 9) for _ in range(n)], "salt": rng.randrange(50),
            "delays": [rng.choice([0, 0, 1, 2, 3, 5, 8]) for _ in range(rng.choice([3, 4, 5]))]}


CORPUS = [
    # documented usage: buffer before gather, first task much slower than the following ones
    {"mode": "buffer", "seg": [{"k": "map", "f": "inc"}, {"k": "buffer", "n": 8}], "xs": [0, 1, 2, 3, 4, 5],
     "salt": 0, "delays": [40, 0, 0, 0, 0, 0, 0]},
    # accumulate with / without explicit state, returns_state, behind partition and zip; tuples of futures
    {"mode": "await", "seg": [{"k": "partition", "n": 2}, {"k": "accumulate", "f": "mix", "start": None},
                              {"k": "sliding_window", "n": 2, "partial": True}],
     "xs": [1, 2, 3, 4, 5, 6, 7], "salt": 1, "delays": [3, 0, 1]},
    {"mode": "buffer", "seg": [{"k": "zip_map", "f": "dbl"}, {"k": "starmap", "f": "rev*"},
                               {"k": "accumulate_rs", "f": "rs_prev", "start": 7}, {"k": "buffer", "n": 2}],
     "xs": [1, 2, 3, 4], "salt": 2, "delays": [5, 0, 2]},
    {"mode": "await", "seg": [{"k": "accumulate_rs", "f": "rs_sum", "start": None},
                              {"k": "sliding_window", "n": 3, "partial": False}],
     "xs": [2, 2, 2, 5, 1], "salt": 3, "delays": [0, 4]},
    # fan-in straight into gather with an awaiting producer: two gather.update per input
    {"mode": "await", "seg": [{"k": "union_map", "f": "inc"}], "xs": [0, 10, 20], "salt": 0, "delays": [20]},
    {"mode": "buffer", "seg": [{"k": "union_map", "f": "inc"}, {"k": "buffer", "n": 4}], "xs": [0, 10, 20],
     "salt": 0, "delays": [20]},
    # producer that does not await: every element's gather.update in flight at once
    {"mode": "concurrent", "seg": [{"k": "map", "f": "inc"}], "xs": [0, 1, 2, 3], "salt": 0,
     "delays": [80, 0, 0, 0, 0]},
    {"mode": "concurrent", "seg": [{"k": "map", "f": "dbl"}, {"k": "accumulate", "f": "mix", "start": 0}],
     "xs": [4, 0, 1, 2, 3], "salt": 0, "delays": [0, 0, 0, 0, 0, 0, 0, 0, 60]},
]


# ------------------------------------------------------------------ checking

def model_lines(case):
    return [{"op": "reset", "seg": case["seg"]}, {"op": "local", "xs": case["xs"]}]


def fan_in_before_gather(case):
    """A union after the last buffer: several elements reach gather from one emit."""
    last = None
    for i, k in enumerate(case["seg"]):
        if k["k"] == "union_map":
            last = i
        elif k["k"] == "buffer" and last is not None:
            last = None
    return last is not None


def key(x):
    return common.json.dumps(x, sort_keys=True)


def check_case(ctx, case, answers, loc, dsk):
    n = len(case["xs"])
    ctx.count("mode:" + case["mode"])
    for k in case["seg"]:
        ctx.count("kind:" + k["k"])
    ctx.count("inputs:%s" % ("1-3" if n <= 3 else "4-7" if n <= 7 else "8-10"))
    if dsk["tasks_out_of_order"]:
        ctx.count("tasks-finished-out-of-submission-order")
    if dsk["gather_max"] > 1:
        ctx.count("several-gather-updates-in-flight")
    if any(c != 0 for c in loc["count"]):
        ctx.count("refs-held-at-quiescence")
    ctx.case(case, nontrivial=len(loc["out"]) >= 2 and dsk["tasks"] >= 1)

    # ---- model-free oracle: Dask run vs local run
    pairs_l = list(zip(loc["out"], loc["md"]))
    pairs_d = list(zip(dsk["out"], dsk["md"]))
    explained = True        # Dask sink sequence is the local one up to order (what either gather model allows)
    if dsk["out"] != loc["out"]:
        if sorted(map(key, pairs_d)) == sorted(map(key, pairs_l)):
            sig = SIG_REORDER if dsk["gather_max"] > 1 else "sink:order"
            what = ("gather() delivered results in completion order, not arrival order: %d gather.update coroutines "
                    "were in flight at once" % dsk["gather_max"]) if sig == SIG_REORDER else "results reordered"
        else:
            sig, what, explained = "sink:values", "results differ", False
        ctx.failure(sig, "%s: Dask-backed pipeline delivered %r, local pipeline %r" % (what, dsk["out"], loc["out"]),
                    case, expected=loc["out"], observed=dsk["out"], oracle="dask sink sequence == local sink sequence")
    elif dsk["md"] != loc["md"]:
        explained = False
        ctx.failure("sink:metadata", "metadata refs of the results differ: %r vs local %r" % (dsk["md"], loc["md"]),
                    case, expected=loc["md"], observed=dsk["md"], oracle="same refs attached to the same results")
    if dsk["count"] != loc["count"]:
        ctx.failure("refcount:final-count", "RefCounter values after quiescence %r, locally %r" % (dsk["count"], loc["count"]),
                    case, expected=loc["count"], observed=dsk["count"], oracle="counters balanced as locally")
    elif any(l < 0 for l in dsk["low"]):
        ctx.failure("refcount:negative", "a RefCounter went negative: lowest values %r" % (dsk["low"],), case,
                    oracle="never more releases than retains")
    elif any(dsk["late"][i] and not loc["late"][i] for i in range(n)):
        ctx.failure("refcount:early-release", "results carrying a ref were delivered after its counter had reached zero "
                    "(sink positions per input: %r)" % (dsk["late"],), case, oracle="no release before the element is done")
    elif dsk["zeros"] != loc["zeros"] or dsk["fired"] != loc["fired"]:
        ctx.failure("refcount:callback-count", "counters reached zero %r times (callbacks %r), locally %r (%r)"
                    % (dsk["zeros"], dsk["fired"], loc["zeros"], loc["fired"]), case,
                    expected=loc["zeros"], observed=dsk["zeros"], oracle="done-callback fired as locally")

    # ---- correspondence with the Lean model
    if answers is None:
        return
    a = answers[1]
    if "out" not in a:
        ctx.disagreement("model answered %r" % (a,), case)
        return
    held = [r for h in a["held"] for r in h]
    model_count = [held.count(i) for i in range(n)]
    ok = True
    if a["out"] != loc["out"] or a["md"] != loc["md"]:
        ok = False
        ctx.disagreement("local pipeline delivered %r / %r, model lseg %r / %r" % (loc["out"], loc["md"], a["out"], a["md"]), case)
    if model_count != loc["count"]:
        ok = False
        ctx.disagreement("local RefCounter values %r, model (held) %r" % (loc["count"], model_count), case)
    if not explained:
        ok = False
        ctx.disagreement("Dask pipeline delivered %r / %r; neither gather model (same elements as lseg %r, in some order) explains it"
                         % (dsk["out"], dsk["md"], a["out"]), case)
    if case["mode"] != "concurrent" and not fan_in_before_gather(case) and dsk["gather_max"] > 1:
        ok = False
        ctx.disagreement("hypothesis OneAtATime not established: %d gather.update in flight with an awaiting producer and no "
                         "fan-in before gather" % dsk["gather_max"], case)
    if ok and dsk["out"] == a["out"] and dsk["md"] == a["md"] and dsk["count"] == model_count:
        ctx.coverage["traces_validated_against_impl"] += 1


def model_selfcheck(ctx):
    """The timed model on the two proved schedules (keeps the driver's `dask` op exercised)."""
    seg = [{"k": "union_map", "f": "inc"}]
    t = {"xs": [0, 1], "p": [0, 1000], "sigma": [0, 1000], "T": [[30, 1030]], "g": [0, 0, 1000, 1000]}
    ans = common.lean_driver("Dask", [{"op": "reset", "seg": seg}, dict(t, op="local"), dict(t, op="dask"),
                                      dict(t, op="dask", locked=True), {"op": "nonsense"}])
    if not (ans[1]["out"] == [1, 0, 2, 1] and ans[2]["out"] == [0, 1, 1, 2] and ans[2]["one_at_a_time"] is False
            and ans[3]["out"] == [1, 0, 2, 1] and "bad-op" in ans[4]):
        ctx.disagreement("timed model self-check: %r" % (ans,), {"seg": seg, "times": t})


def run(ctx):
    ctx.audit()
    ctx.assumptions += [
        "a future is a value with an arbitrary completion time; the scheduler's choice of completion order is the only cluster behaviour modelled",
        "elements enter scatter and gather one at a time (awaiting producer or buffer before gather) for the unchanged-code theorem; "
        "with the order-preserving gather only in-order acknowledgement of concurrent client.scatter calls is assumed (observed, not proved)",
        "buffer is modelled at the value level as an order-preserving FIFO; its asynchronous hand-off is the subject of C02/C03",
        "zip/union occur with a side branch through one map from the same upstream (lock-step); zip's maxsize back-pressure is not reached",
        "user functions are pure and total on the values they receive (ints and nested tuples)",
        "real asyncio loop and real worker threads: completion orders are sampled, not enumerated",
    ]
    model_selfcheck(ctx)
    if ctx.thorough():
        plan = [("await", 400), ("buffer", 600), ("concurrent", 200)]
    else:
        plan = [("await", 6), ("buffer", 8), ("concurrent", 3)]
    cases = list(CORPUS)
    for mode, k in plan:
        cases += [gen_case(ctx.rng, mode) for _ in range(k)]
    lines, spans = [], []
    for c in cases:
        ml = model_lines(c)
        spans.append((len(lines), len(lines) + len(ml)))
        lines += ml
    answers = common.lean_driver("Dask", lines)
    t0 = time.time()
    results = run_cases(cases)
    ctx.coverage["cluster_wall_s"] = round(time.time() - t0, 2)
    for c, (a, b), (loc, dsk) in zip(cases, spans, results):
        check_case(ctx, c, answers[a:b], loc, dsk)
    ctx.coverage["trusted_base"] = ctx.coverage["trusted_base"] + [
        "dask/distributed 2026.8.0 in-process cluster (scheduler, worker threads, inproc comms): runtime behaviour observed, not modelled",
    ]
    ctx.coverage["rule"] = (
        "corpus (8 hand-picked pipelines) + seeded generator: segments of 1-4 kinds over map/starmap/accumulate(+-start)/"
        "accumulate(returns_state)/zip/union/buffer/partition/sliding_window with catalogue functions, 1-10 integer inputs, "
        "delay tables of 0-8 ms inside the tasks, three producer modes (await / buffer before gather / concurrent emits); every "
        "case is run locally and on the in-process cluster. Non-trivial: >=2 results at the sink and >=1 task submitted. "
        "Distinct = distinct case JSON.")


def replay(ctx, data):
    ctx.audit()
    case = data["case"]
    answers = common.lean_driver("Dask", model_lines(case))
    (loc, dsk), = run_cases([case])
    check_case(ctx, case, answers, loc, dsk)
    ctx.coverage["rule"] = "replay of one recorded case"
