"""C08 — time windows conserve elements and honour their deadline.

Lean: Model/AsyncWindows.lean (timed_window, timed_window_unique, partition with timeout on an
explicit virtual clock), theorems: conservation, partition size, "timer armed iff 0 < len < n",
deadline.  Oracle (model-free): on the (virtual time, batch) log of the real nodes — every
arrival is in exactly one batch, order kept (per key), no partition larger than n, a partial
partition only at first-arrival + timeout, no empty partition, emission no later than one
interval after arrival plus the time the node was blocked downstream.
"""
from .. import asynccheck as ac
from . import _async_common as A
from .c02 import corr_modules, lean_extra

SIGS = ("window-conservation", "window-deadline", "partition-empty", "partition-oversize", "partition-mixed-keys",
        "partition-spurious-partial", "partition-late-full")
CORPUS = [
    # partition(3, timeout=0): three elements of one key in one loop callback fill the partition; its zero-delay timer must be cancelled
    {"mode": "async", "flavour": "future", "nodes": [{"kind": "source", "ups": []}, {"kind": "partition_timeout", "n": 3, "timeout": 0, "key": None, "ups": [0]},
                                                      {"kind": "sink", "mode": "sync", "f": ["id"], "ups": [1]}],
     "ops": [{"op": "settle"}, {"op": "multi", "ops": [{"op": "emit", "node": 0, "val": v, "md": [{"tag": v, "ref": v}]} for v in (1, 2, 3)]},
             {"op": "multi", "ops": [{"op": "emit", "node": 0, "val": v, "md": []} for v in (4, 5, 6)]}, {"op": "emit", "node": 0, "val": 7, "md": []},
             {"op": "advance", "dt": 1}]},
    # partition(1, timeout): every element fills its partition at once; no timer may be left behind (no empty partition later)
    {"mode": "async", "flavour": "future", "nodes": [{"kind": "source", "ups": []}, {"kind": "partition_timeout", "n": 1, "timeout": 1, "key": None, "ups": [0]},
                                                      {"kind": "sink", "mode": "sync", "f": ["id"], "ups": [1]}],
     "ops": [{"op": "settle"}, {"op": "emit", "node": 0, "val": 1, "md": [{"tag": 1, "ref": 1}]}, {"op": "emit", "node": 0, "val": 2, "md": []},
             {"op": "advance", "dt": 1}, {"op": "emit", "node": 0, "val": 3, "md": []}, {"op": "advance", "dt": 2}]},
    # two partition(timeout) nodes alive at once, same key (None): each has its own timer - A filling up must not touch B's
    {"mode": "async", "flavour": "future", "nodes": [{"kind": "source", "ups": []}, {"kind": "source", "ups": []},
                                                      {"kind": "partition_timeout", "n": 2, "timeout": 1, "key": None, "ups": [0]},
                                                      {"kind": "partition_timeout", "n": 3, "timeout": 2, "key": None, "ups": [1]},
                                                      {"kind": "sink", "mode": "sync", "f": ["id"], "ups": [2]}, {"kind": "sink", "mode": "sync", "f": ["id"], "ups": [3]}],
     "ops": [{"op": "settle"}, {"op": "emit", "node": 0, "val": 1, "md": [{"tag": 1, "ref": 1}]}, {"op": "emit", "node": 1, "val": 2, "md": [{"tag": 2, "ref": 2}]},
             {"op": "emit", "node": 0, "val": 3, "md": [{"tag": 3, "ref": 3}]}, {"op": "advance", "dt": 1}, {"op": "advance", "dt": 1}, {"op": "advance", "dt": 1},
             {"op": "emit", "node": 1, "val": 4, "md": []}, {"op": "emit", "node": 0, "val": 5, "md": []}, {"op": "advance", "dt": 3}]},
    # a None element is the first of its bucket (keep=first): it must stay the window's representative
    {"mode": "async", "flavour": "future", "nodes": [{"kind": "source", "ups": []},
                                                      {"kind": "timed_window_unique", "interval": 1, "key": ["bucketNone", 3], "keep": "first", "ups": [0]},
                                                      {"kind": "sink", "mode": "sync", "f": ["id"], "ups": [1]}],
     "ops": [{"op": "settle"}, {"op": "emit", "node": 0, "val": None, "md": [{"tag": 1, "ref": 1}]}, {"op": "emit", "node": 0, "val": 3, "md": [{"tag": 2, "ref": 2}]},
             {"op": "emit", "node": 0, "val": 4, "md": [{"tag": 3, "ref": 3}]}, {"op": "emit", "node": 0, "val": 6, "md": [{"tag": 4, "ref": 4}]},
             {"op": "advance", "dt": 1}, {"op": "emit", "node": 0, "val": 9, "md": []}, {"op": "emit", "node": 0, "val": None, "md": []}, {"op": "advance", "dt": 2}]},
    {"mode": "async", "flavour": "future", "nodes": [{"kind": "source", "ups": []},
                                                      {"kind": "timed_window_unique", "interval": 1, "key": ["bucketNone", 2], "keep": "last", "ups": [0]},
                                                      {"kind": "sink", "mode": "sync", "f": ["id"], "ups": [1]}],
     "ops": [{"op": "settle"}, {"op": "emit", "node": 0, "val": 2, "md": []}, {"op": "emit", "node": 0, "val": None, "md": []},
             {"op": "emit", "node": 0, "val": 1, "md": []}, {"op": "advance", "dt": 2}]},
]
KINDS = ["timed_window", "timed_window_unique", "partition_timeout", "timed_window", "partition_timeout", "buffer", "rate_limit"]


def indexed_key_case(rng):
    """records are tuples (k, v) / dicts {"k": k, "v": v}; the key is given as an INDEX or a field name, not as a callable"""
    form = rng.choice(["tuple0", "tuple1", "dict"])
    kind = rng.choice(["timed_window_unique", "timed_window_unique", "partition_timeout"])
    case = {"indexed_key": True, "kind": kind, "form": form, "keep": rng.choice(["first", "last"]), "n": rng.choice([2, 3]),
            "timeout": rng.choice([1, 2]), "ops": []}
    v = 0
    for _ in range(rng.randint(4, 10)):
        if rng.random() < 0.3:
            case["ops"].append(["adv", rng.choice([0.5, 1, 2])])
        else:
            v += 1
            case["ops"].append(["emit", rng.choice([0, 0, 1, 2, "", None]) if form != "tuple1" else v, v])     # (key, value): falsy keys included
    case["ops"].append(["adv", 3])
    return case


def run_indexed_key_case(ctx, case):
    """model-free: the real node with key=<index | field name> against a direct computation of the documented meaning"""
    import asyncio
    from streamz import Stream
    from tornado.ioloop import IOLoop
    from .. import vloop
    form, kind = case["form"], case["kind"]
    key = {"tuple0": 0, "tuple1": 1, "dict": "k"}[form]

    def rec(k, v):
        return {"k": k, "v": v} if form == "dict" else ((k, v) if form == "tuple0" else (v, k))

    def keyof(r):
        return r["k"] if form == "dict" else r[key]
    got, log = [], []

    async def main(loop):
        src = Stream(asynchronous=True, loop=IOLoop.current())
        if kind == "timed_window_unique":
            node = src.timed_window_unique(1, key=key, keep=case["keep"])
        else:
            node = src.partition(case["n"], timeout=case["timeout"], key=key)
        node.sink(lambda b: got.append((loop.time(), list(b))))
        await vloop.settle(loop)
        t0 = loop.time()
        for op in case["ops"]:
            if op[0] == "emit":
                r = rec(op[1], op[2])
                log.append((loop.time() - t0, r))
                await src.emit(r)
            else:
                await vloop.advance(op[1], loop)
            await vloop.settle(loop)
        return t0
    t0 = vloop.run(main)
    batches = [(round(t - t0, 6), b) for t, b in got if b]
    flat = [r for _, b in batches for r in b]
    arrivals = [r for _, r in log]
    ctx.case(case, nontrivial=len(arrivals) >= 3)
    ctx.count("indexed-key:" + kind + ":" + form)
    what = None
    if kind == "timed_window_unique":
        # windows of length 1 starting at t0: per window one record per key (first / last arrival of the key), in the batch order the node
        # documents (first: order of first arrival; last: order of last arrival)
        want = []
        wins = {}
        for t, r in log:
            wins.setdefault(int(t // 1), []).append(r)
        for w in sorted(wins):
            rs = wins[w]
            if case["keep"] == "first":
                seen, out = [], []
                for r in rs:
                    if keyof(r) not in seen:
                        seen.append(keyof(r))
                        out.append(r)
            else:
                out = []
                for i, r in enumerate(rs):
                    if all(keyof(q) != keyof(r) for q in rs[i + 1:]):
                        out.append(r)
            want += out
        if flat != want:
            what = "timed_window_unique(1, key=%r, keep=%s) over %r delivered %r; one record per key and window is %r" % (key, case["keep"], arrivals, flat, want)
    else:
        per_key = {}
        for r in arrivals:
            per_key.setdefault(repr(keyof(r)), []).append(r)
        for _, b in batches:
            ks = {repr(keyof(r)) for r in b}
            if len(ks) != 1 or len(b) > case["n"]:
                what = "partition(%d, timeout, key=%r) emitted %r: one key per partition, at most n members" % (case["n"], key, b)
                break
        if what is None:
            for k, rs in per_key.items():
                if [r for r in flat if repr(keyof(r)) == k] != rs:
                    what = "partition(key=%r): key %s received %r, delivered %r" % (key, k, rs, [r for r in flat if repr(keyof(r)) == k])
                    break
    if what:
        ctx.failure("window-conservation:indexed-key", what, case, oracle="documented meaning of key=<index | field name>")


def run(ctx):
    ctx.audit(extra_modules=lean_extra("C08"))
    for _ in range(40 if not ctx.thorough() else 600):
        run_indexed_key_case(ctx, indexed_key_case(ctx.rng))
    n = 200 if not ctx.thorough() else 6000
    A.sweep(ctx, n, KINDS, ["windows"], SIGS, allow_zip=False, corpus=CORPUS)
    # several emissions in ONE loop callback (a burst from a flatten, back-to-back emits): a partition can fill up before its timer
    # - also a zero-delay one - has had a chance to fire
    A.sweep(ctx, n // 3, KINDS, ["windows"], SIGS, allow_zip=False, opts={"p_multi": 0.35})
    for m in corr_modules():
        if m.__name__.endswith("asyncwindows"):
            m.run(ctx, "C08", 60 if not ctx.thorough() else 2500)
    ctx.coverage["rule"] = ("random pipelines containing timed_window / timed_window_unique / partition(n, timeout, key) with arrivals before, at and after "
                            "tick instants (clock advances of 0.25-2 s against intervals of 1-2 s), bursts, arrivals while the node is blocked by a slow consumer. "
                            "Non-trivial: >= 2 emissions and >= 8 events.")
    ctx.assumptions += ["timers fire at their due time (virtual loop); real timer lateness shifts the deadline by the lateness and is not modelled",
                        "the deadline clause is evaluated only when no other timing node sits downstream of the window node"]


def replay(ctx, data):
    ctx.audit(extra_modules=lean_extra("C08"))
    case = data["case"]
    if case.get("indexed_key"):
        run_indexed_key_case(ctx, case)
        ctx.coverage["rule"] = "replay of one recorded case"
        return
    ac.evaluate(ctx, case, ac.rerun(case), ["windows"], SIGS)
    ctx.coverage["rule"] = "replay of one recorded case"
