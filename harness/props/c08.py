"""C08 — time windows conserve elements and honour their deadline.

Lean: Model/AsyncWindows.lean (timed_window, timed_window_unique, partition with timeout on an
explicit virtual clock), theorems: conservation, partition size, "timer armed iff 0 < len < n",
deadline.  Oracle (model-free): on the (virtual time, batch) log of the real nodes — every
arrival is in exactly one batch, order kept (per key), no partition larger than n, a partial
partition only at first-arrival + timeout, no empty partition, emission no later than one
interval after arrival plus the time the node was blocked downstream.
"""
from .. import asynccheck as ac
from . import _async_common as A
from .c02 import corr_modules, lean_extra

SIGS = ("window-conservation", "window-deadline", "partition-empty", "partition-oversize", "partition-mixed-keys",
        "partition-spurious-partial", "partition-late-full")
CORPUS = [
    # a None element is the first of its bucket (keep=first): it must stay the window's representative
    {"mode": "async", "flavour": "future", "nodes": [{"kind": "source", "ups": []},
                                                      {"kind": "timed_window_unique", "interval": 1, "key": ["bucketNone", 3], "keep": "first", "ups": [0]},
                                                      {"kind": "sink", "mode": "sync", "f": ["id"], "ups": [1]}],
     "ops": [{"op": "settle"}, {"op": "emit", "node": 0, "val": None, "md": [{"tag": 1, "ref": 1}]}, {"op": "emit", "node": 0, "val": 3, "md": [{"tag": 2, "ref": 2}]},
             {"op": "emit", "node": 0, "val": 4, "md": [{"tag": 3, "ref": 3}]}, {"op": "emit", "node": 0, "val": 6, "md": [{"tag": 4, "ref": 4}]},
             {"op": "advance", "dt": 1}, {"op": "emit", "node": 0, "val": 9, "md": []}, {"op": "emit", "node": 0, "val": None, "md": []}, {"op": "advance", "dt": 2}]},
    {"mode": "async", "flavour": "future", "nodes": [{"kind": "source", "ups": []},
                                                      {"kind": "timed_window_unique", "interval": 1, "key": ["bucketNone", 2], "keep": "last", "ups": [0]},
                                                      {"kind": "sink", "mode": "sync", "f": ["id"], "ups": [1]}],
     "ops": [{"op": "settle"}, {"op": "emit", "node": 0, "val": 2, "md": []}, {"op": "emit", "node": 0, "val": None, "md": []},
             {"op": "emit", "node": 0, "val": 1, "md": []}, {"op": "advance", "dt": 2}]},
]
KINDS = ["timed_window", "timed_window_unique", "partition_timeout", "timed_window", "partition_timeout", "buffer", "rate_limit"]


def run(ctx):
    ctx.audit(extra_modules=lean_extra("C08"))
    n = 200 if not ctx.thorough() else 6000
    A.sweep(ctx, n, KINDS, ["windows"], SIGS, allow_zip=False, corpus=CORPUS)
    for m in corr_modules():
        if m.__name__.endswith("asyncwindows"):
            m.run(ctx, "C08", 60 if not ctx.thorough() else 2500)
    ctx.coverage["rule"] = ("random pipelines containing timed_window / timed_window_unique / partition(n, timeout, key) with arrivals before, at and after "
                            "tick instants (clock advances of 0.25-2 s against intervals of 1-2 s), bursts, arrivals while the node is blocked by a slow consumer. "
                            "Non-trivial: >= 2 emissions and >= 8 events.")
    ctx.assumptions += ["timers fire at their due time (virtual loop); real timer lateness shifts the deadline by the lateness and is not modelled",
                        "the deadline clause is evaluated only when no other timing node sits downstream of the window node"]


def replay(ctx, data):
    ctx.audit(extra_modules=lean_extra("C08"))
    case = data["case"]
    ac.evaluate(ctx, case, ac.rerun(case), ["windows"], SIGS)
    ctx.coverage["rule"] = "replay of one recorded case"
