"""C11 — rolling / cumulative / expanding / ewm results do not depend on batching.

Lean: Model/Rolling.lean, Proofs/Rolling.lean, Props/C11.lean (for every table and every
composition into batches the emitted frames, taken together, are the one-pass result; rolling
parametric in the window reduction; cumulative with NaN skipping; expanding Sum/Count/Mean/Var;
EWMean emits the one-pass value at the batch's last row).

Correspondence (this file).  Every case is a small table (two float columns `x`, `y` holding
small integers and NaN, a monotonic datetime index with duplicates and gaps) cut into
consecutive batches (empty ones included).  The REAL streaming dataframe API is driven batch by
batch in-process and observed after every batch (emitted frame + the accumulate node's state):

  rolling   sdf.rolling(W | 'Ws').<agg>()     vs Lean `rollStep` (outputs and carried rows, per column)
  cum       sdf.cumsum/cumprod/cummin/cummax  vs Lean `cumStep`  (outputs and carried row)
  exp       sdf.expanding().<agg>()           vs Lean `expStep`  (value and rows kept)
  ewm       sdf.ewm(com|alpha|span).mean()    vs Lean `ewmStep`  (value, old_wt, is_first)
  ewm+NaN   the same on tables WITH NaN cells  vs Lean `ewmStepNan` (value, old_wt, is_first: the model of the
            recorded finding `ewm-nan-unsupported`), and pandas vs the Lean NaN specification `ewmAtNan` at every row

and the Lean one-pass definitions (`rollWhole`, `cumWhole`, …) are compared with pandas in one
pass over the concatenation.  The model-free oracle is the property statement itself:
pd.concat(emitted) == pandas(one pass over pd.concat(batches)).
"""
import itertools
import math
import warnings

from .. import common

ROLL_AGGS = ["sum", "mean", "min", "max", "median", "std", "var", "count", "quantile", "aggregate"]
CUM_OPS = ["cumsum", "cumprod", "cummin", "cummax"]
EXP_AGGS = ["sum", "count", "mean", "var", "std"]
COUNT_WINDOWS = [1, 2, 3, 4]
TIME_WINDOWS = [1, 2, 3]
VALUES = [None, 0, 1, 2, 3, -1, 4]
TOL = 1e-9


# ------------------------------------------------------------------ small helpers

def fl(v):
    return float("nan") if v is None else float(v)


def rat(j):
    """model answer (null | [num, den] | int) -> float"""
    if j is None:
        return float("nan")
    if isinstance(j, list):
        return j[0] / j[1]
    return float(j)


def close(a, b):
    a, b = float(a), float(b)
    if math.isnan(a) or math.isnan(b):
        return math.isnan(a) and math.isnan(b)
    return abs(a - b) <= TOL * max(1.0, abs(b))


def close_list(a, b):
    return len(a) == len(b) and all(close(p, q) for p, q in zip(a, b))


def columns_of(case):
    return ["x"] if case.get("frame") == "series" else ["x", "y"]


def build_frame(case):
    import pandas as pd
    idx = pd.to_datetime(case["times"], unit="s")
    return pd.DataFrame({c: [fl(v) for v in case[c]] for c in ("x", "y")}, index=idx, dtype="float64")


def cut(df, sizes):
    out, p = [], 0
    for s in sizes:
        out.append(df.iloc[p:p + s])
        p += s
    return out


def find_acc(stream):
    while type(stream).__name__ != "accumulate":
        stream = stream.upstreams[0]
    return stream


def col_values(obj, col, frame):
    """values of column `col` of an emitted pandas object as a list of floats"""
    if frame == "series":
        return [float(v) for v in obj.tolist()]
    return [float(v) for v in obj[col].tolist()]


def secs(index):
    return [int(v) // 10 ** 9 for v in index.as_unit("ns").asi8.tolist()]


def get(sdf, case):
    return sdf.x if case.get("frame") == "series" else sdf


def pget(df, case):
    return df.x if case.get("frame") == "series" else df


# ------------------------------------------------------------------ implementation runners
# each returns per batch an observation dict; exceptions propagate to the caller

def roll_call(r, case):
    agg = case["agg"]
    if agg == "quantile":
        return r.quantile(case["q"][0] / case["q"][1])
    if agg == "aggregate":
        return r.aggregate(case["func"])
    if agg in ("std", "var") and case.get("ddof") is not None:
        return getattr(r, agg)(ddof=case["ddof"])
    return getattr(r, agg)()


def window_arg(case):
    import pandas as pd
    return case["W"] if case["win"] == "count" else pd.Timedelta(seconds=case["W"])


def run_rolling_impl(case):
    from streamz.dataframe import DataFrame
    df = build_frame(case)
    sdf = DataFrame(example=df.iloc[:0])
    w = case["W"] if case["win"] == "count" else "%ds" % case["W"]
    node = roll_call(get(sdf, case).rolling(w), case)
    L = node.stream.sink_to_list()
    acc = find_acc(node.stream)
    obs = []
    for b in cut(df, case["sizes"]):
        n0 = len(L)
        sdf.emit(b)
        assert len(L) == n0 + 1, "one emission per batch expected, got %d" % (len(L) - n0)
        st = acc.state
        o = {"len": len(L[-1]), "index": secs(L[-1].index), "out": {}, "carry": {}}
        for c in columns_of(case):
            o["out"][c] = col_values(L[-1], c, case.get("frame"))
            vals = col_values(st, c, case.get("frame")) if len(st) else []
            o["carry"][c] = list(zip(secs(st.index) if len(st) else [], vals))
        obs.append(o)
    return df, L, obs


def run_cum_impl(case):
    from streamz.dataframe import DataFrame
    df = build_frame(case)
    sdf = DataFrame(example=df.iloc[:0])
    node = getattr(get(sdf, case), case["op"])()
    L = node.stream.sink_to_list()
    acc = find_acc(node.stream)
    obs = []
    for b in cut(df, case["sizes"]):
        n0 = len(L)
        sdf.emit(b)
        assert len(L) == n0 + 1
        st = acc.state
        o = {"len": len(L[-1]), "index": secs(L[-1].index), "out": {}, "state": {}}
        for c in columns_of(case):
            o["out"][c] = col_values(L[-1], c, case.get("frame"))
            o["state"][c] = col_values(st, c, case.get("frame")) if len(st) else []
        obs.append(o)
    return df, L, obs


def exp_call(e, case):
    agg = case["agg"]
    if agg in ("var", "std"):
        return getattr(e, agg)(ddof=case.get("ddof", 1))
    return getattr(e, agg)()


def run_exp_impl(case):
    from streamz.dataframe import DataFrame
    df = build_frame(case)
    sdf = DataFrame(example=df.iloc[:0])
    node = exp_call(get(sdf, case).expanding(), case)
    L = node.stream.sink_to_list()
    acc = find_acc(node.stream)
    obs = []
    for b in cut(df, case["sizes"]):
        n0 = len(L)
        sdf.emit(b)
        assert len(L) == n0 + 1
        r = L[-1]
        o = {"out": {}, "rows": sum(len(d) for d in acc.state["dfs"])}
        for c in columns_of(case):
            o["out"][c] = float(r) if case.get("frame") == "series" else float(r[c])
        obs.append(o)
    return df, L, obs


def ewm_kwargs(case):
    k, (n, d) = case["param"], case["pval"]
    return {k: n / d}


def ewm_q(case):
    """old_wt_factor = 1 - alpha as an exact fraction [num, den]"""
    from fractions import Fraction
    k, v = case["param"], Fraction(*case["pval"])
    if k == "com":
        com = v
    elif k == "span":
        com = (v - 1) / 2
    elif k == "alpha":
        com = (1 - v) / v
    else:
        raise ValueError(k)
    q = com / (1 + com)
    return [q.numerator, q.denominator]


def run_ewm_impl(case):
    from streamz.dataframe import DataFrame
    df = build_frame(case)
    sdf = DataFrame(example=df.iloc[:0])
    node = get(sdf, case).ewm(**ewm_kwargs(case)).mean()
    L = node.stream.sink_to_list()
    acc = find_acc(node.stream)
    obs = []
    for b in cut(df, case["sizes"]):
        n0 = len(L)
        sdf.emit(b)
        assert len(L) == n0 + 1
        r = L[-1]
        st = acc.state
        o = {"len": len(r), "out": {}, "old_wt": float(st["state"][1]), "is_first": bool(st["state"][2]),
             "rows": sum(len(d) for d in st["dfs"])}
        for c in columns_of(case):
            o["out"][c] = col_values(r, c, case.get("frame"))
        obs.append(o)
    return df, L, obs


# ------------------------------------------------------------------ model lines

def rows_json(case, col, a, b):
    return [[case["times"][i], case[col][i]] for i in range(a, b)]


def spans(sizes):
    p = 0
    for s in sizes:
        yield p, p + s
        p += s


def model_lines(case):
    """One block per column: reset, one `batch` per batch, one `whole`."""
    lines = []
    n = len(case["times"])
    for c in columns_of(case):
        kind = case["kind"]
        if kind == "rolling":
            agg = case["agg"]
            magg = {"std": "var", "aggregate": case.get("func")}.get(agg, agg)
            if magg == "var" and case.get("ddof", 1) != 1:
                magg = "var%d" % case["ddof"]
            hdr = {"op": "reset", "model": "rolling", "win": case["win"], "W": case["W"], "agg": magg}
            if agg == "quantile":
                hdr["q"] = case["q"]
            lines.append(hdr)
            for a, b in spans(case["sizes"]):
                lines.append({"op": "batch", "rows": rows_json(case, c, a, b)})
            lines.append({"op": "whole", "rows": rows_json(case, c, 0, n)})
        else:
            if kind == "cum":
                hdr = {"op": "reset", "model": "cum", "f": case["op"]}
            elif kind == "exp":
                hdr = {"op": "reset", "model": "exp", "agg": "var" if case["agg"] == "std" else case["agg"],
                       "ddof": case.get("ddof", 1)}
            elif kind == "ewm" and has_nan(case):
                # the defect-mirroring model of the finding ewm-nan-unsupported + the pandas NaN specification
                hdr = {"op": "reset", "model": "ewmnan", "q": ewm_q(case)}
            elif kind == "ewm":
                hdr = {"op": "reset", "model": "ewm", "q": ewm_q(case)}
            else:
                raise ValueError(kind)
            lines.append(hdr)
            for a, b in spans(case["sizes"]):
                lines.append({"op": "batch", "vals": case[c][a:b]})
            lines.append({"op": "whole", "vals": case[c][:n]})
    return lines


# ------------------------------------------------------------------ checking

def post(case, v):
    """model value -> value comparable with the implementation (std is sqrt of the modelled var)"""
    if case.get("agg") == "std":
        return float("nan") if math.isnan(v) else math.sqrt(max(v, 0.0))
    return v


def has_nan(case):
    return any(v is None for c in columns_of(case) for v in case[c])


def classify_cum(case, col, obs_flat, want):
    """stable signature of a cumulative failure: did a non-empty batch end in NaN before the first wrong row?"""
    first_bad = next((i for i, (a, b) in enumerate(zip(obs_flat, want)) if not close(a, b)), None)
    if first_bad is None:
        return "cumulative"
    for a, b in spans(case["sizes"]):
        if b > a and b <= first_bad and case[col][b - 1] is None:
            return "cumulative-nan-carry"
    return "cumulative"


def check_case(ctx, case, answers):
    import pandas as pd
    kind = case["kind"]
    sizes = case["sizes"]
    n = len(case["times"])
    assert sum(sizes) == n
    frame = case.get("frame", "df")
    cols = columns_of(case)
    nonempty = [s for s in sizes if s]
    ctx.count("kind:" + kind)
    ctx.count("rows:%d" % n)
    ctx.count("frame:" + frame)
    if any(s == 0 for s in sizes):
        ctx.count("with-empty-batch")
    if sizes and sizes[0] == 0:
        ctx.count("empty-first-batch")
    if any(case[c][b - 1] is None for c in cols for a, b in spans(sizes) if b > a and b < n):
        ctx.count("nan-at-batch-boundary")
    ctx.case(case, nontrivial=len(nonempty) >= 2)

    runner = {"rolling": run_rolling_impl, "cum": run_cum_impl, "exp": run_exp_impl, "ewm": run_ewm_impl}[kind]
    with warnings.catch_warnings():
        warnings.simplefilter("ignore")
        try:
            df, L, obs = runner(case)
        except Exception as e:  # the API itself failed on this input
            ctx.failure("%s-raises:%s" % (kind, type(e).__name__), "%s raised %r" % (kind, e), case,
                        oracle="every batch is accepted and answered with one emission")
            return
        whole = pget(df, case)
        model_blocks = None
        if answers:
            per = len(sizes) + 2
            model_blocks = {c: answers[i * per:(i + 1) * per] for i, c in enumerate(cols)}
            for c in cols:
                for a in model_blocks[c]:
                    if "bad-op" in a:
                        ctx.disagreement("model answered %r" % (a,), case)
                        return

        # ---------------- rolling
        if kind == "rolling":
            ctx.count("rolling:%s:%s" % (case["win"], case["agg"]))
            if case["win"] == "count" and any(0 < s < case["W"] for s in sizes):
                ctx.count("batch-shorter-than-window")
            expected = roll_call(whole.rolling(window_arg(case)), case)
            sig = "rolling-" + case["win"]
            ok = True
            for c in cols:
                want = col_values(expected, c, frame)
                got = [v for o in obs for v in o["out"][c]]
                if not close_list(got, want):
                    ok = False
                    ctx.failure(sig, "rolling(%s).%s column %s: batches %r emitted %r, pandas in one pass %r"
                                % (case["W"], case["agg"], c, sizes, got, want), case, expected=want, observed=got,
                                oracle="concat(emitted) == df.rolling(window).agg()")
                    break
            if ok and ([o["len"] for o in obs] != sizes or [t for o in obs for t in o["index"]] != case["times"]):
                ok = False
                ctx.failure(sig + "-rows", "emitted frames have rows %r / index %r for batches %r"
                            % ([o["len"] for o in obs], [o["index"] for o in obs], sizes), case,
                            oracle="one output row per input row, same index")
            if model_blocks is not None:
                good = True
                for c in cols:
                    blk = model_blocks[c]
                    for k, o in enumerate(obs):
                        m = blk[1 + k]
                        mout = [post(case, rat(v)) for v in m["out"]]
                        mcarry = [(t, fl(v)) for t, v in m["carry"]]
                        icarry = o["carry"][c]
                        if not close_list(o["out"][c], mout):
                            good = False
                            ctx.disagreement("rolling output batch %d col %s: impl %r model %r" % (k, c, o["out"][c], mout), case)
                        elif [t for t, _ in icarry] != [t for t, _ in mcarry] or not close_list([v for _, v in icarry], [v for _, v in mcarry]):
                            good = False
                            ctx.disagreement("rolling carry batch %d col %s: impl %r model %r" % (k, c, icarry, mcarry), case)
                        if not good:
                            break
                    if good:
                        mw = [post(case, rat(v)) for v in blk[-1]["out"]]
                        if not close_list(mw, col_values(expected, c, frame)):
                            good = False
                            ctx.disagreement("one-pass rolling col %s: pandas %r model %r" % (c, col_values(expected, c, frame), mw), case)
                    if not good:
                        break
                if good:
                    ctx.coverage["traces_validated_against_impl"] += 1

        # ---------------- cumulative
        elif kind == "cum":
            ctx.count("cum:" + case["op"])
            expected = getattr(whole, case["op"])()
            for c in cols:
                want = col_values(expected, c, frame)
                got = [v for o in obs for v in o["out"][c]]
                if not close_list(got, want):
                    ctx.failure(classify_cum(case, c, got, want),
                                "%s column %s: batches %r emitted %r, pandas in one pass %r" % (case["op"], c, sizes, got, want),
                                case, expected=want, observed=got, oracle="concat(emitted) == df.%s()" % case["op"])
                    break
            else:
                if [o["len"] for o in obs] != sizes or [t for o in obs for t in o["index"]] != case["times"]:
                    ctx.failure("cumulative-rows", "emitted frames have rows %r for batches %r" % ([o["len"] for o in obs], sizes),
                                case, oracle="one output row per input row, same index")
            if model_blocks is not None:
                good = True
                for c in cols:
                    blk = model_blocks[c]
                    for k, o in enumerate(obs):
                        m = blk[1 + k]
                        if not close_list(o["out"][c], [fl(v) for v in m["out"]]):
                            good = False
                            ctx.disagreement("%s output batch %d col %s: impl %r model %r" % (case["op"], k, c, o["out"][c], m["out"]), case)
                        elif not close_list(o["state"][c], [fl(v) for v in m["state"]]):
                            good = False
                            ctx.disagreement("%s carried row after batch %d col %s: impl %r model %r" % (case["op"], k, c, o["state"][c], m["state"]), case)
                        if not good:
                            break
                    if good and not close_list([fl(v) for v in blk[-1]["out"]], col_values(expected, c, frame)):
                        good = False
                        ctx.disagreement("one-pass %s col %s: pandas %r model %r" % (case["op"], c, col_values(expected, c, frame), blk[-1]["out"]), case)
                    if not good:
                        break
                if good:
                    ctx.coverage["traces_validated_against_impl"] += 1

        # ---------------- expanding
        elif kind == "exp":
            ctx.count("exp:" + case["agg"])
            sig = "expanding-" + case["agg"]
            failed = False
            refs = []
            p = 0
            for k, s in enumerate(sizes):
                p += s
                pre = whole.iloc[:p]
                if case["agg"] == "mean" and frame == "series" and all(v is None for v in case["x"][:p]):
                    # aggregations.Mean on a scalar count of 0 (the `counts = 1` substitute; shared with C06/C07)
                    sig = "expanding-mean-zero-count"
                ref = {}
                for c in cols:
                    col = pre if frame == "series" else pre[c]
                    if p == 0:
                        # nothing seen yet: the plain pandas reduction of the empty column
                        r = {"sum": 0.0, "count": 0.0}.get(case["agg"], float("nan"))
                    else:
                        r = float(exp_call(col.expanding(min_periods=0), case).iloc[-1])
                    ref[c] = r
                refs.append(ref)
                for c in cols:
                    if not failed and not close(obs[k]["out"][c], ref[c]):
                        nvalid = sum(1 for v in case[c][:p] if v is not None)
                        if case["agg"] in ("var", "std") and case.get("ddof", 1) >= 2 and 1 <= nvalid <= case["ddof"] and ref[c] != ref[c]:
                            # aggregations.Var divides by n - ddof without looking at its sign: inf (n == ddof) or a negated value
                            # (n < ddof) where pandas says NaN - recorded finding, only reachable with ddof >= 2
                            ctx.failure("var-ddof>=2:n<=ddof", "expanding().%s(ddof=%d) column %s after batch %d of %r: %d valid value(s) so far, "
                                        "emitted %r, pandas NaN" % (case["agg"], case["ddof"], c, k, sizes, nvalid, obs[k]["out"][c]), case,
                                        expected=ref[c], observed=obs[k]["out"][c])
                            continue
                        failed = True
                        ctx.failure(sig, "expanding().%s column %s after batch %d of %r: emitted %r, pandas on the %d rows so far %r"
                                    % (case["agg"], c, k, sizes, obs[k]["out"][c], p, ref[c]), case, expected=ref[c],
                                    observed=obs[k]["out"][c],
                                    oracle="emitted value == df[:rows so far].expanding(min_periods=0).agg().iloc[-1]")
            if model_blocks is not None:
                good = True
                for c in cols:
                    blk = model_blocks[c]
                    p = 0
                    for k, o in enumerate(obs):
                        p += sizes[k]
                        m = blk[1 + k]
                        mv = post(case, rat(m["out"]))
                        if case["agg"] in ("var", "std") and case.get("ddof", 1) >= 2 and 1 <= sum(1 for v in case[c][:p] if v is not None) <= case["ddof"]:
                            continue        # the recorded finding var-ddof>=2:n<=ddof: the model (like pandas) says NaN there
                        if not close(o["out"][c], mv):
                            good = False
                            ctx.disagreement("expanding %s batch %d col %s: impl %r model %r" % (case["agg"], k, c, o["out"][c], mv), case)
                        elif o["rows"] != m["rows"] or o["rows"] != p:
                            good = False
                            ctx.disagreement("expanding window keeps %r rows, model %r, seen %r" % (o["rows"], m["rows"], p), case)
                        if not good:
                            break
                    if good and n and not close(post(case, rat(blk[-1]["out"])), refs[-1][c]):
                        good = False
                        ctx.disagreement("one-pass expanding %s col %s: pandas %r model %r" % (case["agg"], c, refs[-1][c], blk[-1]["out"]), case)
                    if not good:
                        break
                if good:
                    ctx.coverage["traces_validated_against_impl"] += 1

        # ---------------- ewm
        elif kind == "ewm":
            ctx.count("ewm:" + case["param"])
            nan_table = has_nan(case)
            if nan_table:
                sig = "ewm-nan-unsupported"
            elif sizes and sizes[0] == 0 and n:
                sig = "ewm-empty-first"
            else:
                sig = "ewm"
            expected = whole.ewm(**ewm_kwargs(case)).mean()
            p = 0
            failed = False
            for k, s in enumerate(sizes):
                p += s
                for c in cols:
                    want = [] if p == 0 else [col_values(expected, c, frame)[p - 1]]
                    if not failed and not close_list(obs[k]["out"][c], want):
                        failed = True
                        ctx.failure(sig, "ewm(%s=%s).mean() column %s after batch %d of %r: emitted %r, pandas at the last of the %d rows so far %r"
                                    % (case["param"], case["pval"], c, k, sizes, obs[k]["out"][c], p, want), case,
                                    expected=want, observed=obs[k]["out"][c],
                                    oracle="emitted row == df.ewm(...).mean().iloc[rows so far - 1] (nothing before the first row)")
            if model_blocks is not None and nan_table:
                # NaN cells: the real streamz output must be the NaN-aware model of EWMean (`ewmStepNan`: NaN is
                # absorbing per column, old_wt keeps counting) and the real pandas output must be the Lean NaN
                # specification (`ewmAtNan`) at every row
                good = True
                for c in cols:
                    blk = model_blocks[c]
                    want_col = col_values(expected, c, frame)
                    p = 0
                    for k, o in enumerate(obs):
                        p += sizes[k]
                        m = blk[1 + k]
                        mout = [rat(v) for v in m["out"]]
                        mpd = [rat(v) for v in m["pandas"]]
                        if not close_list(o["out"][c], mout):
                            good = False
                            ctx.disagreement("ewm (NaN cells) batch %d col %s: impl %r NaN-aware model %r" % (k, c, o["out"][c], mout), case)
                        elif not close(o["old_wt"], rat(m["old_wt"])) or o["is_first"] != m["is_first"]:
                            good = False
                            ctx.disagreement("ewm (NaN cells) state after batch %d: impl old_wt=%r is_first=%r, model %r %r"
                                             % (k, o["old_wt"], o["is_first"], m["old_wt"], m["is_first"]), case)
                        elif o["rows"] != p or m["rows"] != p:
                            good = False
                            ctx.disagreement("ewm (NaN cells) window keeps %r rows, model %r, seen %r" % (o["rows"], m["rows"], p), case)
                        elif not close_list(mpd, [] if p == 0 else [want_col[p - 1]]):
                            good = False
                            ctx.disagreement("ewm (NaN cells) pandas at row %d col %s: pandas %r NaN specification %r"
                                             % (p - 1, c, want_col[p - 1] if p else None, mpd), case)
                        if not good:
                            break
                    if good:
                        mw = [rat(v) for v in blk[-1]["out"]]
                        if not close_list(mw, want_col):
                            good = False
                            ctx.disagreement("one-pass ewm (NaN cells) col %s: pandas %r NaN specification %r" % (c, want_col, mw), case)
                    if not good:
                        break
                if good:
                    ctx.count("ewm:nan:compared-with-model")
                    if failed:
                        ctx.count("ewm:nan:streamz-differs-from-pandas")
                    if any(v is None for c in cols for v in case[c][:1]):
                        ctx.count("ewm:nan:leading")
                    if any(case[c][i] is None and case[c][i + 1] is None for c in cols for i in range(n - 1)):
                        ctx.count("ewm:nan:consecutive")
                    if any(v is None for c in cols for v in case[c][-1:]):
                        ctx.count("ewm:nan:trailing")
                    if ewm_q(case)[0] == 0:
                        ctx.count("ewm:nan:alpha=1")
                    ctx.coverage["traces_validated_against_impl"] += 1
            if model_blocks is not None and not nan_table:
                good = True
                for c in cols:
                    blk = model_blocks[c]
                    p = 0
                    for k, o in enumerate(obs):
                        p += sizes[k]
                        m = blk[1 + k]
                        mout = [] if m["out"] is None else [rat(m["out"])]
                        if not close_list(o["out"][c], mout):
                            good = False
                            ctx.disagreement("ewm batch %d col %s: impl %r model %r" % (k, c, o["out"][c], mout), case)
                        elif not close(o["old_wt"], rat(m["old_wt"])) or o["is_first"] != m["is_first"]:
                            good = False
                            ctx.disagreement("ewm state after batch %d: impl old_wt=%r is_first=%r, model %r %r"
                                             % (k, o["old_wt"], o["is_first"], m["old_wt"], m["is_first"]), case)
                        elif o["rows"] != p:
                            good = False
                            ctx.disagreement("ewm window keeps %r rows, seen %r" % (o["rows"], p), case)
                        if not good:
                            break
                    if good and n:
                        mw = rat(blk[-1]["out"])
                        if not close(mw, col_values(expected, c, frame)[-1]):
                            good = False
                            ctx.disagreement("one-pass ewm col %s: pandas %r model %r" % (c, col_values(expected, c, frame)[-1], mw), case)
                    if not good:
                        break
                if good:
                    ctx.coverage["traces_validated_against_impl"] += 1


# ------------------------------------------------------------------ generators

def gen_times(rng, n):
    t, out = rng.choice([0, 0, 5]), []
    for _ in range(n):
        t += rng.choice([0, 0, 1, 1, 1, 2, 3])
        out.append(t)
    return out


def gen_col(rng, n, nan_p):
    return [None if rng.random() < nan_p else rng.choice(VALUES[1:]) for _ in range(n)]


def gen_table(rng, n, nan_p=None):
    nan_p = rng.choice([0.0, 0.2, 0.4, 0.7]) if nan_p is None else nan_p
    return {"times": gen_times(rng, n), "x": gen_col(rng, n, nan_p), "y": gen_col(rng, n, min(1.0, nan_p + 0.2))}


def gen_sizes(rng, table, force_nan_boundary=True):
    """random composition with empty batches sprinkled in; cuts are preferably placed right after NaN rows"""
    n = len(table["times"])
    cand = list(range(1, n))
    cuts = set()
    if force_nan_boundary:
        nan_after = [i + 1 for i in range(n - 1) if table["x"][i] is None or table["y"][i] is None]
        for c in nan_after:
            if rng.random() < 0.6:
                cuts.add(c)
    for c in cand:
        if rng.random() < 0.3:
            cuts.add(c)
    cuts = sorted(cuts)
    sizes = [b - a for a, b in zip([0] + cuts, cuts + [n])] if n else []
    out = []
    if rng.random() < 0.3:
        out.append(0)
    for s in sizes:
        out.append(s)
        if rng.random() < 0.2:
            out.append(0)
    if not out:
        out = [0]
    return out


def compositions(n):
    """all compositions of n rows into non-empty consecutive batches"""
    if n == 0:
        yield []
        return
    for mask in range(2 ** (n - 1)):
        sizes, cur = [], 1
        for i in range(n - 1):
            if mask >> i & 1:
                sizes.append(cur)
                cur = 1
            else:
                cur += 1
        sizes.append(cur)
        yield sizes


def with_empties(rng, sizes, mode):
    """mode 0: as is; 1: an empty batch first; 2: random empties (also first/last)"""
    if mode == 0:
        return list(sizes)
    if mode == 1:
        return [0] + list(sizes)
    out = []
    for s in [None] + list(sizes):
        if s is not None:
            out.append(s)
        if rng.random() < 0.35:
            out.append(0)
    return out or [0]


def roll_params(rng, i=None):
    """rolling parameter grid (aggregation x window); `i` walks the grid round-robin"""
    grid = [(a, w) for a in ROLL_AGGS for w in [("count", k) for k in COUNT_WINDOWS] + [("time", k) for k in TIME_WINDOWS]]
    a, (win, W) = grid[i % len(grid)] if i is not None else rng.choice(grid)
    p = {"kind": "rolling", "win": win, "W": W, "agg": a}
    if a == "quantile":
        p["q"] = rng.choice([[1, 4], [1, 2], [3, 4], [0, 1], [1, 1]])
    if a == "aggregate":
        p["func"] = rng.choice(["sum", "max", "mean"])
    if a in ("std", "var") and rng.random() < 0.5:
        p["ddof"] = rng.choice([0, 0, 1, 2])       # Rolling.std / Rolling.var forward their arguments to pandas
    return p


def exp_params(rng, i=None):
    a = EXP_AGGS[i % len(EXP_AGGS)] if i is not None else rng.choice(EXP_AGGS)
    p = {"kind": "exp", "agg": a}
    if a in ("var", "std"):
        p["ddof"] = rng.choice([1, 1, 0, 2, 3])
    return p


def ewm_params(rng):
    k = rng.choice(["com", "com", "alpha", "span"])
    v = {"com": [[0, 1], [1, 2], [1, 1], [2, 1], [3, 1]], "alpha": [[1, 2], [1, 4], [1, 1], [3, 4]],
         "span": [[1, 1], [2, 1], [3, 1], [5, 1]]}[k]
    return {"kind": "ewm", "param": k, "pval": rng.choice(v)}


def no_nan(table, rng):
    t = dict(table)
    for c in ("x", "y"):
        t[c] = [rng.choice(VALUES[1:]) if v is None else v for v in table[c]]
    return t


def frame_for(rng, params, table, sizes):
    """`series` = the column getter `sdf.x...` (expanding var/std on a single column included: aggregations.Var used to
    divide python ints 0/0 when the stream was built from the empty example - repaired in /repo 445f1a7)."""
    if rng.random() >= 0.3:
        return "df"
    return "series"


def make_case(rng, params, table, sizes):
    case = dict(params)
    if params["kind"] == "ewm" and not params.get("allow_nan"):
        table = no_nan(table, rng)
    case.pop("allow_nan", None)
    case.update(table)
    case["sizes"] = sizes
    case["frame"] = frame_for(rng, params, table, sizes)
    return case


CORPUS = [
    # the two probe-confirmed defects
    {"kind": "cum", "op": "cumsum", "frame": "df", "times": [0, 1, 2, 3, 4, 5, 6], "x": [1, 3, 2, 1, None, 1, 1],
     "y": [None, None, 1, 2, 3, None, 1], "sizes": [5, 2]},
    {"kind": "cum", "op": "cumprod", "frame": "series", "times": [0, 1, 1, 3], "x": [2, None, 3, 2], "y": [1, 1, 1, 1], "sizes": [2, 0, 2]},
    {"kind": "cum", "op": "cummax", "frame": "df", "times": [0, 1, 2, 3], "x": [3, None, None, 1], "y": [None, None, None, 2], "sizes": [1, 1, 1, 1]},
    {"kind": "cum", "op": "cummin", "frame": "df", "times": [0, 1, 2, 3], "x": [1, None, 2, 0], "y": [None, 2, None, 3], "sizes": [0, 2, 0, 2, 0]},
    {"kind": "ewm", "param": "com", "pval": [1, 1], "frame": "df", "times": [0, 1, 2], "x": [1, 2, 3], "y": [2, 3, 4], "sizes": [0, 1, 2]},
    {"kind": "ewm", "param": "alpha", "pval": [1, 4], "frame": "series", "times": [0, 1, 2, 3], "x": [1, 2, 3, 0], "y": [0, 0, 0, 0], "sizes": [0, 0, 3, 0, 1]},
    {"kind": "ewm", "param": "span", "pval": [3, 1], "frame": "df", "times": [0, 1, 2, 3], "x": [4, 0, 3, 1], "y": [2, 2, 1, 0], "sizes": [2, 0, 1, 1]},
    # ewm on tables with NaN cells (finding ewm-nan-unsupported; compared with the NaN-aware model and the NaN spec):
    # the witness of Props/C11 `ewm_nan_divergence_witness` row by row and as one batch; leading / consecutive /
    # trailing NaN; alpha = 1 (q = 0: a NaN row repeats the previous value in pandas); an all-NaN column
    {"kind": "ewm", "param": "alpha", "pval": [1, 2], "frame": "series", "times": [0, 1, 2], "x": [1, None, 3], "y": [0, 0, 0], "sizes": [1, 1, 1]},
    {"kind": "ewm", "param": "alpha", "pval": [1, 2], "frame": "df", "times": [0, 1, 2], "x": [1, None, 3], "y": [1, 2, 3], "sizes": [3]},
    {"kind": "ewm", "param": "com", "pval": [1, 1], "frame": "df", "times": [0, 1, 2, 3, 4, 5, 6], "x": [None, None, 1, None, None, 2, None],
     "y": [1, None, None, 4, None, None, None], "sizes": [0, 2, 0, 3, 2]},
    {"kind": "ewm", "param": "alpha", "pval": [1, 1], "frame": "df", "times": [0, 1, 2, 3, 4], "x": [None, 2, None, 3, None], "y": [2, None, None, None, 1], "sizes": [1, 2, 2]},
    {"kind": "ewm", "param": "span", "pval": [3, 1], "frame": "df", "times": [0, 1, 2], "x": [1, 2, None], "y": [None, None, None], "sizes": [2, 1]},
    # rolling: window longer than every batch, empty batches, NaN at the boundary, duplicates in the index
    {"kind": "rolling", "win": "count", "W": 3, "agg": "sum", "frame": "df", "times": [0, 1, 1, 3, 4, 6, 6],
     "x": [1, 3, 2, 1, None, 1, 1], "y": [None, None, 1, 2, 3, None, 1], "sizes": [0, 1, 0, 1, 2, 1, 2]},
    {"kind": "rolling", "win": "count", "W": 4, "agg": "median", "frame": "series", "times": [0, 1, 2, 3, 4, 5],
     "x": [3, 1, None, 2, 4, 0], "y": [0, 0, 0, 0, 0, 0], "sizes": [1, 1, 1, 1, 1, 1]},
    {"kind": "rolling", "win": "count", "W": 2, "agg": "quantile", "q": [1, 4], "frame": "df", "times": [0, 1, 2, 3, 4],
     "x": [1, 3, 2, None, 4], "y": [0, None, 4, 1, 1], "sizes": [2, 0, 3]},
    {"kind": "rolling", "win": "count", "W": 0, "agg": "count", "frame": "df", "times": [0, 1, 2], "x": [1, None, 2], "y": [None, 1, 1], "sizes": [1, 2]},
    {"kind": "rolling", "win": "count", "W": 9, "agg": "count", "frame": "df", "times": [0, 1, 2], "x": [1, None, 2], "y": [None, 1, 1], "sizes": [1, 0, 2]},
    {"kind": "rolling", "win": "time", "W": 2, "agg": "mean", "frame": "df", "times": [0, 1, 1, 3, 4, 6, 6],
     "x": [1, 3, 2, 1, None, 1, 1], "y": [None, None, 1, 2, 3, None, 1], "sizes": [0, 3, 0, 1, 3, 0]},
    {"kind": "rolling", "win": "time", "W": 1, "agg": "std", "frame": "series", "times": [5, 5, 5, 6, 9, 9],
     "x": [1, 2, 4, None, 0, 3], "y": [0, 0, 0, 0, 0, 0], "sizes": [1, 1, 1, 1, 1, 1]},
    {"kind": "rolling", "win": "time", "W": 3, "agg": "aggregate", "func": "max", "frame": "df", "times": [0, 2, 4, 6, 8],
     "x": [1, None, 3, -1, 2], "y": [None, None, None, 1, None], "sizes": [2, 3]},
    # expanding
    {"kind": "exp", "agg": "sum", "frame": "df", "times": [0, 1, 2, 3], "x": [None, 1, 2, None], "y": [None, None, None, 3], "sizes": [0, 1, 0, 2, 1]},
    {"kind": "exp", "agg": "mean", "frame": "df", "times": [0, 1, 2, 3], "x": [None, 1, 2, None], "y": [None, None, None, 3], "sizes": [0, 1, 0, 2, 1]},
    {"kind": "exp", "agg": "var", "ddof": 1, "frame": "df", "times": [0, 1, 2, 3, 4], "x": [1, None, 2, 4, 4], "y": [None, 2, 2, None, 2], "sizes": [0, 2, 1, 0, 2]},
    {"kind": "exp", "agg": "std", "ddof": 0, "frame": "df", "times": [0, 1, 2], "x": [1, 3, 0], "y": [2, None, 1], "sizes": [1, 1, 1]},
    # ddof >= 2 (recorded finding while no more than ddof values have been seen; exact afterwards)
    {"kind": "exp", "agg": "var", "ddof": 2, "frame": "df", "times": [0, 1, 2, 3, 4], "x": [1, 3, 2, 5, 4], "y": [None, 2, 2, None, 6], "sizes": [1, 1, 1, 2]},
    {"kind": "exp", "agg": "std", "ddof": 3, "frame": "df", "times": [0, 1, 2, 3, 4, 5], "x": [1, 3, 2, 5, 4, 0], "y": [0, 0, 0, 0, 0, 0], "sizes": [2, 1, 2, 1]},
    {"kind": "exp", "agg": "count", "frame": "series", "times": [0, 1, 2], "x": [1, None, 0], "y": [0, 0, 0], "sizes": [0, 2, 1]},
    {"kind": "exp", "agg": "mean", "frame": "series", "times": [0, 1, 2], "x": [1, None, 4], "y": [0, 0, 0], "sizes": [1, 0, 2]},
    {"kind": "exp", "agg": "mean", "frame": "series", "times": [0, 1, 2], "x": [1, 2, 3], "y": [0, 0, 0], "sizes": [0, 3]},
]

# tables whose compositions are enumerated exhaustively
EXHAUSTIVE_TABLES = [
    {"times": [0, 1, 1, 3, 4, 6, 6], "x": [1, 3, 2, 1, None, 1, 1], "y": [None, None, 1, 2, 3, None, 1]},
    {"times": [0, 0, 2, 3, 3, 3, 7], "x": [None, 2, None, None, 3, -1, 4], "y": [4, None, 0, 2, None, None, None]},
    {"times": [5, 6, 7, 8, 9, 10, 11], "x": [2, None, 2, 0, None, 3, None], "y": [None, 1, None, 1, None, 1, None]},
]


def exhaustive_cases(ctx, tables, max_rows, per_comp):
    """every composition of every prefix (<= max_rows rows) of the tables; for each composition the four
    cumulative ops, `per_comp` rolling configurations (walking the aggregation x window grid), one expanding
    aggregation and one ewm; empty batches added in three modes."""
    rng = ctx.rng
    cases = []
    gi = 0
    for t in tables:
        for n in range(1, max_rows + 1):
            sub = {k: v[:n] for k, v in t.items()}
            for ci, sizes in enumerate(compositions(n)):
                mode = ci % 3
                sz = with_empties(rng, sizes, mode)
                for op in CUM_OPS:
                    cases.append(make_case(rng, {"kind": "cum", "op": op}, sub, sz))
                for _ in range(per_comp):
                    cases.append(make_case(rng, roll_params(rng, gi), sub, with_empties(rng, sizes, gi % 3)))
                    gi += 1
                cases.append(make_case(rng, exp_params(rng, gi), sub, sz))
                cases.append(make_case(rng, ewm_params(rng), sub, with_empties(rng, sizes, (ci + 1) % 3)))
    return cases


def random_cases(ctx, count):
    rng = ctx.rng
    cases = []
    for i in range(count):
        n = rng.choice([0, 1, 2, 3, 4, 5, 6, 7, 7, 9, 12])
        table = gen_table(rng, n)
        sizes = gen_sizes(rng, table)
        r = i % 10
        if r < 4:
            params = roll_params(rng)
        elif r < 7:
            params = {"kind": "cum", "op": rng.choice(CUM_OPS)}
        elif r < 9:
            params = exp_params(rng)
        else:
            params = ewm_params(rng)
        cases.append(make_case(rng, params, table, sizes))
    return cases


def ewm_nan_cases(ctx, count):
    """tables with NaN for ewm: pandas skips NaN (ignore_na=False weighting); EWMean has no NaN handling."""
    rng = ctx.rng
    cases = []
    for _ in range(count):
        n = rng.choice([2, 3, 5, 7])
        table = gen_table(rng, n, nan_p=rng.choice([0.2, 0.4, 0.6]))
        if not any(v is None for v in table["x"] + table["y"]):
            table["x"][rng.randrange(n)] = None
        p = ewm_params(rng)
        p["allow_nan"] = True
        c = make_case(rng, p, table, gen_sizes(rng, table))
        if c["frame"] == "series" and not any(v is None for v in table["x"]):
            c["frame"] = "df"
        cases.append(c)
    return cases


def run_cases(ctx, cases):
    lines, sp = [], []
    for c in cases:
        ml = model_lines(c)
        sp.append((len(lines), len(lines) + len(ml)))
        lines += ml
    answers = common.lean_driver("Rolling", lines)
    for c, (a, b) in zip(cases, sp):
        check_case(ctx, c, answers[a:b])


def run(ctx):
    ctx.audit()
    ctx.assumptions += [
        "cells are small integers stored as float64, NaN for missing: sums/products are exact; mean/var/std/quantile/ewm are compared with relative tolerance 1e-9",
        "rolling: pandas is called exactly as rolling_accumulator calls it, df.rolling(window).op() (Rolling stores min_periods but never passes it on, so pandas' default applies: window for row counts, 1 for time windows); time windows require a monotonic index (pandas raises otherwise)",
        "rolling std is modelled as sqrt of the modelled var; `aggregate` is exercised with the function names sum/max/mean",
        "expanding emits one value per batch: the reference is pandas expanding(min_periods=0).agg() at the last row seen so far (identical to expanding().agg() as soon as a valid value has been seen; before that sum/count give 0 where pandas' default min_periods=1 gives NaN); the expanding var theorem is stated on the moment formula, its agreement with pandas' var is checked here numerically",
        "expanding var/std/mean are exercised on frames and on single columns (on a column aggregations.Var used to divide python ints 0/0 when the stream was built from the empty example: repaired in /repo 445f1a7); its zero-count case (signature expanding-mean-zero-count) is the aggregations.Mean defect shared with C06/C07",
        "ewm: the batching theorems are for NaN-free tables; EWMean has no NaN handling (reported under the signature ewm-nan-unsupported). Tables with NaN cells are compared with the defect-mirroring model ewmStepNan (real streamz output, old_wt, is_first) and real pandas with the NaN specification ewmAtNan (adjust=True, ignore_na=False), tolerance 1e-9; com/alpha/span with rational values (halflife is irrational and not exercised)",
        "expanding size/value_counts/full/apply and rolling on grouped frames are not covered",
    ]
    if ctx.thorough():
        cases = list(CORPUS)
        cases += exhaustive_cases(ctx, EXHAUSTIVE_TABLES + [gen_table(ctx.rng, 7) for _ in range(7)], 7, 6)
        cases += random_cases(ctx, 15000)
        cases += ewm_nan_cases(ctx, 600)
    else:
        cases = list(CORPUS)
        cases += exhaustive_cases(ctx, EXHAUSTIVE_TABLES[:2], 6, 3)
        cases += random_cases(ctx, 3000)
        cases += ewm_nan_cases(ctx, 60)
    # run in slices so that a driver failure is cheap to locate
    for i in range(0, len(cases), 4000):
        run_cases(ctx, cases[i:i + 4000])
    ctx.coverage["rule"] = (
        "corpus of boundary cases; exhaustive enumeration of ALL compositions into non-empty batches of every prefix (1..%d rows) of "
        "%s fixed/seeded tables, each composition run as is / with an empty first batch / with random empty batches, for all four "
        "cumulative ops, rolling configurations walking the full grid {sum,mean,min,max,median,std,var,count,quantile,aggregate} x "
        "{rows 1,2,3,4; time 1s,2s,3s}, one expanding aggregation and one ewm; plus seeded random tables (0..12 rows, NaN density "
        "0-0.7, cuts forced after NaN rows, empty batches). Non-trivial: at least two non-empty batches (state crosses a batch "
        "boundary). Distinct = distinct case JSON." % ((7, "10") if ctx.thorough() else (6, "2")))


def replay(ctx, data):
    ctx.audit()
    case = data["case"]
    answers = common.lean_driver("Rolling", model_lines(case))
    check_case(ctx, case, answers)
    ctx.coverage["rule"] = "replay of one recorded case"
