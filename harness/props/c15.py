"""C15 — delivery follows the current topology under connect / disconnect / destroy / gc.

Lean: Model/Edit.lean (+Graph.lean), Props/C15.lean.  Correspondence: deterministic
differential on edit/emit histories — both link directions and liveness after every
operation, and the full flow log of every emission.  Oracle (model-free):
  * links: d in downstreams(u) <=> u in upstreams(d) after every operation;
  * every emission is delivered exactly along the current edges, in attachment order;
  * liveness: a node not reachable (upwards) from a held node or an undestroyed sink is
    collected and receives nothing; everything else stays alive;
  * metamorphic: after an edit of its inputs a zip / combine_latest node emits, for the
    arrivals that follow, what a FRESH node of the same real class over its current inputs
    emits after having been fed what the old node still held for those inputs (zip: the
    elements received and not yet matched; combine_latest: the latest value per input).
"""
import copy

from .. import common, graphcheck, graphlib

ASPECTS = ("flow", "err", "counts", "fires")
EDIT_KINDS = ("source", "map", "filter", "union", "zip", "combine_latest", "sliding_window", "accumulate", "sink")


def gen_nodes(rng):
    nodes = [{"kind": "source", "ups": []}]
    n = rng.randint(3, 8)
    while len(nodes) < n:
        k = rng.choice(["source", "map", "filter", "union", "zip", "zip", "combine_latest", "combine_latest",
                        "sliding_window", "accumulate", "sink", "sink"])
        cands = [i for i, nd in enumerate(nodes) if nd["kind"] != "sink"]
        if k == "source":
            if sum(1 for nd in nodes if nd["kind"] == "source") < 4:
                nodes.append({"kind": "source", "ups": []})
        elif k == "map":
            nodes.append({"kind": "map", "f": rng.choice([["id"], ["pair"], ["const", 7]]), "ups": [rng.choice(cands)]})
        elif k == "filter":
            nodes.append({"kind": "filter", "f": ["truthy"], "ups": [rng.choice(cands)]})
        elif k == "sliding_window":
            nodes.append({"kind": "sliding_window", "n": rng.choice([1, 2]), "partial": True, "ups": [rng.choice(cands)]})
        elif k == "accumulate":
            nodes.append({"kind": "accumulate", "f": ["snoc"], "has_start": True, "start": {"t": []}, "returns_state": False,
                          "with_state": False, "ups": [rng.choice(cands)]})
        elif k in ("union", "zip", "combine_latest"):
            if len(cands) < 2:
                continue
            ups = rng.sample(cands, min(len(cands), rng.choice([2, 2, 3])))
            nd = {"kind": k, "ups": ups}
            if k == "zip":
                nd["literals"] = []
            if k == "combine_latest":
                nd["emit_on"] = None if rng.random() < 0.5 else sorted(rng.sample(range(len(ups)), rng.choice([1, 1, 2, len(ups)])))
                if nd["emit_on"] is not None:
                    nd["emit_on_form"] = rng.choice(["list", "int", "stream", "streams", "mixed"] if len(nd["emit_on"]) == 1 else ["list", "streams", "mixed"])
            nodes.append(nd)
        else:
            nd = {"kind": "sink", "mode": "sync", "f": ["id"], "ups": [rng.choice(cands)]}
            if rng.random() < 0.3:
                nd["detached"] = True       # sink(None, f) built through the class, then upstream.connect(sink)
            nodes.append(nd)
    for i, nd in enumerate(list(nodes)):
        if nd["kind"] in ("zip", "combine_latest") and not any(i in m.get("ups", []) for m in nodes):
            nodes.append({"kind": "sink", "mode": "sync", "f": ["id"], "ups": [i]})
    return nodes


class Topo:
    """The oracle's own bookkeeping of the topology the *operations* prescribe."""

    def __init__(self, nodes):
        self.nodes = nodes
        self.ups = {i: list(nd.get("ups", [])) for i, nd in enumerate(nodes)}
        self.downs = {i: [] for i in range(len(nodes))}
        for i, nd in enumerate(nodes):
            for u in nd.get("ups", []):
                if i not in self.downs[u]:
                    self.downs[u].append(i)
        self.held = set(range(len(nodes)))
        self.sinks = {i for i, nd in enumerate(nodes) if nd["kind"] == "sink"}
        self.dead = set()
        # combine_latest keeps the streams of an explicit emit_on in a tuple (a strong reference)
        self.extra = {i: [nd["ups"][j] for j in nd["emit_on"]] for i, nd in enumerate(nodes)
                      if nd["kind"] == "combine_latest" and nd.get("emit_on") is not None}

    def reaches(self, a, b):
        seen, todo = set(), [a]
        while todo:
            x = todo.pop()
            if x == b:
                return True
            if x in seen:
                continue
            seen.add(x)
            todo += self.downs[x]
        return False

    def alive(self):
        a = set(self.held) | set(self.sinks)
        a -= self.dead
        changed = True
        while changed:
            changed = False
            for c in list(a):
                for u in self.ups[c] + self.extra.get(c, []):
                    if u not in a and u not in self.dead:
                        a.add(u)
                        changed = True
        return a

    def gc(self):
        a = self.alive()
        for i in range(len(self.nodes)):
            if i not in a:
                self.dead.add(i)
        for u in self.downs:
            self.downs[u] = [d for d in self.downs[u] if d not in self.dead]

    def apply(self, op, err):
        k = op["op"]
        if err and k == "destroy" and self.nodes[op["node"]]["kind"] == "sink" and op["node"] not in self.sinks:
            # Sink.destroy on an already destroyed sink: the links are cut first, then
            # `_global_sinks.remove(self)` raises KeyError
            err = None
        if err:
            return
        if k == "connect":
            u, d = op["up"], op["down"]
            if d not in self.downs[u]:
                self.downs[u].append(d)
            self.ups[d].append(u)
        elif k == "disconnect":
            u, d = op["up"], op["down"]
            if d in self.downs[u]:       # (an implementation that accepts the disconnect of an absent edge is judged by the oracle, not here)
                self.downs[u].remove(d)
            if u in self.ups[d]:
                self.ups[d].remove(u)
        elif k == "destroy" and "streams" in op:
            d = op["node"]
            for u in op["streams"]:
                self.downs[u].remove(d)
                self.ups[d].remove(u)
        elif k == "destroy":
            d = op["node"]
            for u in list(self.ups[d]):
                self.downs[u].remove(d)
                self.ups[d].remove(u)
            self.sinks.discard(d)
        elif k == "drop":
            self.held.discard(op["node"])
        if k in ("disconnect", "destroy", "drop"):
            self.gc()


def choose_op(rng, topo, st):
    nodes = topo.nodes
    alive = sorted(topo.alive())
    held_alive = [i for i in alive if i in topo.held]
    r = rng.random()
    if r < 0.5 or not held_alive:
        srcs = [i for i in held_alive if nodes[i]["kind"] == "source"]
        if not srcs:
            return {"op": "links"}
        from .. import gen_graph
        md = gen_graph.gen_md(rng, st) if rng.random() < 0.4 else []
        return {"op": "emit", "node": rng.choice(srcs), "val": rng.choice([1, 2, 3, 4]), "md": md}
    if r < 0.68:
        us = [i for i in held_alive if nodes[i]["kind"] != "sink"]
        ds = [i for i in held_alive if nodes[i]["kind"] not in ("source",)]
        pairs = [(u, d) for u in us for d in ds if u != d and d not in topo.downs[u] and u not in topo.ups[d] and not topo.reaches(d, u)]
        if pairs:
            comb = [p for p in pairs if nodes[p[1]]["kind"] in ("zip", "combine_latest")]
            u, d = rng.choice(comb if comb and rng.random() < 0.7 else pairs)
            return {"op": "connect", "up": u, "down": d}
    if r < 0.88:
        edges = [(u, d) for u in held_alive for d in topo.downs[u] if d in topo.held]
        if edges and rng.random() < 0.93:
            comb = [e for e in edges if nodes[e[1]]["kind"] in ("zip", "combine_latest")]
            u, d = rng.choice(comb if comb and rng.random() < 0.6 else edges)
            return {"op": "disconnect", "up": u, "down": d}
        if len(held_alive) >= 2 and rng.random() < 0.5:
            u, d = rng.sample(held_alive, 2)
            if d not in topo.downs[u]:
                return {"op": "disconnect", "up": u, "down": d}     # absent edge: must raise, nothing changes
    if r < 0.94:
        d = rng.choice(held_alive)
        if nodes[d]["kind"] != "sink" and topo.ups[d] and all(u in topo.held and u not in topo.dead for u in topo.ups[d]) and rng.random() < 0.4:
            # destroy(streams=<a selection of the current parents, possibly empty>)
            ups_d = list(dict.fromkeys(topo.ups[d]))
            sel = [u for u in ups_d if rng.random() < 0.5]
            return {"op": "destroy", "node": d, "streams": sel, "form": rng.choice(["list", "tuple"])}
        return {"op": "destroy", "node": d}
    cand = [i for i in held_alive]
    return {"op": "drop", "node": rng.choice(cand)}


def run_history(nodes, rng, n_ops):
    case = {"mode": "sync", "nodes": nodes, "ops": []}
    run = graphlib.Run(case)
    topo = Topo(nodes)
    st = {"tag": 0, "ref": 0}
    obs = []
    try:
        for _ in range(n_ops):
            op = choose_op(rng, topo, st)
            if op is None:
                break
            for o2 in ((op, {"op": "links"}) if op["op"] != "links" else (op,)):
                case["ops"].append(o2)
                err = run.do_sync(o2)
                o = run.observe(o2, err)
                o["counts"] = run.counts(list(range(1, st["ref"] + 1)))
                obs.append(o)
                if o2 is op:
                    topo.apply(op, err)
    finally:
        run.cleanup()
    return case, obs


def fresh_combining(nd, ups_now, pre, post):
    """Fresh real node of nd's class over len(ups_now) sources; feed `pre` then `post` arrivals
    [(upstream index in ups_now, value)]; return the outputs caused by `post`."""
    k = len(ups_now)
    nodes = [{"kind": "source", "ups": []} for _ in range(k)]
    fresh = dict(nd, ups=list(range(k)))
    nodes.append(fresh)
    nodes.append({"kind": "sink", "mode": "sync", "f": ["id"], "ups": [k]})
    ops = [{"op": "emit", "node": i, "val": v, "md": []} for i, v in pre + post]
    obs = graphlib.run_case({"mode": "sync", "nodes": nodes, "ops": ops})
    out = []
    for o in obs[len(pre):]:
        out += [e[2] for e in o["log"] if e[0] == "emit" and e[1] == k]
    return out


def oracle(case, obs):
    problems = []
    nodes = case["nodes"]
    topo = Topo(nodes)
    hist = {i: [] for i, nd in enumerate(nodes) if nd["kind"] in ("zip", "combine_latest")}   # (who, value, epoch)
    emitted = {i: [] for i in hist}                                                       # (value, epoch)
    epoch = {i: 0 for i in hist}
    unmatched = {i: {} for i in hist}      # per input: elements received and not yet consumed (zip) / latest value (combine_latest)
    backlog = {i: [] for i in hist}
    seq = [0]
    emit_on_fixed = {i: ([nodes[i]["ups"][j] for j in nodes[i]["emit_on"]] if nodes[i].get("emit_on") is not None else None) for i in hist}
    for k, (op, o) in enumerate(zip(case["ops"], obs)):
        log = o["log"]
        if op["op"] == "links":
            # (1) mutual consistency of the two link directions, among live nodes
            for u, ds in enumerate(o["downs"]):
                if ds is None:
                    continue
                for d in ds:
                    if d is None or o["ups"][d] is None or u not in o["ups"][d]:
                        problems.append(("links-inconsistent", "op %d: %r lists %r downstream but %r does not list it upstream" % (k, u, d, d)))
            for d, us in enumerate(o["ups"]):
                if us is None:
                    continue
                for u in us:
                    if o["downs"][u] is None or d not in o["downs"][u]:
                        problems.append(("links-inconsistent", "op %d: %r lists %r upstream but %r does not list it downstream" % (k, d, u, u)))
            # (1b) links are what the operations prescribe
            want_alive = sorted(topo.alive())
            if not set(want_alive) <= set(o["alive"]):
                problems.append(("liveness", "op %d: live nodes %r, but %r must stay alive (held, undestroyed sinks, and their upstreams)" % (k, o["alive"], want_alive)))
            else:
                for i in want_alive:
                    if o["downs"][i] != topo.downs[i] or o["ups"][i] != topo.ups[i]:
                        problems.append(("links-wrong", "op %d: node %d has downstreams %r upstreams %r, the edits prescribe %r / %r"
                                         % (k, i, o["downs"][i], o["ups"][i], topo.downs[i], topo.ups[i])))
            if problems:
                return problems
            continue
        # (2) deliveries follow the current edges
        if op["op"] == "emit" and not o["err"]:
            for ei, e in enumerate(log):
                if e[0] != "emit":
                    continue
                n = e[1]
                got = []
                for f in log[ei + 1:]:
                    if f[0] == "emit" and f[1] == n:
                        break
                    if f[0] == "arrive" and f[2] == n:
                        got.append(f[1])
                if got != topo.downs[n]:
                    problems.append(("edge-delivery", "op %d: node %d emitted %r; delivered to %r, current downstreams are %r" % (k, n, e[2], got, topo.downs[n])))
                    return problems
            for e in log:
                if e[0] == "arrive" and e[1] in topo.dead:
                    problems.append(("dead-node-receives", "op %d: collected node %d received %r" % (k, e[1], e[3])))
        for e in log:
            if e[0] == "arrive" and e[1] in hist:
                seq[0] += 1
                hist[e[1]].append((e[2], e[3], epoch[e[1]]))
                if nodes[e[1]]["kind"] == "zip":
                    unmatched[e[1]].setdefault(e[2], []).append((seq[0], e[3]))
                else:
                    unmatched[e[1]][e[2]] = [(seq[0], e[3])]
            elif e[0] == "emit" and e[1] in emitted and not (op["op"] == "emit" and op["node"] == e[1]):
                emitted[e[1]].append((e[2], epoch[e[1]]))
                if nodes[e[1]]["kind"] == "zip":
                    for u in topo.ups[e[1]]:
                        if unmatched[e[1]].get(u):
                            unmatched[e[1]][u].pop(0)
        ok_before = not o["err"]
        topo.apply(op, o["err"])
        tgt = None
        if ok_before and op["op"] in ("connect", "disconnect") and op["down"] in hist:
            tgt = op["down"]
        if ok_before and op["op"] == "destroy" and op["node"] in hist:
            tgt = op["node"]
        if tgt is not None:
            epoch[tgt] += 1
            for u in list(unmatched[tgt]):
                if u not in topo.ups[tgt]:
                    del unmatched[tgt][u]
            # what the node still holds for its current inputs, in arrival order
            backlog[tgt] = sorted((s, u, v) for u, l in unmatched[tgt].items() for s, v in l)
    # (3) combining nodes after an edit
    for i in hist:
        if epoch[i] == 0 or i in topo.dead:
            continue
        ups_now = topo.ups[i]
        if not ups_now or len(set(ups_now)) != len(ups_now):
            continue
        nd = dict(nodes[i])
        if nd["kind"] == "combine_latest" and emit_on_fixed[i] is not None:
            if not all(u in ups_now for u in emit_on_fixed[i]):
                continue            # emit_on refers to a removed input: documented to emit nothing
            nd["emit_on"] = [ups_now.index(u) for u in emit_on_fixed[i]]
        last = epoch[i]
        pre = [(ups_now.index(u), v) for _, u, v in backlog[i] if u in ups_now]
        post = [(ups_now.index(w), v) for w, v, ep in hist[i] if ep == last and w in ups_now]
        got = [v for v, ep in emitted[i] if ep == last]
        want = fresh_combining(nd, ups_now, pre, post)
        if got != want:
            sig = "combining-after-edit:" + nd["kind"]
            if nd["kind"] == "zip":
                # classify the recorded defect: at the moment of the last edit every remaining input had unmatched elements
                if all(any(u == b[1] for b in backlog[i]) for u in ups_now):
                    sig = "zip-disconnect-leaves-all-buffers-nonempty"
            problems.append((sig, "node %d (%s) over inputs %r: after its last edit it emitted %r; a fresh node over the same inputs that "
                                  "received what they delivered so far emits %r" % (i, nd["kind"], ups_now, got, want)))
    return problems


CORPUS = [
    # combine_latest with the default emit_on: remove one input, connect a new one, data from the new input must trigger emissions
    {"mode": "sync", "nodes": [{"kind": "source", "ups": []}, {"kind": "source", "ups": []}, {"kind": "source", "ups": []},
                               {"kind": "combine_latest", "ups": [0, 1], "emit_on": None}, {"kind": "sink", "mode": "sync", "f": ["id"], "ups": [3]}],
     "ops": [{"op": "emit", "node": 0, "val": 1, "md": []}, {"op": "links"}, {"op": "emit", "node": 1, "val": 2, "md": []}, {"op": "links"},
             {"op": "disconnect", "up": 1, "down": 3}, {"op": "links"}, {"op": "connect", "up": 2, "down": 3}, {"op": "links"},
             {"op": "emit", "node": 2, "val": 3, "md": []}, {"op": "links"}, {"op": "emit", "node": 2, "val": 4, "md": []}, {"op": "links"},
             {"op": "emit", "node": 0, "val": 5, "md": []}, {"op": "links"}]},
    # emit_on given as the bare index 0 (falsy): after connecting a third input the node still emits on input 0 only
    {"mode": "sync", "nodes": [{"kind": "source", "ups": []}, {"kind": "source", "ups": []}, {"kind": "source", "ups": []},
                               {"kind": "combine_latest", "ups": [0, 1], "emit_on": [0], "emit_on_form": "int"},
                               {"kind": "sink", "mode": "sync", "f": ["id"], "ups": [3]}],
     "ops": [{"op": "emit", "node": 0, "val": 1, "md": []}, {"op": "links"}, {"op": "emit", "node": 1, "val": 2, "md": []}, {"op": "links"},
             {"op": "connect", "up": 2, "down": 3}, {"op": "links"}, {"op": "emit", "node": 2, "val": 3, "md": []}, {"op": "links"},
             {"op": "emit", "node": 1, "val": 4, "md": []}, {"op": "links"}, {"op": "emit", "node": 0, "val": 5, "md": []}, {"op": "links"},
             {"op": "disconnect", "up": 1, "down": 3}, {"op": "links"}, {"op": "emit", "node": 2, "val": 6, "md": []}, {"op": "links"},
             {"op": "emit", "node": 0, "val": 7, "md": []}, {"op": "links"}]},
    # recorded finding: removing the only empty input of a zip leaves it stuck
    {"mode": "sync", "nodes": [{"kind": "source", "ups": []}, {"kind": "source", "ups": []}, {"kind": "source", "ups": []},
                               {"kind": "zip", "ups": [0, 1, 2], "literals": []}, {"kind": "sink", "mode": "sync", "f": ["id"], "ups": [3]}],
     "ops": [{"op": "emit", "node": 0, "val": 1, "md": []}, {"op": "links"}, {"op": "emit", "node": 1, "val": 2, "md": []}, {"op": "links"},
             {"op": "disconnect", "up": 2, "down": 3}, {"op": "links"}, {"op": "emit", "node": 0, "val": 3, "md": []}, {"op": "links"},
             {"op": "emit", "node": 1, "val": 4, "md": []}, {"op": "links"}]},
    # repaired: combine_latest disconnect after data (b99b3d7)
    {"mode": "sync", "nodes": [{"kind": "source", "ups": []}, {"kind": "source", "ups": []}, {"kind": "combine_latest", "ups": [0, 1], "emit_on": None},
                               {"kind": "sink", "mode": "sync", "f": ["id"], "ups": [2]}],
     "ops": [{"op": "emit", "node": 0, "val": 1, "md": [{"tag": 1, "ref": 1}]}, {"op": "links"}, {"op": "emit", "node": 1, "val": 2, "md": [{"tag": 2, "ref": 2}]},
             {"op": "links"}, {"op": "disconnect", "up": 1, "down": 2}, {"op": "links"}, {"op": "emit", "node": 0, "val": 3, "md": []}, {"op": "links"}]},
    # a branch nobody references disappears; the sink branch stays
    {"mode": "sync", "nodes": [{"kind": "source", "ups": []}, {"kind": "map", "f": ["id"], "ups": [0]}, {"kind": "map", "f": ["pair"], "ups": [0]},
                               {"kind": "sink", "mode": "sync", "f": ["id"], "ups": [2]}],
     "ops": [{"op": "emit", "node": 0, "val": 1, "md": []}, {"op": "links"}, {"op": "drop", "node": 1}, {"op": "links"}, {"op": "drop", "node": 2}, {"op": "links"},
             {"op": "emit", "node": 0, "val": 2, "md": []}, {"op": "links"}, {"op": "destroy", "node": 3}, {"op": "links"}, {"op": "emit", "node": 0, "val": 3, "md": []}, {"op": "links"}]},
]


def compare_links(case, obs, answers):
    per = graphcheck.split_model_answers(case, answers)
    for k, (op, o, (ma, mc)) in enumerate(zip(case["ops"], obs, per)):
        if op["op"] != "links":
            continue
        alive = ma.get("alive")
        if o["alive"] != alive:
            return "op %d: live nodes: implementation %r, model %r" % (k, o["alive"], alive)
        for i in alive:
            if o["downs"][i] != ma["downs"][i] or o["ups"][i] != ma["ups"][i]:
                return "op %d: links of node %d: implementation %r/%r, model %r/%r" % (k, i, o["downs"][i], o["ups"][i], ma["downs"][i], ma["ups"][i])
    return None


def evaluate(ctx, case, obs, answers):
    for op in case["ops"]:
        ctx.count("op:" + op["op"] + (":selection-%d" % len(op["streams"]) if op["op"] == "destroy" and "streams" in op else ""))
    for n in case["nodes"]:
        ctx.count("kind:" + n["kind"])
    edits = sum(1 for op in case["ops"] if op["op"] in ("connect", "disconnect", "destroy", "drop"))
    ctx.case(case, nontrivial=edits >= 1 and sum(len(o["log"]) for o in obs) >= 6)
    probs = oracle(case, obs)
    for sig, what in probs[:1]:
        ctx.failure(sig, what, case, oracle=sig)
    if answers is not None:
        diff = graphcheck.compare(case, obs, answers, ASPECTS) or compare_links(case, obs, answers)
        if diff is not None:
            ctx.disagreement(diff, case)
        else:
            ctx.coverage["traces_validated_against_impl"] += 1


def rerun(case):
    run = graphlib.Run(case)
    nrefs = graphcheck.nrefs_of(case)
    obs = []
    try:
        for op in case["ops"]:
            o = run.observe(op, run.do_sync(op))
            o["counts"] = run.counts(list(range(1, nrefs + 1)))
            obs.append(o)
    finally:
        run.cleanup()
    return obs


def reentrant_sample(ctx, n):
    """Edits made from inside a consumer's callback while its upstream is in the middle of an emission (a one-shot sink
    destroying itself, a control sink disconnecting a sibling, a consumer attaching a new branch).  Oracle only (the model
    has no edits inside an emission): emit must not raise, and every branch that was attached before the emission and is
    still attached after it has received the element; afterwards deliveries follow the edited topology."""
    from streamz import Stream
    rng = ctx.rng
    for i in range(n):
        k = rng.randint(2, 5)
        src = Stream()
        up = src if rng.random() < 0.5 else src.map(lambda x: x)
        got = {j: [] for j in range(k)}
        sinks = []
        actor = rng.randrange(k)
        action = rng.choice(["destroy-self", "disconnect-sibling", "attach-new", "destroy-sibling"])
        victim = rng.choice([j for j in range(k) if j != actor])
        marker = rng.randint(1, 3)
        late = []
        state = {"done": False}

        def make(j):
            def f(x):
                got[j].append(x)
                if j == actor and x == marker and not state["done"]:
                    state["done"] = True
                    if action == "destroy-self":
                        sinks[actor].destroy()
                    elif action == "disconnect-sibling":
                        up.disconnect(sinks[victim])
                    elif action == "destroy-sibling":
                        sinks[victim].destroy()
                    else:
                        late.append(up.sink(lambda y: got.setdefault("new", []).append(y)))
            return f
        for j in range(k):
            sinks.append(up.sink(make(j)))
        case = {"reentrant": True, "k": k, "actor": actor, "action": action, "victim": victim, "marker": marker, "via_map": up is not src}
        ctx.case(case, nontrivial=True)
        ctx.count("reentrant:" + action)
        err = None
        for x in range(5):
            try:
                src.emit(x)
            except Exception as e:  # noqa: BLE001
                err = "%s on emit(%d)" % (type(e).__name__, x)
                break
        if err:
            ctx.failure("reentrant-edit-raises", "an edit made from a consumer callback during the emission made emit fail: %s (%s)" % (err, action), case)
            continue
        removed = {"destroy-self": actor, "disconnect-sibling": victim, "destroy-sibling": victim}.get(action)
        for j in range(k):
            want = list(range(5))
            if j == removed:
                # the removed branch may or may not see the marker element itself (snapshot semantics), nothing after it
                ok = got[j] in (list(range(marker + 1)), list(range(marker)))
            else:
                ok = got[j] == want
            if not ok:
                ctx.failure("reentrant-edit-delivery", "branch %d received %r after %s at element %d (removed branch: %r)" % (j, got[j], action, marker, removed), case)
                break
        if action == "attach-new" and got.get("new") not in (list(range(marker + 1, 5)), list(range(marker, 5))):
            ctx.failure("reentrant-edit-delivery", "the branch attached during element %d received %r" % (marker, got.get("new")), case)
        for s_ in sinks + late:
            try:
                s_.destroy()
            except Exception:  # noqa: BLE001
                pass


PRUNE_KINDS = ("union", "zip", "combine_latest", "zip_latest")


def prune_cases(ctx, cases=None):
    """node.destroy(streams=<selection>) cuts exactly the selected incoming edges - an empty selection (list or tuple: e.g. a computed
    'stale inputs' that found none) cuts nothing.  Each case runs the same emissions through a twin pipeline in which the selected
    edges are removed one by one with disconnect() (whose behaviour the main family checks against the model): the sinks must agree,
    i.e. delivery follows the edges the pipeline has after the call."""
    from streamz import Stream
    if cases is None:
        cases = []
        for kind in PRUNE_KINDS:
            for sel, form in (([], "list"), ([], "tuple"), ([1], "list"), ([0], "tuple"), ([0, 2], "list"), ([2], "list")):
                for warm in (0, 2):
                    cases.append({"prune": kind, "sel": sel, "form": form, "warm": warm})
    for case in cases:
        kind, sel, warm = case["prune"], case["sel"], case["warm"]

        def build():
            srcs = [Stream() for _ in range(3)]
            node = getattr(srcs[0], kind)(srcs[1], srcs[2])
            return srcs, node, node.sink_to_list()

        def feed(srcs, lo, n):
            errs = []
            for v in range(lo, lo + n):
                for j, s_ in enumerate(srcs):
                    try:
                        s_.emit(10 * v + j)
                    except Exception as e:  # noqa: BLE001
                        errs.append(type(e).__name__)
            return errs
        (sa, na, la), (sb, nb, lb) = build(), build()
        ea, eb = feed(sa, 1, warm), feed(sb, 1, warm)
        sel_a = [sa[j] for j in sel]
        try:
            na.destroy(streams=sel_a if case["form"] == "list" else tuple(sel_a))
        except Exception as e:  # noqa: BLE001
            ea.append("destroy:" + type(e).__name__)
        for j in sel:
            sb[j].disconnect(nb)
        ea += feed(sa, 5, 3)
        eb += feed(sb, 5, 3)
        ctx.case(case, nontrivial=True)
        ctx.count("prune:%s:%d-of-3" % (kind, len(sel)))
        if la != lb or ea != eb:
            ctx.failure("prune-selection:" + kind, "%s over three sources, %d rounds of data, then destroy(streams=%s of inputs %r), then three more rounds: "
                        "the sink received %r (errors %r); with the same edges removed by disconnect() it receives %r (errors %r)"
                        % (kind, warm, case["form"], sel, la, ea, lb, eb), case,
                        oracle="after an edit, delivery follows exactly the edges the pipeline currently has")


def class_built_cases(ctx, cases=None):
    """Nodes built through the class, `Stream(upstreams=ups)`, twice from the SAME list (or tuple) object: each node has its own edges;
    editing one node's edges (destroy / connect / disconnect) leaves the other's links and deliveries alone.  Judged by the edge sets."""
    from streamz import Stream
    if cases is None:
        cases = [{"class_built": op, "share": share} for op in ("destroy-first", "destroy-second", "connect-first", "disconnect-first", "none")
                 for share in ("list", "tuple")]
    for case in cases:
        a, b, c = Stream(), Stream(), Stream()
        names = {id(a): "a", id(b): "b", id(c): "c"}
        ups = [a, b] if case["share"] == "list" else (a, b)
        n = [Stream(upstreams=ups), Stream(upstreams=ups)]
        got = [n[0].sink_to_list(), n[1].sink_to_list()]
        edges = [["a", "b"], ["a", "b"]]
        problems = []
        a.emit(1)
        b.emit(2)
        op = case["class_built"]
        try:
            if op == "destroy-first":
                n[0].destroy()
                edges[0] = []
            elif op == "destroy-second":
                n[1].destroy()
                edges[1] = []
            elif op == "connect-first":
                c.connect(n[0])
                edges[0] = ["a", "b", "c"]
            elif op == "disconnect-first":
                a.disconnect(n[0])
                edges[0] = ["b"]
        except Exception as e:      # noqa: BLE001
            problems.append("the edit raised %s: %s" % (type(e).__name__, e))
        for x, v in ((a, 3), (b, 4), (c, 5)):
            x.emit(v)
        want = [[1, 2] + [v for nm, v in (("a", 3), ("b", 4), ("c", 5)) if nm in edges[i]] for i in range(2)]
        for i in range(2):
            ups_i = [names.get(id(u), "?") for u in n[i].upstreams]
            if ups_i != edges[i]:
                problems.append("node %d lists upstreams %r, its edges are %r" % (i + 1, ups_i, edges[i]))
            for x, nm in ((a, "a"), (b, "b"), (c, "c")):
                if (n[i] in x.downstreams) != (nm in edges[i]):
                    problems.append("stream %s %s node %d as a child, its edges are %r" % (nm, "lists" if n[i] in x.downstreams else "does not list", i + 1, edges[i]))
            if got[i] != want[i]:
                problems.append("node %d received %r, along its edges %r flow %r" % (i + 1, got[i], edges[i], want[i]))
        ctx.case(case, nontrivial=True)
        ctx.count("class-built:" + op)
        if problems:
            ctx.failure("links-wrong:class-built-nodes", "two nodes built as Stream(upstreams=ups) from one %s [a, b]; a.emit(1), b.emit(2), %s, a.emit(3), b.emit(4), c.emit(5): %s"
                        % (case["share"], op, "; ".join(problems[:3])), case,
                        oracle="links are mutually consistent and elements are delivered exactly along the edges that currently exist")


def rewire_scenarios(thorough):
    """source -> A -> consumer with an awaitable: two elements, then A is detached from the source while it holds / delivers them,
    0-3 completions or ticks happen while it is detached, A is re-attached and two more elements follow."""
    from .. import asynccheck as ac
    import random
    out = []
    for kind in ASYNC_KINDS:
        for k in range(0, 4):
            for pre in ((1, 2), (2, 2)) if thorough else ((2, 2),):
                nd = ac.gen_async_node(random.Random(17 * k + len(kind)), [kind])
                nd.pop("callfail", None)
                nd["ups"] = [0]
                nodes = [{"kind": "source", "ups": []}, nd, {"kind": "sink", "mode": "async", "ups": [1]}]

                def em(v):
                    return {"op": "emit", "node": 0, "val": v, "md": [{"tag": v, "ref": v}]}
                script = [em(v) for v in range(1, pre[0] + 1)] + [{"op": "complete-any"}] * (pre[1] - 1)
                script += [{"op": "disconnect", "up": 0, "down": 1}] + [{"op": "complete-any"}] * k
                script += [{"op": "connect", "up": 0, "down": 1}, em(8), em(9)]
                out.append((nodes, script))
    return out


def zip_connect_scenarios():
    """zip(maxsize=m) over two inputs, a third input attached with connect(); the attached input runs ahead of the others by more than
    m elements (its producer does not wait): the zip must behave like one built over the three inputs - nothing dropped, index-wise."""
    out = []
    for m in (1, 2, 3):
        for ahead in (m + 1, m + 3):
            nodes = [{"kind": "source", "ups": []}, {"kind": "source", "ups": []}, {"kind": "source", "ups": []},
                     {"kind": "zipmax", "ups": [0, 1], "maxsize": m}, {"kind": "sink", "mode": "sync", "f": ["id"], "ups": [3]}]
            v = [0]

            def em(n):
                v[0] += 1
                return {"op": "emit", "node": n, "val": v[0], "md": [{"tag": v[0], "ref": v[0]}]}
            script = [{"op": "connect", "up": 2, "down": 3}] + [em(2) for _ in range(ahead)]
            for _ in range(ahead):
                script += [em(0), em(1)]
            out.append((nodes, script))
    return out


ASYNC_KINDS = ["buffer", "delay", "rate_limit", "map_async", "timed_window", "partition_timeout"]
ASYNC_SIGS = ("delivery-lost", "delivery-duplicated", "delivery-reordered-or-altered")


def run(ctx):
    ctx.audit()
    reentrant_sample(ctx, 40 if not ctx.thorough() else 800)
    prune_cases(ctx)
    class_built_cases(ctx)
    n = 300 if not ctx.thorough() else 6000
    batch = []
    for c in CORPUS:
        c = copy.deepcopy(c)
        batch.append((c, rerun(c)))
    def flush():
        lines, spans = [], []
        for case, _ in batch:
            ml = graphcheck.model_lines(case)
            spans.append((len(lines), len(lines) + len(ml)))
            lines += ml
        answers = common.lean_driver("Graph", lines) if lines else []
        for (case, obs), (a, b) in zip(batch, spans):
            evaluate(ctx, case, obs, answers[a:b])
        del batch[:]

    for _ in range(n):
        batch.append(run_history(gen_nodes(ctx.rng), ctx.rng, ctx.rng.randint(5, 12)))
        if len(batch) >= 500:
            flush()
    flush()
    # (B) asynchronous nodes are rewired too: a buffer / delay / rate_limit / map_async / timed_window / partition(timeout) node is
    # detached from its producer and re-attached while it holds data, sleeps or waits for a consumer; what the sinks receive at
    # quiescence must be what the same edits and emissions deliver with the timing removed
    from . import _async_common as A
    A.sweep(ctx, 60 if not ctx.thorough() else 1500, ASYNC_KINDS, ["lossless"], ASYNC_SIGS, allow_zip=False, opts={"p_rewire": 0.22})
    from .. import asynccheck as ac
    for i, (nodes, script) in enumerate(rewire_scenarios(ctx.thorough()) + zip_connect_scenarios()):
        case, obs = ac.run_adaptive(nodes, ctx.rng, len(script), opts={"script": script}, flavour=("future", "coro", "tornado")[i % 3])
        ac.evaluate(ctx, case, obs, ["lossless"], ASYNC_SIGS)
        ctx.count("directed:async-node-rewired")
    ctx.coverage["rule"] = ("corpus + random histories of 5-12 operations (emit 50%, connect, disconnect (7% on an absent edge), destroy, drop+gc) over "
                            "graphs of 3-8 nodes with zip / combine_latest / union joins; connect never creates a parallel edge or a cycle; links and "
                            "liveness are read after every operation. Non-trivial: >= 1 edit and >= 6 flow events.")
    ctx.assumptions += ["garbage collection is forced (gc.collect()) after every drop / disconnect / destroy; CPython's collector timing is otherwise not modelled",
                        "'referenced by the program' = the harness still holds the node object"]


def replay(ctx, data):
    ctx.audit()
    case = data["case"]
    if case.get("reentrant"):
        reentrant_sample(ctx, 40)
        ctx.coverage["rule"] = "replay: re-entrant edit sample"
        return
    if case.get("class_built"):
        class_built_cases(ctx, [case])
        ctx.coverage["rule"] = "replay of one recorded case"
        return
    if case.get("prune"):
        prune_cases(ctx, [case])
        ctx.coverage["rule"] = "replay of one recorded case"
        return
    if case.get("mode") == "async" and any(n["kind"] in ASYNC_KINDS + ["zipmax"] for n in case["nodes"]):
        from .. import asynccheck as ac
        ac.evaluate(ctx, case, ac.rerun(case), ["lossless"], ASYNC_SIGS)
    else:
        evaluate(ctx, case, rerun(case), common.lean_driver("Graph", graphcheck.model_lines(case)))
    ctx.coverage["rule"] = "replay of one recorded case"
