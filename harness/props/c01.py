"""C01 — pipelines compute the dataflow semantics: no loss, duplication, reordering.

Lean: Model/Graph.lean (+Val.lean), Props/C01.lean.  Correspondence: deterministic
differential of the full ordered arrive/emit log of every node (values) between the real
pipeline and the model, in blocking mode (no event loop) and on the virtual-time loop.
Oracle (model-free): harness/oracle_graph.py — each node's documented list-level meaning
applied to the arrivals that node observed, plus per-edge delivery (every attached branch
sees every emission, in attachment order).
"""
from .. import graphcheck

ASPECTS = ("flow", "err", "starts")
CHECKS = ("sem", "edges", "nodup")
SIGS = ("semantics", "edge-delivery", "edge-altered", "duplicated", "plumbing")

CORPUS = [
    # unique with a bounded history: a value repeated back to back must not take a second slot of the history (both storage forms)
]
for _h in (False, True):
    for _m, _seq in ((2, (1, 2, 2, 1, 3, 3, 2, 1)), (3, (1, 2, 3, 3, 3, 1, 2, 4, 4, 1)), (1, (1, 1, 2, 2, 1)), (2, (1, 1, 1, 2, 1, 3, 1))):
        CORPUS.append({"mode": "sync", "nodes": [{"kind": "source", "ups": []}, {"kind": "unique", "ups": [0], "maxsize": _m, "key": ["id"], "hashable": _h},
                                                 {"kind": "sink", "mode": "sync", "f": ["id"], "ups": [1]}],
                       "ops": [{"op": "emit", "node": 0, "val": v, "md": []} for v in _seq]})
CORPUS += [
    # None (and other non-integer values) are elements like any other: combining nodes must not read them as "nothing yet"
    {"mode": "sync", "nodes": [{"kind": "source", "ups": []}, {"kind": "source", "ups": []}, {"kind": "combine_latest", "ups": [0, 1], "emit_on": None},
                               {"kind": "sink", "mode": "sync", "f": ["id"], "ups": [2]}],
     "ops": [{"op": "emit", "node": 0, "val": 3, "md": []}, {"op": "emit", "node": 1, "val": 10, "md": []}, {"op": "emit", "node": 0, "val": None, "md": []},
             {"op": "emit", "node": 1, "val": 20, "md": []}, {"op": "emit", "node": 0, "val": 5, "md": []}, {"op": "emit", "node": 1, "val": None, "md": []}]},
    {"mode": "sync", "nodes": [{"kind": "source", "ups": []}, {"kind": "source", "ups": []}, {"kind": "zip_latest", "ups": [0, 1]},
                               {"kind": "zip", "ups": [0, 1], "literals": []}, {"kind": "union", "ups": [2, 3]}, {"kind": "sliding_window", "ups": [4], "n": 2, "partial": True},
                               {"kind": "sink", "mode": "sync", "f": ["id"], "ups": [5]}],
     "ops": [{"op": "emit", "node": 0, "val": None, "md": []}, {"op": "emit", "node": 1, "val": None, "md": []}, {"op": "emit", "node": 0, "val": 0, "md": []},
             {"op": "emit", "node": 1, "val": "", "md": []}, {"op": "emit", "node": 0, "val": None, "md": []}, {"op": "emit", "node": 1, "val": 7, "md": []}]},
    # slice with start % step != 0 (repaired defect ee71f4f)
    {"mode": "sync", "nodes": [{"kind": "source", "ups": []}, {"kind": "slice", "ups": [0], "start": 1, "end": None, "step": 2},
                               {"kind": "sink", "mode": "sync", "f": ["id"], "ups": [1]}],
     "ops": [{"op": "emit", "node": 0, "val": v, "md": []} for v in range(5)]},
    # diamond: map f zip map g
    {"mode": "sync", "nodes": [{"kind": "source", "ups": []}, {"kind": "map", "f": ["inc"], "ups": [0]}, {"kind": "map", "f": ["dbl"], "ups": [0]},
                               {"kind": "zip", "ups": [1, 2], "literals": []}, {"kind": "sink", "mode": "sync", "f": ["id"], "ups": [3]}],
     "ops": [{"op": "emit", "node": 0, "val": v, "md": []} for v in (3, 1, 2)]},
]


EXTRA = ["StreamzVerif.Props.C01Sem", "StreamzVerif.Props.C01Compose"]


def indexed_key_sample(ctx, n):
    """partition / partition_unique take their key as a callable OR as an index / field name (`x[key]`): records are tuples, the key is
    given as an index (0 is falsy), and the node is compared with the documented meaning evaluated with the equivalent callable."""
    from streamz import Stream
    from .. import oracle_graph
    rng = ctx.rng
    for _ in range(n):
        kind = rng.choice(["partition_unique", "partition_unique", "partition"])
        idx = rng.choice([0, 0, 1])
        nd = {"kind": kind, "n": rng.choice([2, 3]), "key": [["fst"], ["snd"]][idx], "keep": rng.choice(["first", "last"]), "ups": [0]}
        recs = [(rng.choice([0, 1, 2, 0]), rng.choice([0, 1, 2, 3])) for _ in range(rng.randint(3, 10))]
        case = {"indexed_key": True, "node": nd, "index": idx, "records": [list(r) for r in recs]}
        src = Stream()
        node = (src.partition_unique(nd["n"], key=idx, keep=nd["keep"]) if kind == "partition_unique"
                else src.partition(nd["n"], key=idx))
        got = node.sink_to_list()
        orc = oracle_graph.NodeOracle(nd, [0])
        want, err = [], None
        for r in recs:
            try:
                src.emit(r)
            except Exception as e:      # noqa: BLE001
                err = type(e).__name__
                break
            want += [o[0] for o in orc.feed((0, r, []))]
        ctx.case(case, nontrivial=len(recs) >= 4)
        ctx.count("indexed-key:" + kind)
        if err or [tuple(map(tuple, b)) for b in got] != [tuple(map(tuple, b)) for b in want]:
            ctx.failure("semantics:indexed-key", "%s(n=%d, key=%d%s) over %r delivered %r%s; with the key function x[%d] the documented meaning is %r"
                        % (kind, nd["n"], idx, ", keep=%s" % nd["keep"] if kind == "partition_unique" else "", recs, got,
                           " and raised %s" % err if err else "", idx, want), case)


def zip_one_sided_sample(ctx, n):
    """zip in blocking, loop-less use (nobody waits for its backpressure): one input runs far ahead of the others - beyond the default
    maxsize of 10 as well - and nothing may be dropped or mis-paired: tuple i consists of the i-th element of every input."""
    import asyncio
    from streamz import Stream
    rng = ctx.rng
    for i in range(n):
        k = rng.choice([2, 2, 3])
        maxsize = rng.choice([None, None, 1, 3])          # None: the default
        ahead = (10 if maxsize is None else maxsize) + rng.choice([1, 2, 5])
        case = {"zip_one_sided": True, "inputs": k, "maxsize": maxsize, "ahead": ahead, "first": rng.randrange(k)}
        loop = asyncio.new_event_loop()
        asyncio.set_event_loop(loop)                       # as in the main thread of a plain program: a current loop that is not running
        try:
            srcs = [Stream() for _ in range(k)]
            z = srcs[0].zip(*srcs[1:]) if maxsize is None else srcs[0].zip(*srcs[1:], maxsize=maxsize)
            got = z.sink_to_list()
            order = [case["first"]] + [j for j in range(k) if j != case["first"]]
            for j in order:
                for v in range(ahead):
                    srcs[j].emit(100 * j + v)
        finally:
            asyncio.set_event_loop(None)
            loop.close()
        want = [tuple(100 * j + v for j in range(k)) for v in range(ahead)]
        ctx.case(case, nontrivial=True)
        ctx.count("zip-one-sided:" + ("default-maxsize" if maxsize is None else "maxsize=%d" % maxsize))
        if got != want:
            ctx.failure("semantics:zip-one-sided", "zip over %d inputs (maxsize %s), input %d %d elements ahead: delivered %r, index-wise pairing is %r"
                        % (k, "default" if maxsize is None else maxsize, case["first"], ahead, got[:6], want[:6]), case)


def run(ctx):
    ctx.audit(extra_modules=EXTRA)
    zip_one_sided_sample(ctx, 12 if not ctx.thorough() else 200)
    indexed_key_sample(ctx, 40 if not ctx.thorough() else 800)
    n = 400 if not ctx.thorough() else 12000
    graphcheck.run_family(ctx, n, ASPECTS, CHECKS, SIGS, corpus=CORPUS)
    # one emission in eight is not an integer (None, a string, a tuple, a list): type-agnostic nodes pass them on like anything else,
    # the others raise what the model says they raise
    graphcheck.run_family(ctx, n // 4, ASPECTS, CHECKS, SIGS, p_weird=0.12)
    ctx.coverage["rule"] = (
        "corpus + seeded structured generator (harness/gen_graph.py): pipelines of 2-9 nodes over the synchronous catalogue with fan-out, "
        "fan-in, several entry points, boundary parameters, a feedback-through-unique template; ops generated online (emissions over a "
        "6-letter alphabet at any entry point, flushes, consumer completions). Non-trivial: the pipeline contains a stateful/combining/"
        "dropping node and the run produced >= 8 flow events. Distinct = distinct (graph, ops) JSON.")
    ctx.assumptions += [
        "user functions come from a fixed catalogue with Python twins (harness/catalogue.py) of the Lean definitions",
        "zip is built with a large maxsize so that its Condition-based backpressure (covered by C03) never engages here",
        "observation wraps update/_emit per instance (public extension surface); no change to /repo",
    ]


def replay(ctx, data):
    ctx.audit(extra_modules=EXTRA)
    if data["case"].get("zip_one_sided"):
        zip_one_sided_sample(ctx, 12)
        ctx.coverage["rule"] = "replay: zip one-sided sample"
        return
    if data["case"].get("indexed_key"):
        indexed_key_sample(ctx, 40)
        ctx.coverage["rule"] = "replay: indexed key sample"
        return
    graphcheck.replay_case(ctx, data["case"], ASPECTS, CHECKS, SIGS)
    ctx.coverage["rule"] = "replay of one recorded case"
