"""C01 — pipelines compute the dataflow semantics: no loss, duplication, reordering.

Lean: Model/Graph.lean (+Val.lean), Props/C01.lean.  Correspondence: deterministic
differential of the full ordered arrive/emit log of every node (values) between the real
pipeline and the model, in blocking mode (no event loop) and on the virtual-time loop.
Oracle (model-free): harness/oracle_graph.py — each node's documented list-level meaning
applied to the arrivals that node observed, plus per-edge delivery (every attached branch
sees every emission, in attachment order).
"""
from .. import graphcheck

ASPECTS = ("flow", "err", "starts")
CHECKS = ("sem", "edges", "nodup")
SIGS = ("semantics", "edge-delivery", "edge-altered", "duplicated", "plumbing")

CORPUS = [
    # None (and other non-integer values) are elements like any other: combining nodes must not read them as "nothing yet"
    {"mode": "sync", "nodes": [{"kind": "source", "ups": []}, {"kind": "source", "ups": []}, {"kind": "combine_latest", "ups": [0, 1], "emit_on": None},
                               {"kind": "sink", "mode": "sync", "f": ["id"], "ups": [2]}],
     "ops": [{"op": "emit", "node": 0, "val": 3, "md": []}, {"op": "emit", "node": 1, "val": 10, "md": []}, {"op": "emit", "node": 0, "val": None, "md": []},
             {"op": "emit", "node": 1, "val": 20, "md": []}, {"op": "emit", "node": 0, "val": 5, "md": []}, {"op": "emit", "node": 1, "val": None, "md": []}]},
    {"mode": "sync", "nodes": [{"kind": "source", "ups": []}, {"kind": "source", "ups": []}, {"kind": "zip_latest", "ups": [0, 1]},
                               {"kind": "zip", "ups": [0, 1], "literals": []}, {"kind": "union", "ups": [2, 3]}, {"kind": "sliding_window", "ups": [4], "n": 2, "partial": True},
                               {"kind": "sink", "mode": "sync", "f": ["id"], "ups": [5]}],
     "ops": [{"op": "emit", "node": 0, "val": None, "md": []}, {"op": "emit", "node": 1, "val": None, "md": []}, {"op": "emit", "node": 0, "val": 0, "md": []},
             {"op": "emit", "node": 1, "val": "", "md": []}, {"op": "emit", "node": 0, "val": None, "md": []}, {"op": "emit", "node": 1, "val": 7, "md": []}]},
    # slice with start % step != 0 (repaired defect ee71f4f)
    {"mode": "sync", "nodes": [{"kind": "source", "ups": []}, {"kind": "slice", "ups": [0], "start": 1, "end": None, "step": 2},
                               {"kind": "sink", "mode": "sync", "f": ["id"], "ups": [1]}],
     "ops": [{"op": "emit", "node": 0, "val": v, "md": []} for v in range(5)]},
    # diamond: map f zip map g
    {"mode": "sync", "nodes": [{"kind": "source", "ups": []}, {"kind": "map", "f": ["inc"], "ups": [0]}, {"kind": "map", "f": ["dbl"], "ups": [0]},
                               {"kind": "zip", "ups": [1, 2], "literals": []}, {"kind": "sink", "mode": "sync", "f": ["id"], "ups": [3]}],
     "ops": [{"op": "emit", "node": 0, "val": v, "md": []} for v in (3, 1, 2)]},
]


EXTRA = ["StreamzVerif.Props.C01Sem", "StreamzVerif.Props.C01Compose"]


def run(ctx):
    ctx.audit(extra_modules=EXTRA)
    n = 400 if not ctx.thorough() else 12000
    graphcheck.run_family(ctx, n, ASPECTS, CHECKS, SIGS, corpus=CORPUS)
    # one emission in eight is not an integer (None, a string, a tuple, a list): type-agnostic nodes pass them on like anything else,
    # the others raise what the model says they raise
    graphcheck.run_family(ctx, n // 4, ASPECTS, CHECKS, SIGS, p_weird=0.12)
    ctx.coverage["rule"] = (
        "corpus + seeded structured generator (harness/gen_graph.py): pipelines of 2-9 nodes over the synchronous catalogue with fan-out, "
        "fan-in, several entry points, boundary parameters, a feedback-through-unique template; ops generated online (emissions over a "
        "6-letter alphabet at any entry point, flushes, consumer completions). Non-trivial: the pipeline contains a stateful/combining/"
        "dropping node and the run produced >= 8 flow events. Distinct = distinct (graph, ops) JSON.")
    ctx.assumptions += [
        "user functions come from a fixed catalogue with Python twins (harness/catalogue.py) of the Lean definitions",
        "zip is built with a large maxsize so that its Condition-based backpressure (covered by C03) never engages here",
        "observation wraps update/_emit per instance (public extension surface); no change to /repo",
    ]


def replay(ctx, data):
    ctx.audit(extra_modules=EXTRA)
    graphcheck.replay_case(ctx, data["case"], ASPECTS, CHECKS, SIGS)
    ctx.coverage["rule"] = "replay of one recorded case"
