"""C04 — checkpoint safety: the completion signal never precedes completion.

Lean: Model/Graph.lean reference table (Props/C04.lean `sync_never_early`: a callback fires only
when no node buffer, unfinished consumer or suspended flush holds the entry; failed elements
never fire), per-node event-loop models for the holding asynchronous nodes.  Correspondence:
(A) deterministic differential of callbacks fired and counts after every operation, with failing
functions and failing consumers; (B) node-group modules.  Oracle (model-free): whenever a
callback fires, no holding node still contains an element carrying the entry (arrived, not yet
emitted, not dropped) and no consumer invocation that received it is unfinished; callbacks of
elements whose processing raised never fire.
"""
from .. import asynccheck as ac, graphcheck, vloop
from . import _async_common as A
from .c02 import corr_modules, lean_extra

ASPECTS = ("flow", "err", "fires", "counts", "starts")
CHECKS = ("sem", "early")
SIGS_A = ("early-callback", "failed-callback")
SIGS_B = ("early-callback", "failed-callback")

CORPUS_A = [
    # every option form of a one-to-one node forwards the element's metadata: unique(hashable=False) with and without key / maxsize,
    # a metadata list whose first entry carries no counter
    {"mode": "async", "flavour": "future", "nodes": [{"kind": "source", "ups": []}, {"kind": "unique", "ups": [0], "maxsize": None, "key": ["id"], "hashable": False},
                                                      {"kind": "sink", "mode": "async", "ups": [1]}],
     "ops": [{"op": "emit", "node": 0, "val": 1, "md": [{"tag": 1, "ref": 1}]}, {"op": "emit", "node": 0, "val": 2, "md": [{"tag": 2, "ref": None}, {"tag": 3, "ref": 2}]},
             {"op": "sinkdone", "tok": 0}, {"op": "sinkdone", "tok": 1}]},
    {"mode": "async", "flavour": "coro", "nodes": [{"kind": "source", "ups": []}, {"kind": "unique", "ups": [0], "maxsize": 2, "key": ["modk", 3], "hashable": False},
                                                    {"kind": "sliding_window", "ups": [1], "n": 2, "partial": True}, {"kind": "sink", "mode": "async", "ups": [2]}],
     "ops": [{"op": "emit", "node": 0, "val": 1, "md": [{"tag": 1, "ref": None}, {"tag": 2, "ref": 1}]}, {"op": "emit", "node": 0, "val": 2, "md": [{"tag": 3, "ref": 2}]},
             {"op": "sinkdone", "tok": 0}, {"op": "sinkdone", "tok": 1}]},
    {"mode": "async", "flavour": "coro", "nodes": [{"kind": "source", "ups": []}, {"kind": "sink", "mode": "async", "ups": [0]}],
     "ops": [{"op": "emit", "node": 0, "val": 1, "md": [{"tag": 1, "ref": 1}]}, {"op": "sinkdone", "tok": 0}]},
    # a consumer that fails before its first suspension point (the awaitable it returns has already failed) keeps the element's
    # references for good: the completion callback of a failed element never fires
    {"mode": "async", "flavour": "future", "nodes": [{"kind": "source", "ups": []}, {"kind": "sink", "mode": "async", "ups": [0], "prefail": [2, 0]}],
     "ops": [{"op": "emit", "node": 0, "val": 2, "md": [{"tag": 1, "ref": 1}]}, {"op": "sinkfail", "tok": 0},
             {"op": "emit", "node": 0, "val": 3, "md": [{"tag": 2, "ref": 2}]}, {"op": "sinkdone", "tok": 1}]},
    {"mode": "async", "flavour": "tornado", "nodes": [{"kind": "source", "ups": []}, {"kind": "map", "f": ["inc"], "ups": [0]},
                                                       {"kind": "sink", "mode": "async", "ups": [1], "prefail": [3, 1]}, {"kind": "sink", "mode": "async", "ups": [1]}],
     "ops": [{"op": "emit", "node": 0, "val": 3, "md": [{"tag": 1, "ref": 1}]}, {"op": "sinkfail", "tok": 0}, {"op": "sinkdone", "tok": 1},
             {"op": "emit", "node": 0, "val": 4, "md": [{"tag": 2, "ref": 2}]}, {"op": "sinkdone", "tok": 2}, {"op": "sinkdone", "tok": 3}]},
]
CORPUS_B = [
    {"mode": "async", "flavour": "future", "nodes": [{"kind": "source", "ups": []}, {"kind": "rate_limit", "interval": 1, "ups": [0]},
                                                      {"kind": "sink", "mode": "async", "ups": [1]}],
     "ops": [{"op": "settle"}, {"op": "emit", "node": 0, "val": 1, "md": [{"tag": 1, "ref": 1}]}, {"op": "emit", "node": 0, "val": 2, "md": [{"tag": 2, "ref": 2}]},
             {"op": "sinkdone", "tok": 0}, {"op": "advance", "dt": 1}, {"op": "sinkdone", "tok": 1}, {"op": "advance", "dt": 1}]},
    {"mode": "async", "flavour": "coro", "nodes": [{"kind": "source", "ups": []}, {"kind": "map_async", "f": ["inc"], "parallelism": 2, "ups": [0]},
                                                    {"kind": "timed_window", "interval": 1, "ups": [1]}, {"kind": "sink", "mode": "async", "ups": [2]}],
     "ops": [{"op": "settle"}, {"op": "emit", "node": 0, "val": 1, "md": [{"tag": 1, "ref": 1}]}, {"op": "jobdone", "job": 0}, {"op": "sinkdone", "tok": 0},
             {"op": "advance", "dt": 1}, {"op": "advance", "dt": 1}, {"op": "sinkdone", "tok": 1}, {"op": "advance", "dt": 2}]},
]


def run(ctx):
    ctx.audit(extra_modules=lean_extra("C04"))
    n = 150 if not ctx.thorough() else 5000
    graphcheck.run_family(ctx, n, ASPECTS, CHECKS, SIGS_A, corpus=CORPUS_A, flavours=("future", "coro", "tornado"),
                          fail_prob=0.15, p_sinkfail=0.15)
    A.sweep(ctx, n, A.ALL_KINDS, ["early"], SIGS_B, corpus=CORPUS_B, opts={"p_jobfail": 0.25, "p_nomd": 0.2})
    for m in corr_modules():
        m.run(ctx, "C04", 40 if not ctx.thorough() else 1500)
    dask_boundary(ctx)
    custom_node_cases(ctx)
    cancelled_consumer_cases(ctx)
    ctx.coverage["rule"] = ("(A) graph-family generator, both modes, 15% failing functions / failing consumers, every emission with a fresh counter; "
                            "(B) asynchronous pipelines over all holding node types incl. latest, every emission with a fresh counter with callback; "
                            "(C) scatter()...gather() segments of the C20 family on the in-process Dask cluster (await / buffer / concurrent producers), every input with a counter; "
                            "(D) a user-defined coroutine node below each holding node type, every input with a counter; (E) consumers whose awaitable is cancelled. "
                            "Non-trivial as in C01/C02.")
    ctx.assumptions += ["'derived from' = carries the element's metadata entry (flatten attaches it to the last piece only, by design)",
                        "holders are evaluated when the loop has settled after the operation during which the callback fired"]


def dask_boundary(ctx, cases=None):
    """(C) scatter()/gather() hold the references of the elements waiting in them (streamz/dask.py 95-150): pipelines of the C20
    family on the in-process cluster; a result carrying a reference must not reach the sink after that reference's counter hit zero."""
    from . import c20
    if cases is None:
        plan = [("await", 60), ("buffer", 60), ("concurrent", 80)] if ctx.thorough() else [("await", 2), ("buffer", 3), ("concurrent", 5)]
        cases = list(c20.CORPUS) + [c20.gen_case(ctx.rng, mode) for mode, k in plan for _ in range(k)]
    for c, (loc, dsk) in zip(cases, c20.run_cases(cases)):
        if dsk.get("not_dask_backed"):
            continue                # the pipeline could not be built as a Dask-backed one: C20's finding, nothing observed here
        ctx.count("dask-boundary:" + c["mode"])
        n = len(c["xs"])
        ctx.case({"dask": c}, nontrivial=len(loc["out"]) >= 2 and dsk["tasks"] >= 1)
        if any(dsk["late"][i] and not loc["late"][i] for i in range(n)):
            ctx.failure("early-callback:dask", "Dask-backed pipeline: results carrying a reference reached the sink after that reference's counter "
                        "had reached zero (sink positions per input %r; locally %r)" % (dsk["late"], loc["late"]), {"dask": c},
                        oracle="the completion callback never fires while the element is waiting in scatter/gather or being computed")
        elif any(dsk["fired"][i] and dsk["outcomes"][i] != "ok" for i in range(n)) if "outcomes" in dsk else False:
            ctx.failure("failed-callback:dask", "the callback of an element whose emit failed fired: %r / %r" % (dsk["fired"], dsk["outcomes"]), {"dask": c})


CUSTOM_HOLDERS = ("buffer", "rate_limit", "delay", "timed_window", "map_async", "latest")


def custom_node_cases(ctx, cases=None):
    """(D) a user-defined node (Stream subclass, the documented extension point) whose update() returns an awaitable and which keeps
    no reference of its own, placed directly below a node that holds an element across the delivery it starts (buffer, rate_limit,
    delay, timed_window, map_async, latest): the element is 'being handled by a downstream node' until that awaitable has finished, so
    the holder's reference must last that long and the callback must not fire before.  Judged by the property statement alone."""
    from streamz import Stream, RefCounter
    from tornado.ioloop import IOLoop
    from .. import graphlib
    if cases is None:
        cases = [{"custom_node": k, "n": n} for k in CUSTOM_HOLDERS for n in (1, 3)]
    for case in cases:
        kind, n = case["custom_node"], case["n"]
        log = []

        async def main(loop, kind=kind, n=n, log=log):
            pend = []

            class Raw(Stream):
                def update(self, x, who=None, metadata=None):
                    fut = loop.create_future()
                    pend.append((x, fut))
                    log.append(("handling", x if not isinstance(x, tuple) else list(x)))
                    return fut
            src = Stream(asynchronous=True, loop=IOLoop.current())

            async def ident(x):
                return x
            h = {"buffer": lambda: src.buffer(4), "rate_limit": lambda: src.rate_limit(0.5), "delay": lambda: src.delay(0.5),
                 "timed_window": lambda: src.timed_window(0.5), "map_async": lambda: src.map_async(ident),
                 "latest": lambda: src.latest()}[kind]()
            raw = Raw(h)          # kept alive: downstreams are held weakly
            await vloop.settle(loop)
            for i in range(n):
                rc = RefCounter(cb=lambda i=i: log.append(("fire", i)), loop=graphlib.ImmediateLoop())
                r = src.emit(i, metadata=[{"ref": rc}])
                await vloop.settle(loop)
                del r, rc
            for _ in range(3 * n + 3):
                await vloop.advance(0.5, loop)
                await vloop.settle(loop)
                if pend:
                    x, fut = pend.pop(0)
                    log.append(("handled", x if not isinstance(x, tuple) else list(x)))
                    fut.set_result(None)
                    await vloop.settle(loop)
            if kind == "map_async":
                h.stop()                 # let the worker task end with the loop
                await vloop.settle(loop)
            del raw
        vloop.run(main)
        ctx.count("custom-node:" + kind)
        handled = [e[1] for e in log if e[0] == "handled"]
        flat = [y for x in handled for y in (x if isinstance(x, list) else [x])]
        ctx.case(case, nontrivial=len(flat) >= 1)
        bad = None
        for pos, e in enumerate(log):
            if e[0] != "fire":
                continue
            i = e[1]
            started = [k for k, f in enumerate(log[:pos]) if f[0] == "handling" and (f[1] == i or (isinstance(f[1], list) and i in f[1]))]
            done = [k for k, f in enumerate(log[:pos]) if f[0] == "handled" and (f[1] == i or (isinstance(f[1], list) and i in f[1]))]
            if kind == "latest" and not started:
                continue                 # latest drops superseded elements: their callback fires when they are dropped
            if not done:
                bad = (i, "before the node below had started on it" if not started else "while the node below was still handling it")
                break
        if bad:
            ctx.failure("early-callback:custom-node", "source -> %s -> user-defined coroutine node, %d elements with a counter each: the callback of "
                        "element %d fired %s (events %r)" % (kind, n, bad[0], bad[1], log), case,
                        oracle="the callback never fires while an element derived from the input is being handled by a downstream node")
        elif sorted(flat) != list(range(n)) and kind != "latest":
            ctx.failure("early-callback:custom-node-lost", "source -> %s -> user-defined coroutine node: elements handled %r of %d" % (kind, handled, n), case)


def cancelled_consumer_cases(ctx, cases=None):
    """(E) a consumer whose awaitable is CANCELLED (a task cancelled on shutdown, a future dropped by a timeout) has not handled the
    element: like a failed one it keeps the element's references, the completion callback does not fire; the next element is unaffected."""
    import asyncio
    from streamz import Stream, RefCounter
    from tornado import gen
    from tornado.ioloop import IOLoop
    from .. import graphlib
    if cases is None:
        cases = [{"cancelled_consumer": flav, "via": via} for flav in ("future", "task", "tornado") for via in ("direct", "map")]
    for case in cases:
        flav, via = case["cancelled_consumer"], case["via"]
        fired, counts = [], {}

        async def main(loop, flav=flav, via=via, fired=fired, counts=counts):
            src = Stream(asynchronous=True, loop=IOLoop.current())
            up = src if via == "direct" else src.map(lambda x: x)
            pend = []

            def consumer(x):
                fut = loop.create_future()
                if flav == "future":
                    r = fut
                elif flav == "task":
                    async def w():
                        await fut
                    r = asyncio.ensure_future(w())
                else:
                    @gen.coroutine
                    def tw():
                        yield fut
                    r = tw()
                pend.append((fut, r))
                return r
            s_ = up.sink(consumer)
            rcs = [RefCounter(cb=lambda i=i: fired.append(i), loop=graphlib.ImmediateLoop()) for i in range(2)]
            e0 = src.emit(0, metadata=[{"ref": rcs[0]}])
            e0.add_done_callback(lambda f: f.cancelled() or f.exception())
            await vloop.settle(loop)
            fut, r = pend[0]
            r.cancel()
            await vloop.settle(loop)
            counts["after_cancel"] = rcs[0].count
            counts["fired_after_cancel"] = list(fired)
            if not fut.done():
                fut.cancel()
            e1 = src.emit(1, metadata=[{"ref": rcs[1]}])
            e1.add_done_callback(lambda f: f.cancelled() or f.exception())
            await vloop.settle(loop)
            pend[1][0].set_result(None)
            await vloop.settle(loop)
            counts["final"] = [rc.count for rc in rcs]
            del s_
        vloop.run(main)
        ctx.case(case, nontrivial=True)
        ctx.count("cancelled-consumer:" + flav)
        if 0 in fired:
            ctx.failure("failed-callback:cancelled-consumer", "source -> %ssink(consumer returning a %s): the consumer's awaitable was cancelled while it handled element 0, "
                        "yet the completion callback of element 0 fired (fired %r, count after the cancellation %r)"
                        % ("map -> " if via == "map" else "", flav, fired, counts.get("after_cancel")), case,
                        oracle="the completion callback is never triggered for an element whose processing did not complete")
        elif fired != [1] or counts.get("final", [None, None])[1] != 0:
            ctx.failure("early-callback:after-cancelled-consumer", "after a cancelled consumer the next element (handled normally) must complete: fired %r, final counts %r"
                        % (fired, counts.get("final")), case)


def replay(ctx, data):
    ctx.audit(extra_modules=lean_extra("C04"))
    case = data["case"]
    if "dask" in case:
        dask_boundary(ctx, [case["dask"]])
        ctx.coverage["rule"] = "replay of one recorded case"
        return
    if "cancelled_consumer" in case:
        cancelled_consumer_cases(ctx, [case])
        ctx.coverage["rule"] = "replay of one recorded case"
        return
    if "custom_node" in case:
        custom_node_cases(ctx, [case])
        ctx.coverage["rule"] = "replay of one recorded case"
        return
    if any(op["op"] in ("advance", "settle", "jobdone", "jobfail") for op in case["ops"]) or any(n["kind"] in ac.HOLDING for n in case["nodes"]):
        ac.evaluate(ctx, case, ac.rerun(case), ["early"], SIGS_B)
    else:
        graphcheck.replay_case(ctx, case, ASPECTS, CHECKS, SIGS_A)
    ctx.coverage["rule"] = "replay of one recorded case"
