"""C04 — checkpoint safety: the completion signal never precedes completion.

Lean: Model/Graph.lean reference table (Props/C04.lean `sync_never_early`: a callback fires only
when no node buffer, unfinished consumer or suspended flush holds the entry; failed elements
never fire), per-node event-loop models for the holding asynchronous nodes.  Correspondence:
(A) deterministic differential of callbacks fired and counts after every operation, with failing
functions and failing consumers; (B) node-group modules.  Oracle (model-free): whenever a
callback fires, no holding node still contains an element carrying the entry (arrived, not yet
emitted, not dropped) and no consumer invocation that received it is unfinished; callbacks of
elements whose processing raised never fire.
"""
from .. import asynccheck as ac, graphcheck
from . import _async_common as A
from .c02 import corr_modules, lean_extra

ASPECTS = ("flow", "err", "fires", "counts", "starts")
CHECKS = ("sem", "early")
SIGS_A = ("early-callback", "failed-callback")
SIGS_B = ("early-callback", "failed-callback")

CORPUS_A = [
    # every option form of a one-to-one node forwards the element's metadata: unique(hashable=False) with and without key / maxsize,
    # a metadata list whose first entry carries no counter
    {"mode": "async", "flavour": "future", "nodes": [{"kind": "source", "ups": []}, {"kind": "unique", "ups": [0], "maxsize": None, "key": ["id"], "hashable": False},
                                                      {"kind": "sink", "mode": "async", "ups": [1]}],
     "ops": [{"op": "emit", "node": 0, "val": 1, "md": [{"tag": 1, "ref": 1}]}, {"op": "emit", "node": 0, "val": 2, "md": [{"tag": 2, "ref": None}, {"tag": 3, "ref": 2}]},
             {"op": "sinkdone", "tok": 0}, {"op": "sinkdone", "tok": 1}]},
    {"mode": "async", "flavour": "coro", "nodes": [{"kind": "source", "ups": []}, {"kind": "unique", "ups": [0], "maxsize": 2, "key": ["modk", 3], "hashable": False},
                                                    {"kind": "sliding_window", "ups": [1], "n": 2, "partial": True}, {"kind": "sink", "mode": "async", "ups": [2]}],
     "ops": [{"op": "emit", "node": 0, "val": 1, "md": [{"tag": 1, "ref": None}, {"tag": 2, "ref": 1}]}, {"op": "emit", "node": 0, "val": 2, "md": [{"tag": 3, "ref": 2}]},
             {"op": "sinkdone", "tok": 0}, {"op": "sinkdone", "tok": 1}]},
    {"mode": "async", "flavour": "coro", "nodes": [{"kind": "source", "ups": []}, {"kind": "sink", "mode": "async", "ups": [0]}],
     "ops": [{"op": "emit", "node": 0, "val": 1, "md": [{"tag": 1, "ref": 1}]}, {"op": "sinkdone", "tok": 0}]},
]
CORPUS_B = [
    {"mode": "async", "flavour": "future", "nodes": [{"kind": "source", "ups": []}, {"kind": "rate_limit", "interval": 1, "ups": [0]},
                                                      {"kind": "sink", "mode": "async", "ups": [1]}],
     "ops": [{"op": "settle"}, {"op": "emit", "node": 0, "val": 1, "md": [{"tag": 1, "ref": 1}]}, {"op": "emit", "node": 0, "val": 2, "md": [{"tag": 2, "ref": 2}]},
             {"op": "sinkdone", "tok": 0}, {"op": "advance", "dt": 1}, {"op": "sinkdone", "tok": 1}, {"op": "advance", "dt": 1}]},
    {"mode": "async", "flavour": "coro", "nodes": [{"kind": "source", "ups": []}, {"kind": "map_async", "f": ["inc"], "parallelism": 2, "ups": [0]},
                                                    {"kind": "timed_window", "interval": 1, "ups": [1]}, {"kind": "sink", "mode": "async", "ups": [2]}],
     "ops": [{"op": "settle"}, {"op": "emit", "node": 0, "val": 1, "md": [{"tag": 1, "ref": 1}]}, {"op": "jobdone", "job": 0}, {"op": "sinkdone", "tok": 0},
             {"op": "advance", "dt": 1}, {"op": "advance", "dt": 1}, {"op": "sinkdone", "tok": 1}, {"op": "advance", "dt": 2}]},
]


def run(ctx):
    ctx.audit(extra_modules=lean_extra("C04"))
    n = 150 if not ctx.thorough() else 5000
    graphcheck.run_family(ctx, n, ASPECTS, CHECKS, SIGS_A, corpus=CORPUS_A, flavours=("future", "coro", "tornado"),
                          fail_prob=0.15, p_sinkfail=0.15)
    A.sweep(ctx, n, A.ALL_KINDS, ["early"], SIGS_B, corpus=CORPUS_B, opts={"p_jobfail": 0.25, "p_nomd": 0.2})
    for m in corr_modules():
        m.run(ctx, "C04", 40 if not ctx.thorough() else 1500)
    dask_boundary(ctx)
    ctx.coverage["rule"] = ("(A) graph-family generator, both modes, 15% failing functions / failing consumers, every emission with a fresh counter; "
                            "(B) asynchronous pipelines over all holding node types incl. latest, every emission with a fresh counter with callback; "
                            "(C) scatter()...gather() segments of the C20 family on the in-process Dask cluster (await / buffer / concurrent producers), every input with a counter. "
                            "Non-trivial as in C01/C02.")
    ctx.assumptions += ["'derived from' = carries the element's metadata entry (flatten attaches it to the last piece only, by design)",
                        "holders are evaluated when the loop has settled after the operation during which the callback fired"]


def dask_boundary(ctx, cases=None):
    """(C) scatter()/gather() hold the references of the elements waiting in them (streamz/dask.py 95-150): pipelines of the C20
    family on the in-process cluster; a result carrying a reference must not reach the sink after that reference's counter hit zero."""
    from . import c20
    if cases is None:
        plan = [("await", 60), ("buffer", 60), ("concurrent", 80)] if ctx.thorough() else [("await", 2), ("buffer", 3), ("concurrent", 5)]
        cases = list(c20.CORPUS) + [c20.gen_case(ctx.rng, mode) for mode, k in plan for _ in range(k)]
    for c, (loc, dsk) in zip(cases, c20.run_cases(cases)):
        ctx.count("dask-boundary:" + c["mode"])
        n = len(c["xs"])
        ctx.case({"dask": c}, nontrivial=len(loc["out"]) >= 2 and dsk["tasks"] >= 1)
        if any(dsk["late"][i] and not loc["late"][i] for i in range(n)):
            ctx.failure("early-callback:dask", "Dask-backed pipeline: results carrying a reference reached the sink after that reference's counter "
                        "had reached zero (sink positions per input %r; locally %r)" % (dsk["late"], loc["late"]), {"dask": c},
                        oracle="the completion callback never fires while the element is waiting in scatter/gather or being computed")
        elif any(dsk["fired"][i] and dsk["outcomes"][i] != "ok" for i in range(n)) if "outcomes" in dsk else False:
            ctx.failure("failed-callback:dask", "the callback of an element whose emit failed fired: %r / %r" % (dsk["fired"], dsk["outcomes"]), {"dask": c})


def replay(ctx, data):
    ctx.audit(extra_modules=lean_extra("C04"))
    case = data["case"]
    if "dask" in case:
        dask_boundary(ctx, [case["dask"]])
        ctx.coverage["rule"] = "replay of one recorded case"
        return
    if any(op["op"] in ("advance", "settle", "jobdone", "jobfail") for op in case["ops"]) or any(n["kind"] in ac.HOLDING for n in case["nodes"]):
        ac.evaluate(ctx, case, ac.rerun(case), ["early"], SIGS_B)
    else:
        graphcheck.replay_case(ctx, case, ASPECTS, CHECKS, SIGS_A)
    ctx.coverage["rule"] = "replay of one recorded case"
