"""C06 — streaming dataframe aggregations equal pandas on everything seen so far.

Lean: Model/Agg.lean (pandas reductions as specification; transcription of every Aggregation
class as a pure step; map_partitions over streams-as-lists), Proofs/Agg.lean, Props/C06.lean.

Correspondence (this file), two levels, both against Drivers/Agg.lean:
  direct   every `Aggregation` object of streamz/dataframe/aggregations.py is driven by hand
           (`initial`, `on_new`, `on_old`) and its STATE and result are compared with the model's
           step on the same (state, batch) after every call;
  api      a real streaming DataFrame is built (`sdf[mask]`, `.assign`, `sdf[c] = ...`, `sdf[[..]]`,
           arithmetic on streaming Series, then `.sum() .count() .size .mean() .value_counts()`,
           `aggregate(Var)`, `expanding().var()/std()`, `groupby(col | streaming series)[c].<agg>()`),
           batches are emitted and every emission (and the per-batch frames produced by the pipeline)
           is compared with the model's fold.
Model-free oracle: real pandas on `pd.concat(batches[:k+1])` run through the same expression tree
(the builder is duck-typed: the same function builds the streamz graph and the pandas result),
skipped where the concatenation reaching the aggregation has no row; per batch: pandas on that batch.

Numbers are small integers and NaN, so sums, counts and sums of squares are exact in binary64 and
are compared exactly with the model's rationals; quotients within 1 ulp of the rational; var/std with
relative 1e-9.
"""
import itertools
import logging
import math
import operator
import warnings
from fractions import Fraction

from .. import common

NAN = float("nan")
VALS = [-1, 0, 1, 2, 3]           # value alphabet (and NaN)
KEYS = [0, 1, 2]                  # key alphabet (and NaN)
COLS = ["x", "y", "g"]

SCALAR_AGGS = ["sum", "count", "size", "mean", "var", "std", "value_counts"]
GROUP_AGGS = ["sum", "count", "size", "mean", "var", "std"]
FRAME_AGGS = ["sum", "count", "size", "mean"]
EXACT = {"sum", "count", "size", "value_counts"}

BIN = {"add": operator.add, "sub": operator.sub, "mul": operator.mul}
BIN_ALL = dict(BIN, div=operator.truediv)     # "div" only occurs in the oracle-only non-finite stream
CMP = {"lt": operator.lt, "le": operator.le, "gt": operator.gt, "ge": operator.ge,
       "eq": operator.eq, "ne": operator.ne}


# ------------------------------------------------------------------ numbers

def frac(x):
    """python / numpy number -> Fraction, None for NaN, 'inf' / '-inf'."""
    if x is None:
        return None
    xf = float(x)
    if math.isnan(xf):
        return None
    if math.isinf(xf):
        return "inf" if xf > 0 else "-inf"
    return Fraction(xf)


def mfrac(j):
    """model number ([num, den] | int | null) -> Fraction | None."""
    if j is None:
        return None
    if isinstance(j, list):
        return Fraction(j[0], j[1])
    return Fraction(j)


def close(a, b, rel):
    """a, b: Fraction | None | 'inf'."""
    if a is None or b is None or isinstance(a, str) or isinstance(b, str):
        return a == b
    if a == b:
        return True
    fa, fb = float(a), float(b)
    return abs(fa - fb) <= rel * max(abs(fa), abs(fb)) + 1e-9


def same_num(kind, impl, model):
    """impl: Fraction|None from the real code; model: Fraction|None.  kind: exact|quot|var|std."""
    if kind == "exact":
        return impl == model
    if kind == "quot":
        if impl is None or model is None or isinstance(impl, str):
            return impl == model
        want = model.numerator / model.denominator      # correctly rounded quotient
        return abs(float(impl) - want) <= math.ulp(want)
    if kind == "var":
        return close(impl, model, 1e-9)
    if kind == "std":                                    # model holds the variance
        if impl is None or model is None or isinstance(impl, str):
            return impl == model
        return close(impl * impl, model, 1e-9)
    raise ValueError(kind)


def kind_of(agg):
    return "exact" if agg in EXACT else {"mean": "quot", "var": "var", "std": "std"}[agg]


def ser_items(s):
    """pandas Series indexed by float keys -> {Fraction key: Fraction|None}"""
    return {frac(k): frac(v) for k, v in s.items()}


def model_map(j):
    return {mfrac(k): mfrac(v) for k, v in j}


def same_map(kind, impl, model):
    if set(impl) != set(model):
        return False
    return all(same_num(kind, impl[k], model[k]) for k in impl)


def show(x):
    if isinstance(x, dict):
        return {str(k): show(v) for k, v in sorted(x.items(), key=lambda kv: str(kv[0]))}
    if isinstance(x, Fraction):
        return float(x) if x.denominator != 1 else int(x)
    if isinstance(x, (list, tuple)):
        return [show(y) for y in x]
    return x


# ------------------------------------------------------------------ column labels

# Cases (and the model) name columns 'x', 'y', 'g' (+ assigned 'z', 'w', 'v', 'r').  A case may carry
# "labels": {internal name: real label}; the harness relabels at its boundary with pandas / streamz:
# frames are built with the real labels (positional ints 0,1,2 as from pd.DataFrame(ndarray), floats 0.0.., False/True, ''),
# every `f[...]`, `groupby(...)`, `g[...]`, `f[c] = ...` uses the real label, results indexed by column label are
# mapped back.  The Lean model is label-agnostic and keeps receiving the internal names.
_LABELS = {}


class use_labels(object):
    def __init__(self, case):
        self.new = dict(case.get("labels") or {})

    def __enter__(self):
        global _LABELS
        self.old, _LABELS = _LABELS, self.new

    def __exit__(self, *a):
        global _LABELS
        _LABELS = self.old


def L(name):
    return _LABELS.get(name, name)


def unL(label):
    for k, v in _LABELS.items():
        if v == label and type(v) is type(label):
            return k
    return label if isinstance(label, str) else str(label)


def kwargable(name):
    return isinstance(L(name), str)


# ------------------------------------------------------------------ pandas helpers

def pdmod():
    import pandas as pd
    return pd


def mk_series(vals, start=0):
    pd = pdmod()
    return pd.Series([NAN if v is None else float(v) for v in vals], dtype="float64",
                     index=pd.RangeIndex(start, start + len(vals)))


def mk_frame(cols, batch, start=0):
    """batch: {col: [int|None]}"""
    pd = pdmod()
    n = len(batch[cols[0]]) if cols else 0
    return pd.DataFrame({L(c): [NAN if v is None else float(v) for v in batch[c]] for c in cols},
                        index=pd.RangeIndex(start, start + n), columns=[L(c) for c in cols]).astype("float64")


def concat(frames):
    pd = pdmod()
    return pd.concat(frames) if frames else None


# ------------------------------------------------------------------ expression builder (pandas AND streamz)

# element-wise functions for Series.map / DataFrame.map that do NOT propagate NaN by themselves (so na_action matters)
MAPFNS = {"nanflag": lambda v: 1.0 if v != v else 0.0,
          "bucket": lambda v: 7.0 if v != v else v * 2.0,
          "clip": lambda v: min(v, 2.0) if v == v else -3.0}


def build_c(f, e):
    t = e[0]
    if t == "col":
        return f[L(e[1])]
    if t == "bin":
        return BIN_ALL[e[1]](build_c(f, e[2]), build_c(f, e[3]))
    if t == "binr":
        return BIN_ALL[e[1]](build_c(f, e[2]), e[3])
    if t == "binl":
        return BIN_ALL[e[1]](e[2], build_c(f, e[3]))
    if t == "neg":
        return -build_c(f, e[1])
    if t == "same":
        # ["same", op, E]: ONE object used as both operands (x = sdf.x; x * x) - not two equal expressions
        v_ = build_c(f, e[2])
        return BIN_ALL[e[1]](v_, v_)
    if t == "map":
        # ["map", fn, E, na_action, form]: Series.map with every spelling of its na_action option (same call on both sides)
        s_, fn = build_c(f, e[2]), MAPFNS[e[1]]
        if e[4] == "kw":
            return s_.map(fn, na_action=e[3])
        if e[4] == "pos":
            return s_.map(fn, e[3])
        return s_.map(fn)
    raise ValueError(e)


def build_m(f, m):
    t = m[0]
    if t == "cmp":
        return CMP[m[1]](build_c(f, m[2]), build_c(f, m[3]))
    if t == "cmpr":
        return CMP[m[1]](build_c(f, m[2]), m[3])
    if t == "and":
        return build_m(f, m[1]) & build_m(f, m[2])
    if t == "or":
        return build_m(f, m[1]) | build_m(f, m[2])
    if t == "not":
        return ~build_m(f, m[1])
    raise ValueError(m)


def build_pipe(f, pipe, setitem=False, attr=False):
    for st in pipe:
        if st[0] == "filter":
            f = f[build_m(f, st[1])]
        elif st[0] == "assign":
            if setitem and hasattr(f, "stream"):
                f[L(st[1])] = build_c(f, st[2])     # streaming __setitem__ rebinds f.stream in place
            else:
                f = f.assign(**{L(st[1]): build_c(f, st[2])})    # (string labels only: generators see to it)
        elif st[0] == "select":
            f = f[[L(c) for c in st[1]]]
        elif st[0] == "mapframe":
            # ["mapframe", fn, na_action, form]: DataFrame.map
            fn = MAPFNS[st[1]]
            f = f.map(fn, na_action=st[2]) if st[3] == "kw" else (f.map(fn, st[2]) if st[3] == "pos" else f.map(fn))
        else:
            raise ValueError(st)
    return f


def cols_after(cols, pipe):
    cols = list(cols)
    for st in pipe:
        if st[0] == "assign" and st[1] not in cols:
            cols.append(st[1])
        elif st[0] == "select":
            cols = list(st[1])
    return cols


def pandas_agg(f, target):
    """the pandas aggregation of the property statement on the (already piped) frame `f`."""
    agg, kind = target["agg"], target["kind"]
    ddof = target.get("ddof", 1)
    if kind == "col":
        s = build_c(f, target["expr"])
        if agg in ("var", "std"):
            return getattr(s, agg)(ddof=ddof)
        if agg == "size":
            return s.size
        return getattr(s, agg)()
    if kind == "frame":
        return f.size if agg == "size" else getattr(f, agg)()
    g = f.groupby(L(target["key"][1]) if target["by"] == "name" else build_c(f, target["key"]))[L(target["val"])]
    if agg in ("var", "std"):
        return getattr(g, agg)(ddof=ddof)
    return getattr(g, agg)()


def streamz_agg(f, target, probe=lambda s: None):
    """the streaming aggregation (a Streaming object) for `target` on the streaming frame `f`;
    `probe(s)` is called with the streaming operand (aggregated Series / streaming grouper) before
    the aggregation node is attached."""
    from streamz.dataframe import aggregations as A
    agg, kind = target["agg"], target["kind"]
    ddof = target.get("ddof", 1)
    route = target.get("route", "aggregate")
    if kind == "col":
        s = build_c(f, target["expr"])
        probe(s)
        if agg in ("var", "std"):
            if route == "expanding":
                return getattr(s.expanding(), agg)(ddof=ddof)
            v = s.aggregate(A.Var(ddof=ddof))
            return v ** 0.5 if agg == "std" else v
        if route == "expanding" and agg in ("sum", "count", "mean"):
            return getattr(s.expanding(), agg)()
        if agg == "size":
            return s.size
        return getattr(s, agg)()
    if kind == "frame":
        return f.size if agg == "size" else getattr(f, agg)()
    if target["by"] == "name":
        gb = f.groupby(L(target["key"][1]))
    else:
        key = build_c(f, target["key"])
        probe(key)
        gb = f.groupby(key)
    val = L(target["val"])
    g = getattr(gb, val) if (target.get("attr") and isinstance(val, str) and val.isidentifier()) else gb[val]
    if agg in ("var", "std"):
        return getattr(g, agg)(ddof=ddof)
    return getattr(g, agg)()


# ------------------------------------------------------------------ running the real code

def universe_example(cols):
    pd = pdmod()
    alpha = [NAN] + [float(v) for v in VALS]
    rows = list(itertools.product(alpha, repeat=len(cols)))
    return pd.DataFrame(rows, columns=[L(c) for c in cols], dtype="float64")


_EXAMPLES = {}


def example_for(cols):
    k = tuple((c, repr(L(c))) for c in cols)
    if k not in _EXAMPLES:
        _EXAMPLES[k] = universe_example(cols)
    return _EXAMPLES[k]


def run_api_impl(case):
    """Returns dict(frames=[frame|None per batch], results=[value | ('raised', cls)], construct_error=None|str)."""
    from streamz import Stream
    from streamz.dataframe import DataFrame
    cols = case["cols"]
    t = case["target"]
    try:
        source = Stream()
        sdf = DataFrame(source, example=example_for(cols))
        f = build_pipe(sdf, case["pipe"], setitem=case.get("setitem", False))
        frames = f.stream.sink_to_list()             # registered before the aggregation: delivered first
        operands = []
        out = streamz_agg(f, t, lambda s: operands.append(s.stream.sink_to_list())).stream.sink_to_list()
        operands = operands[0] if operands else None
    except Exception as e:                            # graph construction refused
        return {"construct_error": type(e).__name__ + ": " + str(e)[:200]}
    res, frs, opl = [], [], []
    start = 0
    for b in case["batches"]:
        df = mk_frame(cols, b, start)
        start += len(df)
        n_out, n_fr, n_op = len(out), len(frames), len(operands or [])
        try:
            source.emit(df)      # (`sdf[c] = ...` rebinds sdf.stream, so emit at the source node)
        except Exception as e:
            res.append(("raised", type(e).__name__))
        else:
            res.append(out[-1] if len(out) == n_out + 1 else ("emitted", len(out) - n_out))
        frs.append(frames[-1] if len(frames) == n_fr + 1 else None)
        opl.append(None if operands is None else (operands[-1] if len(operands) == n_op + 1 else "missing"))
    return {"construct_error": None, "results": res, "frames": frs, "operands": opl}


# ------------------------------------------------------------------ comparing api results

def canon_result(target, r):
    """real emission -> comparable python value; anything of an unexpected shape -> ('unexpected', type)"""
    try:
        return _canon_result(target, r)
    except Exception:
        return ("unexpected", type(r).__name__)


def _canon_result(target, r):
    if isinstance(r, tuple):
        if len(r) == 2 and r[0] in ("raised", "unexpected") and isinstance(r[1], str):
            return r            # a marker produced by this harness
        return ("unexpected", "tuple")      # the stream itself emitted a tuple (e.g. an aggregation's internal state)
    if target["kind"] == "col" and target["agg"] != "value_counts":
        return frac(r)
    if target["kind"] == "frame":
        if target["agg"] == "size":
            return frac(r)
        return {unL(k): frac(v) for k, v in r.items()}
    return ser_items(r)


def canon_model_result(target, cols_out, j):
    if isinstance(j, dict) and "err" in j:
        return ("raised", j["err"].split(":", 1)[1])
    if target["kind"] == "col" and target["agg"] != "value_counts":
        return mfrac(j)
    if target["kind"] == "frame":
        if target["agg"] == "size":
            return sum((mfrac(j[c]) for c in cols_out), Fraction(0))
        return {c: mfrac(j[c]) for c in cols_out}
    return model_map(j)


def same_result(target, a, b):
    kind = kind_of(target["agg"])
    if isinstance(a, tuple) or isinstance(b, tuple):
        return a == b
    if isinstance(a, dict) != isinstance(b, dict):
        return False
    if isinstance(a, dict):
        return same_map(kind, a, b)
    return same_num(kind, a, b)


def oracle_same(target, impl, want):
    """impl, want: canonical values from the real stream and from pandas-on-the-prefix."""
    agg = target["agg"]
    if isinstance(impl, tuple):
        return False

    def num(a, b):
        if agg in EXACT and not (target.get("approx") and agg == "sum"):
            return a == b            # (None == None: NaN equals NaN; 'inf' / '-inf' compare by sign)
        if agg == "std" and isinstance(a, Fraction) and isinstance(b, Fraction):
            a, b = a * a, b * b
        return close(a, b, 1e-9)
    if isinstance(want, dict) != isinstance(impl, dict):
        return False
    if isinstance(want, dict):
        return set(want) == set(impl) and all(num(impl[k], want[k]) for k in want)
    return num(impl, want)


def frame_rows(cols, df):
    def cell(v):
        try:
            return frac(v)
        except Exception:      # noqa: BLE001 - a cell that is not a number (e.g. a whole Series): compared by its text
            return "unreadable:" + str(type(v).__name__)
    return [[cell(v) for v in row] for row in df[cols].itertuples(index=False, name=None)] if len(cols) else []


def opposite_infinities(prefix, target):
    """does the data reaching the aggregation (any column of it, for frame aggregations) hold both +inf and -inf?"""
    import numpy as np
    if target["kind"] == "col":
        ops = [build_c(prefix, target["expr"])]
    elif target["kind"] == "frame":
        ops = [prefix[c] for c in prefix.columns]
    else:
        ops = [prefix[L(target["val"])]]
    return any(bool(np.isposinf(o.to_numpy(dtype="float64")).any()) and bool(np.isneginf(o.to_numpy(dtype="float64")).any())
               for o in ops)


def count_label_roles(ctx, case):
    """which role does a falsy label play in this case"""
    lab = case.get("labels") or {}
    falsy = {n for n, v in lab.items() if not v}
    t = dict(case["target"])
    if t["kind"] == "group" and "by" not in t:           # statement program: the grouper is in the groupby statement
        gs = [st for st in case["stmts"] if st[0] == "groupby" and st[1] == t["on"]][0]
        t["by"], t["key"] = gs[3], gs[4]
    if t["kind"] == "group":
        if t.get("val") in falsy:
            ctx.count("labels:falsy-value-column")
        if t.get("by") == "name" and t["key"][1] in falsy:
            ctx.count("labels:falsy-groupby-key")
        elif t.get("by") == "series" and cols_in(t["key"]) & falsy:
            ctx.count("labels:falsy-in-series-grouper")
    if t["kind"] == "col" and "expr" in t and cols_in(t["expr"]) & falsy:
        ctx.count("labels:falsy-selected-column")
    for st in case.get("pipe", []) + case.get("stmts", []):
        if st[0] in ("assign", "setitem") and (st[1] if st[0] == "assign" else st[2]) in falsy:
            ctx.count("labels:falsy-assigned-column")
        if st[0] == "select" and set(st[-1]) & falsy:
            ctx.count("labels:falsy-in-selection")


def classify(target, case, k, impl, want, history):
    """stable signature naming the failing mechanism"""
    agg = target["agg"]
    base = "%s:%s" % (target["kind"], agg)
    if isinstance(impl, tuple):
        return base + ":" + impl[0] + ":" + str(impl[1])
    if isinstance(want, dict) and isinstance(impl, dict) and set(want) != set(impl):
        return base + ":index-differs"
    if want in ("inf", "-inf") and impl is None:
        return base + ":nan-where-pandas-says-" + ("pos-inf" if want == "inf" else "neg-inf")
    if agg == "mean" and target["kind"] == "col":
        if want is None and impl == 0:
            return "col:mean:countless-prefix-emits-0-not-nan"
        if any(h is None for h in history):
            return "col:mean:count-substitute-persisted"
    return base + ":value-differs"


def check_api(ctx, case, answers):
    with use_labels(case):
        return _check_api(ctx, case, answers)


def _check_api(ctx, case, answers):
    t = case["target"]
    cols = case["cols"]
    if case.get("labels"):
        ctx.count("labels:api:" + case.get("label_scheme", "?"))
        count_label_roles(ctx, case)
    nf = case["kind"] == "nonfinite"          # oracle-only stream (values may be +-inf): never compared with the model
    pre = "nonfinite:" if nf else ""
    ctx.count("%s:%s:%s" % ("nonfinite" if nf else "api", t["kind"], t["agg"]))
    if nf:
        ctx.count("nonfinite:source:" + case.get("source", "?"))
        ctx.count("nonfinite:placement:" + case.get("placement", "?"))
    if t["kind"] == "group":
        ctx.count(pre + "grouper:" + t["by"])
    if t.get("route") == "expanding":
        ctx.count(pre + "route:expanding")
    with warnings.catch_warnings():
        warnings.simplefilter("ignore")
        impl = run_api_impl(case)
        if impl["construct_error"]:
            if len(build_pipe(example_for(cols), case["pipe"])) == 0:
                # no row of the universe survives the filters: nothing can ever reach the aggregation
                ctx.count("construct-refused:example-emptied-by-filter")
            else:
                ctx.count("construct-error")
                ctx.failure(pre + "api:construct:" + impl["construct_error"].split(":")[0],
                            "building the streaming graph raised " + impl["construct_error"], case)
            ctx.case(case, nontrivial=False)
            return
        cols_out = cols_after(cols, case["pipe"])
        # ---------------- oracle (pandas on the concatenated prefix / on the single batch)
        src, start = [], 0
        for b in case["batches"]:
            df = mk_frame(cols, b, start)
            start += len(df)
            src.append(df)
        n_claims = 0
        history = []        # pandas count-ish info for classification: None where the prefix had no non-NaN target value
        failed = False
        for k in range(len(src)):
            # per-batch map semantics
            want_fr = build_pipe(src[k], case["pipe"])
            got_fr = impl["frames"][k]
            if got_fr is None or list(got_fr.columns) != list(want_fr.columns) or \
                    frame_rows(list(want_fr.columns), got_fr) != frame_rows(list(want_fr.columns), want_fr) or \
                    list(got_fr.index) != list(want_fr.index):
                failed = True
                ctx.failure(pre + "map:frame-differs", "batch %d: pipeline emitted %s, pandas on that batch gives %s"
                            % (k, None if got_fr is None else got_fr.to_dict("list"), want_fr.to_dict("list")), case,
                            oracle="per-batch: streaming pipeline output == pandas pipeline on the batch")
                break
            got_op = impl["operands"][k]
            if got_op is not None:
                want_op = build_c(want_fr, t["expr"] if t["kind"] == "col" else t["key"])
                try:
                    got_vals = None if isinstance(got_op, str) else [frac(v) for v in got_op]
                except Exception:      # noqa: BLE001 - cells that are not numbers (a Series of Series ...): differs, whatever it is
                    got_vals = None
                if got_vals is None or got_vals != [frac(v) for v in want_op] or \
                        list(got_op.index) != list(want_op.index):
                    failed = True
                    ctx.failure(pre + "map:column-differs", "batch %d: streaming expression emitted %s, pandas on that batch gives %s"
                                % (k, got_op if isinstance(got_op, str) else [str(v)[:40] for v in got_op], list(want_op)), case,
                                oracle="per-batch: streaming column expression == pandas expression on the batch")
                    break
            prefix = build_pipe(concat(src[:k + 1]), case["pipe"])
            got = canon_result(t, impl["results"][k])
            if len(prefix) == 0:
                # the property statement claims equality "whenever that concatenation has at least one row": observed and compared with
                # the model (correspondence), but no oracle claim here - C07 / C11, whose statements include empty first batches, judge it
                ctx.count("oracle:no-row-prefix")
                if isinstance(got, tuple):
                    ctx.count("oracle:no-row-prefix:" + got[0] + ":" + str(got[1]))
                history.append(None)
                continue
            if nf and opposite_infinities(prefix, t):
                # +inf and -inf meet in one reduction: pandas' own answer is the ill-defined inf - inf; no claim
                ctx.count("nonfinite:no-claim:opposite-infinities")
                history.append(None)
                continue
            want = canon_result(t, pandas_agg(prefix, t))
            n_claims += 1
            if not oracle_same(t, got, want):
                failed = True
                sig = pre + classify(t, case, k, got, want, history)
                ctx.failure(sig, "after batch %d the stream emitted %s, pandas on the concatenated prefix gives %s"
                            % (k, show(got), show(want)), case, expected=show(want), observed=show(got),
                            oracle="emission k == pandas aggregation of pd.concat(batches[:k+1]) run through the same expression tree")
                break
            if t["kind"] == "col":
                cnt = build_c(prefix, t["expr"]).count()
                history.append(None if cnt == 0 else cnt)
        nontrivial = n_claims >= 2 and any(len(b[cols[0]]) == 0 for b in case["batches"]) or \
            (n_claims >= 2 and len(case["pipe"]) > 0)
        ctx.case(case, nontrivial=bool(nontrivial))
        if any(len(b[cols[0]]) == 0 for b in case["batches"]):
            ctx.count("has-empty-batch")
        if case["batches"] and len(case["batches"][0][cols[0]]) == 0:
            ctx.count("empty-first-batch")
        if any(fr is not None and len(fr) == 0 and len(b[cols[0]]) > 0 for fr, b in zip(impl["frames"], case["batches"])):
            ctx.count("batch-emptied-by-filter")
        # ---------------- correspondence with the model
        if answers is None:
            return
        ok = True
        if "bad-op" in answers[0]:
            ctx.disagreement("driver refused the case header: %r" % (answers[0],), case)
            return
        for k, a in enumerate(answers[1:]):
            if "bad-op" in a:
                ctx.disagreement("driver refused batch %d: %r" % (k, a), case)
                return
            mfr = [[mfrac(v) for v in row] for row in a["frame"]["rows"]]
            got_fr = impl["frames"][k]
            if got_fr is None or a["frame"]["cols"] != [unL(c) for c in got_fr.columns] or mfr != frame_rows(list(got_fr.columns), got_fr):
                ctx.disagreement("batch %d: pipeline frame differs: impl %s, model %s"
                                 % (k, None if got_fr is None else got_fr.to_dict("list"), a["frame"]), case)
                ok = False
                break
            got_op = impl["operands"][k]
            if got_op is not None and (isinstance(got_op, str) or [frac(v) for v in got_op] != [mfrac(v) for v in a.get("operand", [])]):
                ctx.disagreement("batch %d: operand differs: impl %s, model %s"
                                 % (k, got_op if isinstance(got_op, str) else list(got_op), a.get("operand")), case)
                ok = False
                break
            got = canon_result(t, impl["results"][k])
            mod = canon_model_result(t, cols_out, a["result"])
            if not same_result(t, got, mod):
                ctx.disagreement("batch %d: %s/%s emitted %s, model %s" % (k, t["kind"], t["agg"], show(got), show(mod)), case)
                ok = False
                break
        if ok and not failed:
            ctx.coverage["traces_validated_against_impl"] += 1


def api_lines(case):
    t = dict(case["target"])
    mt = {"kind": t["kind"], "agg": "var" if t["agg"] == "std" else t["agg"], "ddof": t.get("ddof", 1)}
    if t["kind"] == "col":
        mt["expr"] = t["expr"]
    if t["kind"] == "group":
        mt["key"], mt["val"] = t["key"], t["val"]
    lines = [{"op": "reset", "mode": "api", "cols": case["cols"], "pipe": case["pipe"], "target": mt}]
    for b in case["batches"]:
        lines.append({"op": "batch", "cols": b})
    return lines


# ------------------------------------------------------------------ direct level

DIRECT_AGGS = ["sum", "count", "size", "mean", "var", "value_counts", "gsum", "gcount", "gsize", "gmean", "gvar"]


def make_agg(name, ddof, sg):
    from streamz.dataframe import aggregations as A
    if name == "sum":
        return A.Sum()
    if name == "count":
        return A.Count()
    if name == "size":
        return A.Size()
    if name == "mean":
        return A.Mean()
    if name == "var":
        return A.Var(ddof=ddof)
    if name == "value_counts":
        return A.ValueCounts()
    cls = {"gsum": A.GroupbySum, "gcount": A.GroupbyCount, "gsize": A.GroupbySize, "gmean": A.GroupbyMean,
           "gvar": A.GroupbyVar}[name]
    kw = {"ddof": ddof} if name == "gvar" else {}
    return cls(L("x"), grouper=None if sg else L("g"), **kw)


def direct_state(name, acc):
    """canonical form of the real state, same shape as the driver's `state`"""
    try:
        return _direct_state(name, acc)
    except Exception:
        return ("unexpected", type(acc).__name__)


def _direct_state(name, acc):
    if acc is None:
        return None
    if name == "sum":
        return frac(acc)
    if name in ("count", "size"):
        return frac(acc)
    if name == "mean":
        return {"totals": frac(acc[0]), "counts": frac(acc[1])}
    if name == "var":
        return {"x": frac(acc[0]), "x2": frac(acc[1]), "n": frac(acc[2]), "pyint": type(acc[2]) is int}
    if name in ("value_counts", "gsum", "gcount", "gsize"):
        return ser_items(acc)
    if name == "gmean":
        return {"totals": ser_items(acc[0]), "counts": ser_items(acc[1])}
    if name == "gvar":
        return {"x": ser_items(acc[0]), "x2": ser_items(acc[1]), "n": ser_items(acc[2])}
    raise ValueError(name)


def model_state(name, j):
    if j is None:
        return None
    if name in ("sum", "count", "size"):
        return mfrac(j)
    if name == "mean":
        return {"totals": mfrac(j["totals"]), "counts": mfrac(j["counts"])}
    if name == "var":
        return {"x": mfrac(j["x"]), "x2": mfrac(j["x2"]), "n": mfrac(j["n"]), "pyint": j["pyint"]}
    if name in ("value_counts", "gsum", "gcount", "gsize"):
        return model_map(j)
    return {k: model_map(v) for k, v in j.items()}


DIRECT_KIND = {"sum": "exact", "count": "exact", "size": "exact", "mean": "quot", "var": "var",
               "value_counts": "exact", "gsum": "exact", "gcount": "exact", "gsize": "exact",
               "gmean": "quot", "gvar": "var"}


def direct_pandas(name, ddof, frames, x=None):
    """pandas on the rows currently held (concatenation of `frames`)"""
    df = concat(frames) if len(frames) != 1 else frames[0]
    if not name.startswith("g"):
        x = df[L("x")] if x is None else x
    if name in ("sum", "count", "mean"):
        return frac(getattr(x, name)())
    if name == "size":
        return frac(x.size)
    if name == "var":
        return frac(x.var(ddof=ddof))
    if name == "value_counts":
        return ser_items(x.value_counts())
    g = df.groupby(L("g"))[L("x")]
    if name == "gvar":
        return ser_items(g.var(ddof=ddof))
    return ser_items(getattr(g, name[1:])())


def direct_step_impl(name, agg, acc, df, sg, old=False, x=None):
    """one `accumulator`-style call on the real object; returns (acc', result | ('raised', cls))"""
    grouped = name.startswith("g")
    try:
        if grouped:
            grouper = df[L("g")] if sg else None
            if old:
                return agg.on_old(acc, df, grouper=grouper)
            if acc is None:
                acc = agg.initial(df, grouper=grouper)
            return agg.on_new(acc, df, grouper=grouper)
        s = df[L("x")] if x is None else x
        if old:
            return agg.on_old(acc, s)
        if acc is None:
            acc = agg.initial(s)
        return agg.on_new(acc, s)
    except ZeroDivisionError:      # (what the unrepaired Var did on Python ints 0 / 0; an observation like any other)
        return None, ("raised", "ZeroDivisionError")


def canon_direct_result(name, r):
    try:
        return _canon_direct_result(name, r)
    except Exception:
        return ("unexpected", type(r).__name__)


def _canon_direct_result(name, r):
    if isinstance(r, tuple):
        return r
    if name in ("value_counts",) or name.startswith("g"):
        return ser_items(r)
    return frac(r)


def canon_direct_model_result(name, j):
    if isinstance(j, dict) and "err" in j:
        return ("raised", j["err"].split(":", 1)[1])
    if name in ("value_counts",) or name.startswith("g"):
        return model_map(j)
    return mfrac(j)


def direct_same(name, a, b):
    kind = DIRECT_KIND[name]
    if isinstance(a, tuple) or isinstance(b, tuple):
        return a == b
    if isinstance(a, dict):
        return isinstance(b, dict) and same_map(kind, a, b)
    return same_num(kind, a, b)


def check_direct(ctx, case, answers):
    with use_labels(case):
        return _check_direct(ctx, case, answers)


def _check_direct(ctx, case, answers):
    name, ddof, sg = case["agg"], case.get("ddof", 1), case.get("sg", False)
    ctx.count("direct:" + name)
    if case.get("labels"):
        ctx.count("labels:direct:" + case.get("label_scheme", "?"))
        if name.startswith("g") and not L("x"):
            ctx.count("labels:falsy-value-column")
        if name.startswith("g") and not L("g"):
            ctx.count("labels:falsy-groupby-key")
    agg = make_agg(name, ddof, sg)
    acc = None
    held = []            # frames currently "in the window"
    frames = []
    start = 0
    for b in case["batches"]:
        df = mk_frame(["x", "g"], b, start)
        start += len(df)
        frames.append(df)
    ok = True
    failed = False
    n_claims = 0
    countless_before = False     # an earlier state had counted no value (where the unfixed Mean stores its substitute)
    with warnings.catch_warnings():
        warnings.simplefilter("ignore")
        for i, op in enumerate(case["ops"]):
            df = frames[op[1]]
            if op[0] == "new":
                acc2, res = direct_step_impl(name, agg, acc, df, sg)
                held.append(op[1])
            else:
                held.remove(op[1])
                if acc is None:
                    continue
                acc2, res = direct_step_impl(name, agg, acc, df, sg, old=True)
            raised = isinstance(res, tuple)
            if not raised:
                acc = acc2
            got = canon_direct_result(name, res)
            # oracle: pandas on the rows currently held (only on_new histories are C06 proper; histories
            # with on_old check the windowed use of the same objects)
            rows = sum(len(frames[j]) for j in held)
            if name == "mean" and sum(int(frames[j][L("x")].count()) for j in held) == 0:
                countless_now = True
            else:
                countless_now = False
            if rows > 0 and not failed:
                # (no oracle claim on a prefix without rows: the property statement exempts it; the model comparison below covers it)
                want = direct_pandas(name, ddof, [frames[j] for j in held])
                # after on_old a group key may remain with size 0: compare on pandas' keys only
                if isinstance(got, dict) and any(o[0] == "old" for o in case["ops"][:i + 1]):
                    got_cmp = {k: v for k, v in got.items() if k in want}
                    extra_ok = all(k in got for k in want)
                else:
                    got_cmp, extra_ok = got, True
                t = {"agg": {"gsum": "sum", "gcount": "count", "gsize": "size", "gmean": "mean", "gvar": "var"}.get(name, name)}
                n_claims += 1
                if not extra_ok or not oracle_same(t, got_cmp, want):
                    failed = True
                    has_old = any(o[0] == "old" for o in case["ops"][:i + 1])
                    sig = "direct:%s:%s" % (name, got[0] + ":" + str(got[1]) if isinstance(got, tuple) else
                                            ("after-on_old-differs" if has_old else "value-differs"))
                    if name == "mean" and not isinstance(got, tuple):
                        if want is None and got == 0:
                            sig = "direct:mean:countless-emits-0-not-nan"
                        elif countless_before:
                            sig = "direct:mean:count-substitute-persisted"
                    ctx.failure(sig, "op %d (%s): %s object gave %s, pandas on the rows held gives %s"
                                % (i, op[0], name, show(got), show(want)), case, expected=show(want), observed=show(got),
                                oracle="result == pandas aggregation of the concatenation of the batches added and not removed")
            countless_before = countless_before or countless_now
            if answers is not None and ok:
                a = answers[1 + i] if 1 + i < len(answers) else {"bad-op": "missing"}
                if "bad-op" in a:
                    ctx.disagreement("driver refused op %d: %r" % (i, a), case)
                    ok = False
                    continue
                mres = canon_direct_model_result(name, a["result"])
                mst = model_state(name, a["state"])
                ist = direct_state(name, acc)
                if not direct_same(name, got, mres):
                    ctx.disagreement("op %d (%s) %s: result %s, model %s" % (i, op[0], name, show(got), show(mres)), case)
                    ok = False
                elif ist != mst:
                    ctx.disagreement("op %d (%s) %s: state %s, model %s" % (i, op[0], name, show(ist), show(mst)), case)
                    ok = False
    ctx.case(case, nontrivial=n_claims >= 2)
    if answers is not None and ok and not failed:
        ctx.coverage["traces_validated_against_impl"] += 1


def direct_lines(case):
    name = case["agg"]
    lines = [{"op": "reset", "mode": "direct", "agg": name, "ddof": case.get("ddof", 1)}]
    for op in case["ops"]:
        b = case["batches"][op[1]]
        l = {"op": "batch" if op[0] == "new" else "old", "x": b["x"]}
        if name.startswith("g"):
            l["g"] = b["g"]
        lines.append(l)
    return lines


# ------------------------------------------------------------------ generators

def gen_val(rng, p_nan=0.2):
    return None if rng.random() < p_nan else rng.choice(VALS)


def gen_table(rng, n, cols):
    """rows with NaN runs and key phases (a key dominates for a while, vanishes, may come back)"""
    rows = []
    phase_key = rng.choice(KEYS)
    nan_run = 0
    for _ in range(n):
        if rng.random() < 0.25:
            phase_key = rng.choice(KEYS)
        if nan_run == 0 and rng.random() < 0.12:
            nan_run = rng.randint(1, 3)
        row = {}
        for c in cols:
            if c == "g":
                r = rng.random()
                row[c] = None if r < 0.1 else (phase_key if r < 0.75 else rng.choice(KEYS))
            elif c == "x" and nan_run > 0:
                row[c] = None
            else:
                row[c] = gen_val(rng)
        if nan_run > 0:
            nan_run -= 1
        rows.append(row)
    return rows


def split_rows(rng, rows, cols, force_empty_first=None):
    """random composition into consecutive batches with forced empty batches"""
    n = len(rows)
    k = rng.randint(0, min(5, max(0, n - 1)))
    cuts = sorted(rng.sample(range(1, n), k)) if n > 1 else []
    parts = [rows[i:j] for i, j in zip([0] + cuts, cuts + [n])] if n else []
    out = []
    if force_empty_first if force_empty_first is not None else rng.random() < 0.35:
        out.append([])
        if rng.random() < 0.3:
            out.append([])
    for p in parts:
        out.append(p)
        if rng.random() < 0.2:
            out.append([])
    return [{c: [r[c] for r in p] for c in cols} for p in out]


def gen_cexpr(rng, cols, depth):
    if depth <= 0 or rng.random() < 0.35:
        return ["col", rng.choice(cols)]
    r = rng.random()
    if r < 0.4:
        return ["bin", rng.choice(list(BIN)), gen_cexpr(rng, cols, depth - 1), gen_cexpr(rng, cols, depth - 1)]
    if r < 0.65:
        return ["binr", rng.choice(list(BIN)), gen_cexpr(rng, cols, depth - 1), rng.choice([-1, 1, 2, 3])]
    if r < 0.85:
        return ["binl", rng.choice(list(BIN)), rng.choice([-1, 1, 2, 3]), gen_cexpr(rng, cols, depth - 1)]
    return ["neg", gen_cexpr(rng, cols, depth - 1)]


def gen_mexpr(rng, cols, depth):
    r = rng.random()
    if depth <= 0 or r < 0.5:
        if rng.random() < 0.7:
            return ["cmpr", rng.choice(list(CMP)), gen_cexpr(rng, cols, 1), rng.choice([-1, 0, 1, 2])]
        return ["cmp", rng.choice(list(CMP)), gen_cexpr(rng, cols, 1), gen_cexpr(rng, cols, 1)]
    if r < 0.7:
        return ["and", gen_mexpr(rng, cols, depth - 1), gen_mexpr(rng, cols, depth - 1)]
    if r < 0.85:
        return ["or", gen_mexpr(rng, cols, depth - 1), gen_mexpr(rng, cols, depth - 1)]
    return ["not", gen_mexpr(rng, cols, depth - 1)]


def gen_labels(rng, names, strings_only=False):
    """None (the plain string labels) or a relabelling {internal name: real label} with falsy / non-string labels:
    positional ints, floats, booleans, or '' for one column.  Non-string labels cannot be ASSIGNED in streamz
    (`assign(**{label: ...})` needs string keywords; `sdf[0] = expr` raises TypeError on the unchanged tree), so
    callers generate no assignment unless the scheme is 'empty'."""
    r = rng.random()
    if r < 0.62:
        return None, "plain"
    if strings_only or r > 0.9:
        return {rng.choice(names): ""}, "empty"
    base = [n for n in names if n in ("x", "y", "g")]
    if r < 0.78:
        vals, scheme = [0, 1, 2], "int"
    elif r < 0.84:
        vals, scheme = [0.0, 1.0, 2.0], "float"
    else:
        vals, scheme = [False, True, "k"], "bool"
    vals = vals[:len(base)]
    rng.shuffle(vals)
    return dict(zip(base, vals)), scheme


def gen_pipe(rng, cols, allow_assign=True, allow_select=True):
    """list of stages; keeps track of the columns available"""
    pipe = []
    cols = list(cols)
    for _ in range(rng.choice([0, 0, 1, 1, 2, 3])):
        r = rng.random()
        if r < 0.5 or (r < 0.85 and not allow_assign) or (r >= 0.85 and not allow_select):
            pipe.append(["filter", gen_mexpr(rng, cols, 1)])
        elif r < 0.85:
            name = rng.choice(["z", "w", rng.choice(cols)])
            if name == "g":
                name = "z"
            pipe.append(["assign", name, gen_cexpr(rng, cols, 2)])
            if name not in cols:
                cols.append(name)
        else:
            keep = [c for c in cols if c == "g" or rng.random() < 0.7] or list(cols)
            if "g" not in keep:
                keep.append("g")
            rng.shuffle(keep)
            pipe.append(["select", list(keep)])
            cols = list(keep)
    return pipe, cols


MAXABS = 150       # keeps squares and their sums far below 2**53 and the two-moment rounding error below 1e-11


def bound_c(e, cb):
    """upper bound of |value| of a column expression given per-column bounds `cb`"""
    t = e[0]
    if t == "col":
        return cb[e[1]]
    if t == "neg":
        return bound_c(e[1], cb)
    if t == "bin":
        a, b = bound_c(e[2], cb), bound_c(e[3], cb)
    elif t == "binr":
        a, b = bound_c(e[2], cb), abs(e[3])
    else:
        a, b = abs(e[2]), bound_c(e[3], cb)
    return a * b if e[1] == "mul" else a + b


def exprs_of_m(m):
    if m[0] == "cmp":
        return [m[2], m[3]]
    if m[0] == "cmpr":
        return [m[2]]
    if m[0] == "not":
        return exprs_of_m(m[1])
    return exprs_of_m(m[1]) + exprs_of_m(m[2])


def case_bounded(case):
    cb = {c: 3 for c in case["cols"]}
    for st in case["pipe"]:
        if st[0] == "filter":
            if any(bound_c(e, cb) > MAXABS for e in exprs_of_m(st[1])):
                return False
        elif st[0] == "assign":
            b = bound_c(st[2], cb)
            if b > MAXABS:
                return False
            cb[st[1]] = b
    t = case["target"]
    if t["kind"] == "col":
        return bound_c(t["expr"], cb) <= MAXABS
    if t["kind"] == "group":
        return bound_c(t["key"], cb) <= MAXABS and cb[t["val"]] <= MAXABS
    return True


def gen_target(rng, cols, agg_choice=None):
    r = rng.random()
    valcols = [c for c in cols if c != "g"] or cols
    if r < 0.45:
        agg = agg_choice or rng.choice(SCALAR_AGGS)
        if agg not in SCALAR_AGGS:
            agg = rng.choice(SCALAR_AGGS)
        t = {"kind": "col", "agg": agg, "expr": gen_cexpr(rng, cols, rng.choice([0, 0, 1, 2]))}
        if agg in ("var", "std"):
            t["ddof"] = rng.choice([0, 1, 1])
            t["route"] = rng.choice(["aggregate", "expanding"])
        elif agg in ("sum", "count", "mean") and rng.random() < 0.15:
            t["route"] = "expanding"
        return t
    if r < 0.6:
        return {"kind": "frame", "agg": rng.choice(FRAME_AGGS)}
    agg = rng.choice(GROUP_AGGS)
    t = {"kind": "group", "agg": agg, "val": rng.choice(valcols)}
    if rng.random() < 0.5 and "g" in cols:
        t["by"] = "name"
        t["key"] = ["col", "g"]
        t["attr"] = rng.random() < 0.5
    else:
        t["by"] = "series"
        t["key"] = ["col", "g"] if ("g" in cols and rng.random() < 0.6) else gen_cexpr(rng, cols, 1)
    if agg in ("var", "std"):
        t["ddof"] = rng.choice([0, 1, 1])
    return t


def gen_api_case(rng, agg_choice=None):
    cols = list(COLS)
    n = rng.choice([0, 1, 2, 3, 5, 8, 12])
    rows = gen_table(rng, n, cols)
    if rng.random() < 0.15 and n:
        # an all-NaN leading stretch of x
        for r in rows[:rng.randint(1, min(3, n))]:
            r["x"] = None
    batches = split_rows(rng, rows, cols)
    labels, scheme = gen_labels(rng, cols + ["z", "w"])
    while True:
        pipe, cols_out = gen_pipe(rng, cols, allow_assign=scheme in ("plain", "empty"), allow_select=scheme != "bool")
        case = {"kind": "api", "cols": cols, "batches": batches, "pipe": pipe,
                "target": gen_target(rng, cols_out, agg_choice), "setitem": rng.random() < 0.3}
        if labels:
            case["labels"], case["label_scheme"] = labels, scheme
        if case_bounded(case):
            return case


def gen_direct_case(rng, name=None):
    name = name or rng.choice(DIRECT_AGGS)
    cols = ["x", "g"]
    n = rng.choice([0, 1, 2, 3, 5, 8])
    rows = gen_table(rng, n, cols)
    batches = split_rows(rng, rows, cols)
    ops = []
    pending = []
    with_old = rng.random() < 0.4
    for i in range(len(batches)):
        ops.append(["new", i])
        pending.append(i)
        while with_old and len(pending) > 1 and rng.random() < 0.4:
            ops.append(["old", pending.pop(0)])
    if with_old and pending and rng.random() < 0.3:
        # drain completely, then add again (the window became empty)
        while pending:
            ops.append(["old", pending.pop(0)])
        batches.append({c: [r[c] for r in gen_table(rng, 2, cols)] for c in cols})
        ops.append(["new", len(batches) - 1])
    case = {"kind": "direct", "agg": name, "ddof": rng.choice([0, 1, 1]), "sg": rng.random() < 0.5,
            "batches": batches, "ops": ops}
    labels, scheme = gen_labels(rng, cols)
    if labels:
        case["labels"], case["label_scheme"] = labels, scheme
    return case


def B(x, y=None, g=None):
    n = len(x)
    return {"x": x, "y": y if y is not None else [0] * n, "g": g if g is not None else [0] * n}


def corpus():
    X = ["col", "x"]
    cs = []
    # the recorded defect: empty first batch, then data
    for agg in ("mean", "sum", "count", "size", "var", "std", "value_counts"):
        cs.append({"kind": "api", "cols": COLS, "batches": [B([]), B([1, 2, 3])], "pipe": [],
                   "target": {"kind": "col", "agg": agg, "expr": X, "ddof": 1}})
    # frame aggregations while every cell seen so far is NaN (rows exist): one NaN per column, like pandas - not a scalar
    for agg in ("mean", "sum", "count"):
        cs.append({"kind": "api", "cols": COLS, "batches": [B([None], y=[None], g=[0]), B([None, None], y=[None, None], g=[1, 0]), B([2], y=[None], g=[0]), B([None], y=[3], g=[1])],
                   "pipe": [["select", ["x", "y"]]], "target": {"kind": "frame", "agg": agg}})
    # all-NaN first batch, then data; NaN-only prefix with rows
    cs.append({"kind": "api", "cols": COLS, "batches": [B([None]), B([1, 2, 3]), B([]), B([None, 2])], "pipe": [],
               "target": {"kind": "col", "agg": "mean", "expr": X}})
    # first batch emptied by a filter
    cs.append({"kind": "api", "cols": COLS, "batches": [B([-1, 0]), B([1, 3]), B([-1]), B([2])],
               "pipe": [["filter", ["cmpr", "gt", X, 0]]], "target": {"kind": "col", "agg": "mean", "expr": X}})
    cs.append({"kind": "api", "cols": COLS, "batches": [B([-1, 0]), B([1, 3]), B([-1]), B([2, 3])],
               "pipe": [["filter", ["cmpr", "gt", X, 0]]],
               "target": {"kind": "col", "agg": "var", "expr": X, "ddof": 1, "route": "expanding"}})
    # vanishing and re-appearing keys, NaN key, group with only NaN values; both groupers
    gb = [B([1, 2, None], g=[0, 1, 2]), B([], g=[]), B([3, 3], g=[1, None]), B([5], g=[0]), B([None], g=[2])]
    for agg in GROUP_AGGS:
        for by in ("name", "series"):
            cs.append({"kind": "api", "cols": COLS, "batches": gb, "pipe": [],
                       "target": {"kind": "group", "agg": agg, "val": "x", "by": by, "key": ["col", "g"], "ddof": 1}})
    cs.append({"kind": "api", "cols": COLS, "batches": gb, "pipe": [["assign", "z", ["bin", "mul", X, ["col", "g"]]]],
               "target": {"kind": "group", "agg": "mean", "val": "z", "by": "series", "key": ["binr", "mul", ["col", "g"], 2]}})
    for agg in FRAME_AGGS:
        cs.append({"kind": "api", "cols": COLS, "batches": [B([]), B([1, None], y=[None, None], g=[0, 1]), B([2])],
                   "pipe": [["select", ["y", "x"]]], "target": {"kind": "frame", "agg": agg}})
    # direct level: empty first batch; drain the window then refill (on_old part of the Mean defect)
    two = [{"x": [], "g": []}, {"x": [1, 2, 3], "g": [0, 0, 1]}]
    for name in DIRECT_AGGS:
        cs.append({"kind": "direct", "agg": name, "ddof": 1, "sg": False, "batches": two, "ops": [["new", 0], ["new", 1]]})
    cs.append({"kind": "direct", "agg": "mean", "ddof": 1, "sg": False,
               "batches": [{"x": [1, 2], "g": [0, 0]}, {"x": [4], "g": [0]}],
               "ops": [["new", 0], ["old", 0], ["new", 1]]})
    return cs


# ------------------------------------------------------------------ oracle-only stream: non-finite values

NF_AGGS = ["sum", "mean", "count", "size", "var"]


def gen_nonfinite_case(rng):
    """A table whose aggregated column holds +-inf: either written into the data or produced by an
    element-wise division by a column containing 0.  The non-finite row is placed in the first batch
    the aggregation receives, in a later batch, or right after an initial empty batch.  These cases
    are compared with real pandas only (the Lean model is over exact rationals)."""
    cols = list(COLS)
    n = rng.randint(1, 9)
    rows = []
    for _ in range(n):
        rows.append({"x": rng.choice([1, 2, 3, -1, -2, 4]), "y": rng.choice([-2, -1, 1, 2, 3, 0]),
                     "g": rng.choice(KEYS)})
        if rng.random() < 0.1:
            rows[-1]["y"] = None
    source = rng.choice(["data", "division", "division", "map"])
    placement = rng.choice(["first-batch", "later-batch", "after-empty-first-batch"])
    k = rng.randint(1, min(3, n))                      # how many special rows
    if placement == "later-batch" and n >= 2:
        idx = sorted(rng.sample(range(1, n), min(k, n - 1)))
        first_cut = rng.randint(1, idx[0])             # the first batch ends before the first special row
    else:
        idx = sorted(set([0] + rng.sample(range(n), k - 1)))
        first_cut = None
    for i in idx:
        if source == "data":
            rows[i]["x"] = rng.choice(["inf", "inf", "-inf"])
        elif source == "map":
            rows[i]["x"] = None                         # NaN met by an element-wise map (na_action decides)
        else:
            rows[i]["x"] = 0                            # y / 0 -> +-inf, 0 / 0 -> NaN
    # consecutive batches
    cuts = set(rng.sample(range(1, n), rng.randint(0, min(3, n - 1)))) if n > 1 else set()
    if first_cut is not None:
        cuts = {c for c in cuts if c >= first_cut} | {first_cut}
    cuts = sorted(cuts)
    parts = [rows[i:j] for i, j in zip([0] + cuts, cuts + [n])]
    out = []
    if placement == "after-empty-first-batch":
        out.append([])
    for p in parts:
        out.append(p)
        if rng.random() < 0.15:
            out.append([])
    batches = [{c: [r[c] for r in p] for c in cols} for p in out]
    X, Y = ["col", "x"], ["col", "y"]
    mapframe = None
    if source == "data":
        expr = rng.choice([X, ["bin", "add", X, Y], ["binr", "mul", X, 2], ["neg", X], ["bin", "sub", Y, X],
                           ["same", "mul", X], ["same", "add", ["bin", "sub", Y, X]]])
    elif source == "map":
        na = rng.choice(["ignore", "ignore", None])
        form = rng.choice(["kw", "pos"]) if na else rng.choice(["kw", "pos", "default"])
        expr = ["map", rng.choice(sorted(MAPFNS)), rng.choice([X, ["bin", "add", X, Y], ["neg", X]]), na, form]
        if rng.random() < 0.3:
            mapframe, expr = ["mapframe", expr[1], na, form], X
    else:
        expr = rng.choice([["bin", "div", Y, X], ["binl", "div", 1, X], ["binl", "div", -1, X],
                           ["bin", "add", ["bin", "div", Y, X], Y]])
    pipe = []
    r = rng.random()
    agg = rng.choice(NF_AGGS)
    if r < 0.55:
        t = {"kind": "col", "agg": agg, "expr": expr}
        if agg == "var":
            t["ddof"] = rng.choice([0, 1])
            t["route"] = rng.choice(["aggregate", "expanding"])
        elif agg in ("sum", "mean", "count") and rng.random() < 0.15:
            t["route"] = "expanding"
    else:
        pipe = [["assign", "r", expr]]
        if mapframe:
            pipe.insert(0, mapframe)
        if rng.random() < 0.3:
            pipe.append(["filter", ["cmpr", rng.choice(["gt", "ne", "le"]), Y, rng.choice([-1, 0, 1])]])
        if r < 0.75:
            t = {"kind": "frame", "agg": rng.choice(FRAME_AGGS)}
        else:
            t = {"kind": "group", "agg": agg, "val": "r", "ddof": rng.choice([0, 1])}
            if rng.random() < 0.5:
                t.update(by="name", key=["col", "g"], attr=rng.random() < 0.5)
            else:
                t.update(by="series", key=["col", "g"])
    t["approx"] = True           # quotients are not exact: sums are compared with relative 1e-9
    return {"kind": "nonfinite", "source": source, "placement": placement, "cols": cols, "batches": batches,
            "pipe": pipe, "target": t, "setitem": rng.random() < 0.3}


def nonfinite_corpus():
    X, Y = ["col", "x"], ["col", "y"]
    ratio = ["bin", "div", Y, X]
    cs = []
    first = [B([2, 0, 4], y=[1, 3, 2], g=[0, 1, 0]), B([5, 8], y=[10, 4], g=[1, 0]), B([1, 2], y=[7, 9], g=[1, 0])]
    later = [B([2, 4], y=[1, 2], g=[0, 0]), B([0, 5], y=[3, 10], g=[1, 1]), B([8], y=[4], g=[0])]
    empty_first = [B([])] + first
    both_signs = [B([0], y=[1]), B([0, 2], y=[-1, 2]), B([3], y=[3])]
    zero_over_zero = [B([0, 1], y=[0, 1]), B([0], y=[2])]
    direct = [B(["inf", 1]), B([2]), B(["-inf"]), B([3])]
    for name, batches in (("first-batch", first), ("later-batch", later), ("after-empty-first-batch", empty_first),
                          ("first-batch", both_signs), ("first-batch", zero_over_zero)):
        for agg in NF_AGGS:
            cs.append({"kind": "nonfinite", "source": "division", "placement": name, "cols": COLS, "batches": batches,
                       "pipe": [], "target": {"kind": "col", "agg": agg, "expr": ratio, "ddof": 1, "approx": True}})
        for agg in FRAME_AGGS:
            cs.append({"kind": "nonfinite", "source": "division", "placement": name, "cols": COLS, "batches": batches,
                       "pipe": [["assign", "r", ratio]], "target": {"kind": "frame", "agg": agg, "approx": True}})
        cs.append({"kind": "nonfinite", "source": "division", "placement": name, "cols": COLS, "batches": batches,
                   "pipe": [["assign", "r", ratio]],
                   "target": {"kind": "group", "agg": "sum", "val": "r", "by": "name", "key": ["col", "g"], "approx": True}})
    # one streaming object in two argument positions of one operation
    for agg in ("sum", "mean"):
        cs.append({"kind": "nonfinite", "source": "data", "placement": "first-batch", "cols": COLS, "batches": first, "pipe": [],
                   "target": {"kind": "col", "agg": agg, "expr": ["same", "mul", X], "ddof": 1, "approx": True}})
    cs.append({"kind": "nonfinite", "source": "data", "placement": "first-batch", "cols": COLS, "batches": first,
               "pipe": [["assign", "r", ["same", "add", ["bin", "add", X, Y]]]], "target": {"kind": "frame", "agg": "sum", "approx": True}})
    # element-wise map with na_action over NaN (Series.map and DataFrame.map, keyword and positional)
    nanny = [B([1, None, 2], y=[1, 2, None], g=[0, 1, 0]), B([None], y=[3], g=[1]), B([3, 1], y=[None, 1], g=[0, 1])]
    for form in ("kw", "pos"):
        for fn in sorted(MAPFNS):
            cs.append({"kind": "nonfinite", "source": "map", "placement": "first-batch", "cols": COLS, "batches": nanny, "pipe": [],
                       "target": {"kind": "col", "agg": "sum" if fn != "nanflag" else "count", "expr": ["map", fn, X, "ignore", form], "ddof": 1, "approx": True}})
        cs.append({"kind": "nonfinite", "source": "map", "placement": "first-batch", "cols": COLS, "batches": nanny,
                   "pipe": [["mapframe", "bucket", "ignore", form]], "target": {"kind": "frame", "agg": "sum", "approx": True}})
        cs.append({"kind": "nonfinite", "source": "map", "placement": "first-batch", "cols": COLS, "batches": nanny,
                   "pipe": [["assign", "r", ["map", "clip", Y, "ignore", form]]],
                   "target": {"kind": "group", "agg": "count", "val": "r", "by": "name", "key": ["col", "g"], "approx": True}})
    for agg in NF_AGGS:
        cs.append({"kind": "nonfinite", "source": "data", "placement": "first-batch", "cols": COLS, "batches": direct,
                   "pipe": [], "target": {"kind": "col", "agg": agg, "expr": X, "ddof": 1, "approx": True}})
    return cs


# ------------------------------------------------------------------ statement programs with IN-PLACE assignment

# A program is a list of statements over named objects; "sdf" is the streaming frame fed by the source.
#   ["groupby", var, frame, by, key]   var = frame.groupby('name' | <Series expression over frame>)
#   ["setitem", frame, col, E]         frame[col] = E(frame)           (in place; new or existing column)
#   ["col", var, frame, E]             var = E(frame)                   (a streaming Series)
#   ["select", var, frame, [cols]]     var = frame[[cols]]
#   ["filter", var, frame, M]          var = frame[M(frame)]
# The target aggregates one object AFTER all statements:
#   {"kind":"group","on":gvar,"val":c,...} / {"kind":"col","on":colvar,...} / {"kind":"frame","on":framevar,...}
# The same interpreter runs the statements on the real streaming objects and, for the oracle, on plain pandas
# objects (the concatenated prefix / the single batch), in the same order.

def exec_prog(env, stmts):
    for st in stmts:
        op = st[0]
        if op == "groupby":
            f = env[st[2]]
            env[st[1]] = f.groupby(L(st[4][1]) if st[3] == "name" else build_c(f, st[4]))
        elif op == "setitem":
            f = env[st[1]]
            f[L(st[2])] = build_c(f, st[3])
        elif op == "col":
            env[st[1]] = build_c(env[st[2]], st[3])
        elif op == "select":
            env[st[1]] = env[st[2]][[L(c) for c in st[3]]]
        elif op == "filter":
            f = env[st[2]]
            env[st[1]] = f[build_m(f, st[3])]
        else:
            raise ValueError(st)
    return env


def prog_agg(env, t, streaming):
    from streamz.dataframe import aggregations as A
    agg, ddof = t["agg"], t.get("ddof", 1)
    obj = env[t["on"]]
    if t["kind"] == "group":
        val = L(t["val"])                                # value column chosen at aggregation time
        g = getattr(obj, val) if (t.get("attr") and isinstance(val, str) and val.isidentifier()) else obj[val]
        return getattr(g, agg)(ddof=ddof) if agg in ("var", "std") else getattr(g, agg)()
    if t["kind"] == "frame":
        return obj.size if agg == "size" else getattr(obj, agg)()
    if agg in ("var", "std"):
        if not streaming:
            return getattr(obj, agg)(ddof=ddof)
        v = obj.aggregate(A.Var(ddof=ddof))
        return v ** 0.5 if agg == "std" else v
    if agg == "size":
        return obj.size
    return getattr(obj, agg)()


def prog_rows(env, case):
    """number of rows that reach the aggregation (pandas objects)"""
    t = case["target"]
    if t["kind"] == "group":
        fr = [st[2] for st in case["stmts"] if st[0] == "groupby" and st[1] == t["on"]][0]
        return len(env[fr])
    return len(env[t["on"]])


def run_prog_impl(case):
    from streamz import Stream
    from streamz.dataframe import DataFrame
    cols = case["cols"]
    try:
        source = Stream()
        env = exec_prog({"sdf": DataFrame(source, example=example_for(cols))}, case["stmts"])
        out = prog_agg(env, case["target"], True).stream.sink_to_list()
    except Exception as e:
        return {"construct_error": type(e).__name__ + ": " + str(e)[:200]}
    res, start = [], 0
    for b in case["batches"]:
        df = mk_frame(cols, b, start)
        start += len(df)
        n_out = len(out)
        try:
            source.emit(df)
        except Exception as e:
            res.append(("raised", type(e).__name__))
        else:
            res.append(out[-1] if len(out) == n_out + 1 else ("emitted", len(out) - n_out))
    return {"construct_error": None, "results": res}


def compile_prog(case):
    """The functional reading of the program under the stated convention, as an ordinary api case
    (pipeline + target) for the model; None where the functional form is not expressible."""
    pipes = {"sdf": []}
    colvars, groups = {}, {}
    for st in case["stmts"]:
        op = st[0]
        if op == "setitem":
            pipes[st[1]] = pipes[st[1]] + [["assign", st[2], st[3]]]
        elif op == "select":
            pipes[st[1]] = pipes[st[2]] + [["select", list(st[3])]]
        elif op == "filter":
            pipes[st[1]] = pipes[st[2]] + [["filter", st[3]]]
        elif op == "col":
            colvars[st[1]] = (list(pipes[st[2]]), st[3])                  # value semantics: snapshot
        elif op == "groupby":
            groups[st[1]] = (st[2], st[3], st[4], len(pipes[st[2]]))      # reference to the frame object
    t = case["target"]
    out = {"kind": "api", "cols": case["cols"], "batches": case["batches"]}
    if t["kind"] == "col":
        out["pipe"], expr = colvars[t["on"]]
        out["target"] = {"kind": "col", "agg": t["agg"], "ddof": t.get("ddof", 1), "expr": expr}
    elif t["kind"] == "frame":
        out["pipe"] = pipes[t["on"]]
        out["target"] = {"kind": "frame", "agg": t["agg"]}
    else:
        fr, by, key, n0 = groups[t["on"]]
        later = {st[1] for st in pipes[fr][n0:] if st[0] == "assign"}
        if by == "series" and later & cols_in(key):
            return None           # the grouper Series was computed from columns overwritten afterwards
        out["pipe"] = pipes[fr]
        out["target"] = {"kind": "group", "agg": t["agg"], "ddof": t.get("ddof", 1), "key": key, "val": t["val"], "by": by}
    return out


def cols_in(e):
    if e[0] == "col":
        return {e[1]}
    return set().union(*[cols_in(x) for x in e[1:] if isinstance(x, list)])


def prog_lines(case):
    c = compile_prog(case)
    return api_lines(c) if c is not None else []


def check_prog(ctx, case, answers):
    with use_labels(case):
        return _check_prog(ctx, case, answers)


def _check_prog(ctx, case, answers):
    t = case["target"]
    cols = case["cols"]
    ctx.count("prog:%s:%s" % (t["kind"], t["agg"]))
    ctx.count("prog:pattern:" + case.get("pattern", "?"))
    if case.get("labels"):
        ctx.count("labels:prog:" + case.get("label_scheme", "?"))
        count_label_roles(ctx, case)
    with warnings.catch_warnings():
        warnings.simplefilter("ignore")
        impl = run_prog_impl(case)
        if impl["construct_error"]:
            try:
                reach = prog_rows(exec_prog({"sdf": example_for(cols).copy()}, case["stmts"]), case)
            except Exception:
                reach = -1
            if reach == 0:
                # no row of the universe survives the filters: nothing can ever reach the aggregation
                ctx.count("prog:construct-refused:example-emptied-by-filter")
            else:
                ctx.count("prog:construct-error")
                ctx.failure("prog:construct:" + impl["construct_error"].split(":")[0],
                            "building the streaming graph raised " + impl["construct_error"], case,
                            oracle="the same statements are accepted by pandas")
            ctx.case(case, nontrivial=False)
            return
        src, start = [], 0
        for b in case["batches"]:
            df = mk_frame(cols, b, start)
            start += len(df)
            src.append(df)
        failed = False
        n_claims = 0
        for k in range(len(src)):
            env = exec_prog({"sdf": concat(src[:k + 1]).copy()}, case["stmts"])
            got = canon_result(t, impl["results"][k])
            if prog_rows(env, case) == 0:
                ctx.count("prog:oracle:no-row-prefix")
                continue
            want = canon_result(t, prog_agg(env, t, False))
            n_claims += 1
            if not oracle_same(t, got, want):
                failed = True
                base = "prog:%s:%s:%s" % (case.get("pattern", "?"), t["kind"], t["agg"])
                sig = base + (":" + got[0] + ":" + str(got[1]) if isinstance(got, tuple) else ":value-differs")
                ctx.failure(sig, "after batch %d the stream emitted %s, pandas running the same statements in the same order on "
                            "the concatenated prefix gives %s" % (k, show(got), show(want)), case,
                            expected=show(want), observed=show(got),
                            oracle="emission k == pandas executing the same statement list on pd.concat(batches[:k+1])")
                break
        ctx.case(case, nontrivial=n_claims >= 2)
        if not answers:
            ctx.count("prog:not-sent-to-model")
            return
        comp = compile_prog(case)
        cols_out = cols_after(cols, comp["pipe"])
        ok = True
        for k, a in enumerate(answers[1:]):
            if "bad-op" in answers[0] or "bad-op" in a:
                ctx.disagreement("driver refused the compiled program: %r / %r" % (answers[0], a), case)
                ok = False
                break
            got = canon_result(t, impl["results"][k])
            mod = canon_model_result(comp["target"], cols_out, a["result"])
            if not same_result(t, got, mod):
                ctx.disagreement("batch %d: program %s/%s emitted %s, model (functional reading) %s"
                                 % (k, t["kind"], t["agg"], show(got), show(mod)), case)
                ok = False
                break
        if ok and not failed:
            ctx.coverage["traces_validated_against_impl"] += 1


def gen_prog_case(rng):
    cols = list(COLS)
    n = rng.choice([1, 2, 3, 5, 8, 12])
    rows = gen_table(rng, n, cols)
    batches = split_rows(rng, rows, cols)
    while True:
        c = _gen_prog(rng, cols)
        if c is not None:
            c["batches"] = batches
            used = sorted({st[2] for st in c["stmts"] if st[0] == "setitem"} | set(cols))
            labels, scheme = gen_labels(rng, used, strings_only=True)     # in-place assignment needs string labels
            if labels:
                c["labels"], c["label_scheme"] = labels, scheme
            return c


def _gen_prog(rng, cols):
    fcols = {"sdf": list(cols)}                 # columns of every frame object
    cb = {"sdf": {c: 3 for c in cols}}          # magnitude bounds (exactness of the float arithmetic)
    frozen = {"sdf": set()}                     # by-name groupby keys: not assigned afterwards (pandas resolves them eagerly)
    stmts = []
    counter = [0]

    def fresh(p):
        counter[0] += 1
        return "%s%d" % (p, counter[0])

    def setitem(fr):
        cands = [c for c in fcols[fr] if c not in frozen[fr] and c != "g"]
        new = rng.random() < 0.45 or not cands
        col = rng.choice([c for c in ("z", "w", "v") if c not in fcols[fr]] or ["z"]) if new else rng.choice(cands)
        if col in frozen[fr]:
            return False
        e = gen_cexpr(rng, fcols[fr], rng.choice([1, 1, 2]))
        b = bound_c(e, cb[fr])
        if b > MAXABS:
            return False
        stmts.append(["setitem", fr, col, e])
        if col not in fcols[fr]:
            fcols[fr] = fcols[fr] + [col]
        cb[fr] = dict(cb[fr], **{col: b})
        return col

    def derive_frame(fr):
        v = fresh("f")
        if rng.random() < 0.5:
            stmts.append(["filter", v, fr, gen_mexpr(rng, fcols[fr], 1)])
            fcols[v] = list(fcols[fr])
        else:
            keep = [c for c in fcols[fr] if c == "g" or rng.random() < 0.7]
            if "g" not in keep and "g" in fcols[fr]:
                keep.append("g")
            if not [c for c in keep if c != "g"]:
                keep = list(fcols[fr])
            stmts.append(["select", v, fr, keep])
            fcols[v] = list(keep)
        cb[v] = {c: cb[fr][c] for c in fcols[v]}
        frozen[v] = set()
        return v

    fr = "sdf"
    if rng.random() < 0.3:                      # prelude
        if rng.random() < 0.5:
            if not setitem(fr):
                return None
        else:
            fr = derive_frame(fr)
    pattern = rng.choice(["groupby-name", "groupby-name", "groupby-series", "groupby-series", "column", "frame", "after"])
    obj = None
    if pattern.startswith("groupby"):
        obj = fresh("g")
        if pattern == "groupby-name" and "g" in fcols[fr]:
            stmts.append(["groupby", obj, fr, "name", ["col", "g"]])
            frozen[fr] = frozen[fr] | {"g"}
        else:
            pattern = "groupby-series"
            key = ["col", "g"] if ("g" in fcols[fr] and rng.random() < 0.5) else gen_cexpr(rng, fcols[fr], 1)
            if bound_c(key, cb[fr]) > MAXABS:
                return None
            stmts.append(["groupby", obj, fr, "series", key])
    elif pattern == "column":
        obj = fresh("s")
        stmts.append(["col", obj, fr, gen_cexpr(rng, fcols[fr], rng.choice([0, 0, 1]))])
        if bound_c(stmts[-1][3], cb[fr]) > MAXABS:
            return None
    elif pattern == "frame":
        obj = derive_frame(fr)
    # the in-place assignment(s) AFTER the derived object exists
    assigned = []
    for _ in range(rng.choice([1, 1, 2])):
        target_fr = fr if (pattern != "frame" or rng.random() < 0.6) else obj
        c = setitem(target_fr)
        if not c:
            return None
        assigned.append((target_fr, c))
    agg_s = rng.choice(SCALAR_AGGS)
    if pattern.startswith("groupby"):
        vals = [c for c in fcols[fr] if c != "g"] or fcols[fr]
        last = [c for f_, c in assigned if f_ == fr]
        val = rng.choice(last) if last and rng.random() < 0.7 else rng.choice(vals)
        t = {"kind": "group", "on": obj, "agg": rng.choice(GROUP_AGGS), "val": val, "ddof": rng.choice([0, 1]),
             "attr": rng.random() < 0.5}
    elif pattern == "column":
        t = {"kind": "col", "on": obj, "agg": agg_s, "ddof": rng.choice([0, 1])}
    elif pattern == "frame":
        r = rng.random()
        if r < 0.4:
            t = {"kind": "frame", "on": obj, "agg": rng.choice(FRAME_AGGS)}
        elif r < 0.7:
            s_ = fresh("s")
            stmts.append(["col", s_, obj, gen_cexpr(rng, fcols[obj], 1)])
            if bound_c(stmts[-1][3], cb[obj]) > MAXABS:
                return None
            t = {"kind": "col", "on": s_, "agg": agg_s, "ddof": rng.choice([0, 1])}
        else:
            g_ = fresh("g")
            stmts.append(["groupby", g_, obj, "name", ["col", "g"]] if "g" in fcols[obj] else
                         ["groupby", g_, obj, "series", gen_cexpr(rng, fcols[obj], 0)])
            t = {"kind": "group", "on": g_, "agg": rng.choice(GROUP_AGGS),
                 "val": rng.choice([c for c in fcols[obj] if c != "g"] or fcols[obj]), "ddof": rng.choice([0, 1])}
    else:                                        # objects created after the assignment, from the assigned frame itself
        r = rng.random()
        if r < 0.4:
            t = {"kind": "frame", "on": fr, "agg": rng.choice(FRAME_AGGS)}
        elif r < 0.7:
            s_ = fresh("s")
            stmts.append(["col", s_, fr, gen_cexpr(rng, fcols[fr], 1)])
            if bound_c(stmts[-1][3], cb[fr]) > MAXABS:
                return None
            t = {"kind": "col", "on": s_, "agg": agg_s, "ddof": rng.choice([0, 1])}
        else:
            g_ = fresh("g")
            stmts.append(["groupby", g_, fr, "name", ["col", "g"]] if "g" in fcols[fr] else
                         ["groupby", g_, fr, "series", gen_cexpr(rng, fcols[fr], 0)])
            t = {"kind": "group", "on": g_, "agg": rng.choice(GROUP_AGGS), "val": assigned[-1][1], "ddof": rng.choice([0, 1])}
    return {"kind": "prog", "pattern": pattern, "cols": list(cols), "stmts": stmts, "target": t}


def label_corpus():
    """falsy / positional labels in every role: groupby(2)[0], groupby(0)[1], sdf[0].sum(), sdf[[0, 2]], sdf[''] = expr ..."""
    X, Y, G = ["col", "x"], ["col", "y"], ["col", "g"]
    gb = [B([1, 2, None], y=[1, 0, 2], g=[0, 1, 2]), B([]), B([3, 3], y=[2, 2], g=[1, None]), B([5], y=[1], g=[0])]
    cs = []
    schemes = [("int", {"x": 0, "y": 1, "g": 2}), ("int", {"x": 1, "y": 2, "g": 0}), ("float", {"x": 0.0, "y": 1.0, "g": 2.0}),
               ("bool", {"x": False, "y": True, "g": "k"}), ("empty", {"x": ""}), ("empty", {"g": ""})]
    for scheme, lab in schemes:
        for agg in GROUP_AGGS:
            for by in ("name", "series"):
                cs.append({"kind": "api", "cols": COLS, "batches": gb, "pipe": [], "labels": lab, "label_scheme": scheme,
                           "target": {"kind": "group", "agg": agg, "val": "x", "by": by, "key": G, "ddof": 1}})
        for agg in ("sum", "mean", "value_counts"):
            cs.append({"kind": "api", "cols": COLS, "batches": gb, "pipe": [["filter", ["cmpr", "ge", X, 2]], ["select", ["g", "x"]]],
                       "labels": lab, "label_scheme": scheme, "target": {"kind": "col", "agg": agg, "expr": X}})
        cs.append({"kind": "api", "cols": COLS, "batches": gb, "pipe": [["select", ["x", "g"]]], "labels": lab, "label_scheme": scheme,
                   "target": {"kind": "frame", "agg": "sum"}})
        for name in ("gsum", "gmean", "gvar", "gsize"):
            for sg in (False, True):
                cs.append({"kind": "direct", "agg": name, "ddof": 1, "sg": sg, "labels": {k: v for k, v in lab.items() if k != "y"},
                           "label_scheme": scheme, "batches": [{"x": b["x"], "g": b["g"]} for b in gb],
                           "ops": [["new", i] for i in range(len(gb))]})
    # in-place assignment of the '' column (existing and new), groupby object created before
    for lab in ({"y": ""}, {"w": ""}, {"g": ""}):
        col = "y" if "y" in lab else "w"
        cs.append({"kind": "prog", "pattern": "groupby-name", "cols": COLS, "batches": gb, "labels": lab, "label_scheme": "empty",
                   "stmts": [["groupby", "g1", "sdf", "name", G], ["setitem", "sdf", col, ["bin", "add", X, Y]]],
                   "target": {"kind": "group", "on": "g1", "agg": "sum", "val": col, "ddof": 1}})
        cs.append({"kind": "api", "cols": COLS, "batches": gb, "labels": lab, "label_scheme": "empty", "setitem": True,
                   "pipe": [["assign", col, ["binr", "mul", X, 2]]],
                   "target": {"kind": "group", "agg": "mean", "val": col, "by": "series", "key": G, "ddof": 1}})
    return cs


def prog_corpus():
    X, Y, G = ["col", "x"], ["col", "y"], ["col", "g"]
    bs = [B([1, 2, None], y=[1, 2, 3], g=[0, 1, 2]), B([]), B([3, 3], y=[None, 1], g=[1, None]), B([2], y=[3], g=[0])]
    y10 = ["binr", "mul", Y, 3]
    cs = []
    for by, key in (("name", G), ("series", G), ("series", ["binr", "mul", G, 2])):
        pat = "groupby-" + by
        for agg in GROUP_AGGS:
            # the coordinator's scenario: g = sdf.groupby(k); sdf['y'] = sdf.y * 3; g.y.<agg>()
            cs.append({"kind": "prog", "pattern": pat, "cols": COLS, "batches": bs,
                       "stmts": [["groupby", "g1", "sdf", by, key], ["setitem", "sdf", "y", y10]],
                       "target": {"kind": "group", "on": "g1", "agg": agg, "val": "y", "ddof": 1}})
        # ... and with a NEW column
        cs.append({"kind": "prog", "pattern": pat, "cols": COLS, "batches": bs,
                   "stmts": [["groupby", "g1", "sdf", by, key], ["setitem", "sdf", "w", ["bin", "add", X, Y]]],
                   "target": {"kind": "group", "on": "g1", "agg": "sum", "val": "w", "ddof": 1, "attr": True}})
    # a column / a filtered frame / a selection taken BEFORE the assignment keep the old values
    cs.append({"kind": "prog", "pattern": "column", "cols": COLS, "batches": bs,
               "stmts": [["col", "s1", "sdf", Y], ["setitem", "sdf", "y", y10]],
               "target": {"kind": "col", "on": "s1", "agg": "sum"}})
    cs.append({"kind": "prog", "pattern": "frame", "cols": COLS, "batches": bs,
               "stmts": [["filter", "f1", "sdf", ["cmpr", "gt", Y, 1]], ["setitem", "sdf", "y", y10]],
               "target": {"kind": "frame", "on": "f1", "agg": "sum"}})
    cs.append({"kind": "prog", "pattern": "frame", "cols": COLS, "batches": bs,
               "stmts": [["select", "f1", "sdf", ["y", "g"]], ["setitem", "f1", "y", y10], ["setitem", "sdf", "y", ["neg", Y]],
                         ["groupby", "g1", "f1", "name", G]],
               "target": {"kind": "group", "on": "g1", "agg": "mean", "val": "y", "ddof": 1}})
    cs.append({"kind": "prog", "pattern": "after", "cols": COLS, "batches": bs,
               "stmts": [["setitem", "sdf", "y", y10], ["setitem", "sdf", "w", ["bin", "sub", Y, X]]],
               "target": {"kind": "frame", "on": "sdf", "agg": "mean"}})
    return cs


# ------------------------------------------------------------------ oracle-only stream: updating (x) streaming operands

# Trees mixing running aggregates ('updating' collections) with streaming columns / frames, through the
# unary and binary operators of OperatorMixin, in BOTH operand orders:
#   ["s", E]              streaming column expression                      (streaming Series)
#   ["sf"]                the streaming frame itself                       (streaming DataFrame)
#   ["u", agg, E]         running sum|count|mean|size of a column expr     (updating scalar)
#   ["uf", agg]           running sum|count|mean of the frame              (updating Series over the columns)
#   ["ug", agg, key, val] running groupby(key)[val].agg()                  (updating Series over the keys)
#   ["bin", op, T, T] ["binr", op, T, c] ["binl", op, c, T] ["neg", T] ["abs", T] ["cmp", op, T, T] ["cmpr", op, T, c]
# Meaning (the convention of map_partitions + zip on a synchronous source): after batch k every running
# aggregate holds its value over batches 1..k (batch k included) and is broadcast against the rows of
# batch k only: value_k = tree(aggregates of the prefix, rows of batch k).  A tree with a streaming leaf is
# a streaming collection again: an outer running aggregation folds value_1 .. value_k.  A tree of updating
# leaves only is an updating collection: its k-th version is observed, and sum/count/mean of it reduce that version.

MIX_UAGG = ["sum", "count", "mean", "size"]


def mix_kind(T):
    k = T[0]
    if k == "s":
        return "SS"
    if k == "sf":
        return "SF"
    if k == "u":
        return "US"
    if k == "uf":
        return "UC"
    if k == "ug":
        return "UG"
    kinds = [mix_kind(x) for x in T[1:] if isinstance(x, list) and x and isinstance(x[0], str) and
             x[0] in ("s", "sf", "u", "uf", "ug", "bin", "binr", "binl", "neg", "abs", "cmp", "cmpr")]
    for k in ("SF", "SS", "UG", "UC", "US"):
        if k in kinds:
            return k
    raise ValueError(T)


def mix_has(T, leaf):
    return T[0] == leaf or any(isinstance(x, list) and x and isinstance(x[0], str) and mix_has(x, leaf) for x in T[1:]
                               if isinstance(x, list) and T[0] not in ("s", "u"))


def build_t(T, fs, fu):
    """fs supplies the streaming leaves, fu the running aggregates: the same streaming frame for streamz;
    for the oracle fs = the rows of batch k, fu = the concatenated prefix (plain pandas)."""
    k = T[0]
    if k == "s":
        return build_c(fs, T[1])
    if k == "sf":
        return fs
    if k == "u":
        s_ = build_c(fu, T[2])
        return s_.size if T[1] == "size" else getattr(s_, T[1])()
    if k == "uf":
        return getattr(fu, T[1])()
    if k == "ug":
        return getattr(fu.groupby(L(T[2]))[L(T[3])], T[1])()
    if k == "bin":
        return BIN_ALL[T[1]](build_t(T[2], fs, fu), build_t(T[3], fs, fu))
    if k == "binr":
        return BIN_ALL[T[1]](build_t(T[2], fs, fu), T[3])
    if k == "binl":
        return BIN_ALL[T[1]](T[2], build_t(T[3], fs, fu))
    if k == "neg":
        return -build_t(T[1], fs, fu)
    if k == "abs":
        return abs(build_t(T[1], fs, fu))
    if k == "cmp":
        return CMP[T[1]](build_t(T[2], fs, fu), build_t(T[3], fs, fu))
    if k == "cmpr":
        return CMP[T[1]](build_t(T[2], fs, fu), T[3])
    raise ValueError(T)


def mix_outer(obj, outer, streaming_kind):
    """the aggregation applied on top of the tree (None = the tree is only observed)"""
    if outer is None:
        return None
    if outer.get("col") is not None:
        obj = obj[L(outer["col"])]
    agg = outer["agg"]
    return obj.size if agg == "size" else getattr(obj, agg)()


def canon_value(kind, v):
    """per-batch value of a tree -> comparable"""
    try:
        if kind == "SS":
            return ("series", list(v.index), [frac(x) for x in v])
        if kind == "SF":
            return ("frame", [unL(c) for c in v.columns], list(v.index), frame_rows(list(v.columns), v))
        if kind == "US":
            return ("scalar", frac(v))
        if kind == "UC":
            return ("bycol", {unL(c): frac(x) for c, x in v.items()})
        return ("bykey", ser_items(v))
    except Exception:
        return ("unexpected", type(v).__name__)


def canon_outer(kind, outer, r):
    try:
        if isinstance(r, tuple):
            return r if (len(r) == 2 and r[0] in ("raised", "unexpected", "emitted")) else ("unexpected", "tuple")
        if kind == "SF" and outer.get("col") is None and outer["agg"] != "size":
            return {unL(c): frac(x) for c, x in r.items()}
        return frac(r)
    except Exception:
        return ("unexpected", type(r).__name__)


def values_close(a, b):
    """structural comparison of canon_value / canon_outer results with the numeric tolerance of `close`"""
    if isinstance(a, Fraction) or isinstance(b, Fraction) or a is None or b is None or isinstance(a, str) or isinstance(b, str):
        if isinstance(a, (list, tuple, dict)) or isinstance(b, (list, tuple, dict)):
            return False
        return close(a, b, 1e-9)
    if type(a) is not type(b):
        return a == b
    if isinstance(a, dict):
        return set(a) == set(b) and all(values_close(a[k], b[k]) for k in a)
    if isinstance(a, (list, tuple)):
        return len(a) == len(b) and all(values_close(x, y) for x, y in zip(a, b))
    return a == b


def run_mixed_impl(case):
    from streamz import Stream
    from streamz.dataframe import DataFrame
    cols = case["cols"]
    try:
        source = Stream()
        sdf = DataFrame(source, example=example_for(cols))
        f = build_pipe(sdf, case["pipe"])
        tree = build_t(case["tree"], f, f)
        vals = tree.stream.sink_to_list()                       # observed directly, batch by batch
        o = mix_outer(tree, case["outer"], True)
        out = o.stream.sink_to_list() if o is not None else None
    except Exception as e:
        return {"construct_error": type(e).__name__ + ": " + str(e)[:200]}
    res, vs, start = [], [], 0
    for b in case["batches"]:
        df = mk_frame(cols, b, start)
        start += len(df)
        n_out, n_v = len(out or []), len(vals)
        try:
            source.emit(df)
        except Exception as e:
            res.append(("raised", type(e).__name__))
        else:
            res.append(None if out is None else (out[-1] if len(out) == n_out + 1 else ("emitted", len(out) - n_out)))
        vs.append(vals[-1] if len(vals) == n_v + 1 else ("emitted", len(vals) - n_v))
    return {"construct_error": None, "results": res, "values": vs}


def check_mixed(ctx, case, answers=None):
    with use_labels(case):
        return _check_mixed(ctx, case)


def _check_mixed(ctx, case):
    cols, T, outer = case["cols"], case["tree"], case["outer"]
    kind = mix_kind(T)
    ctx.count("mixed:kind:" + kind)
    ctx.count("mixed:order:" + case.get("order", "?"))
    ctx.count("mixed:outer:" + ("none" if outer is None else outer["agg"]))
    pd = pdmod()
    with warnings.catch_warnings():
        warnings.simplefilter("ignore")
        impl = run_mixed_impl(case)
        if impl["construct_error"]:
            ctx.count("mixed:construct-error")
            ctx.failure("mixed:construct:" + impl["construct_error"].split(":")[0],
                        "building the streaming graph raised " + impl["construct_error"], case)
            ctx.case(case, nontrivial=False)
            return
        src, start = [], 0
        for b in case["batches"]:
            df = mk_frame(cols, b, start)
            start += len(df)
            src.append(df)
        streaming = kind in ("SS", "SF")
        folded = []
        n_claims = 0
        base = "mixed:%s:%s" % (kind, case.get("order", "?"))
        for k in range(len(src)):
            prefix = build_pipe(concat(src[:k + 1]), case["pipe"])
            batch = build_pipe(src[k], case["pipe"])
            want_v = build_t(T, batch, prefix)
            folded.append(want_v)
            got_v = impl["values"][k]
            cg = got_v if isinstance(got_v, tuple) else canon_value(kind, got_v)
            cw = canon_value(kind, want_v)
            # updating trees over a prefix without rows: pandas' reductions of nothing (0, NaN, empty) are compared too
            if not values_close(cg, cw):
                ctx.failure(base + ":per-batch-value-differs",
                            "batch %d: the tree emitted %s, pandas (aggregates of the prefix, rows of the batch) gives %s"
                            % (k, show(cg), show(cw)), case, expected=show(cw), observed=show(cg),
                            oracle="value_k == tree(aggregates over pd.concat(batches[:k+1]), rows of batch k)")
                break
            n_claims += 1
            if outer is None:
                continue
            got = canon_outer(kind, outer, impl["results"][k])
            if streaming:
                whole = pd.concat(folded)
                if len(whole) == 0:
                    ctx.count("mixed:oracle:no-row-prefix")
                    continue
                want = canon_outer(kind, outer, mix_outer(whole, outer, False))
            else:
                if len(prefix) == 0:
                    ctx.count("mixed:oracle:no-row-prefix")
                    continue
                want = canon_outer(kind, outer, mix_outer(want_v, outer, False))
            if not values_close(got, want):
                sig = base + ":outer:" + outer["agg"] + (":" + got[0] + ":" + str(got[1]) if isinstance(got, tuple) else ":value-differs")
                ctx.failure(sig, "after batch %d %s of the tree emitted %s, pandas folding the per-batch values of the prefix gives %s"
                            % (k, outer["agg"], show(got), show(want)), case, expected=show(want), observed=show(got),
                            oracle="outer aggregation k == pandas aggregation of pd.concat(value_1 .. value_k)")
                break
        ctx.case(case, nontrivial=n_claims >= 2)


def gen_mixed_case(rng):
    cols = list(COLS)
    n = rng.choice([2, 3, 5, 8, 12])
    rows = gen_table(rng, n, cols)
    batches = split_rows(rng, rows, cols)
    labels, scheme = gen_labels(rng, cols)
    if scheme == "bool":
        labels, scheme = None, "plain"
    pipe = [["filter", gen_mexpr(rng, cols, 0)]] if rng.random() < 0.25 else []
    valcols = ["x", "y"]

    def S():
        return ["s", gen_cexpr(rng, valcols + (["g"] if rng.random() < 0.2 else []), rng.choice([0, 0, 1]))]

    def U():
        return ["u", rng.choice(MIX_UAGG), gen_cexpr(rng, valcols, rng.choice([0, 0, 1]))]

    def combine(a, b):
        r = rng.random()
        if r < 0.75:
            return ["bin", rng.choice(["add", "sub", "mul"]), a, b]
        return ["cmp", rng.choice(list(CMP)), a, b]

    def wrap(t):
        r = rng.random()
        if r < 0.15 and t[0] not in ("cmp", "cmpr"):       # numpy / pandas reject unary minus on booleans
            return ["neg", t]
        if r < 0.3:
            return ["abs", t]
        if r < 0.45:
            return ["binr", rng.choice(["add", "sub", "mul"]), t, rng.choice([-1, 2, 3])]
        if r < 0.6:
            return ["binl", rng.choice(["add", "sub", "mul"]), rng.choice([-1, 2, 3]), t]
        return t

    shape = rng.choice(["SS", "SS", "SS", "SS", "SF", "US", "UG"])
    order = rng.choice(["updating-left", "updating-left", "updating-right"])
    outer = None
    if shape == "SS":
        u, s_ = wrap(U()) if rng.random() < 0.4 else U(), S()
        T = combine(u, s_) if order == "updating-left" else combine(s_, u)
        r = rng.random()
        if r < 0.3:                     # one more level: (U op S) op S', S' op (U op S), U' op (S op U) ...
            extra = S() if rng.random() < 0.6 else U()
            T = combine(extra, T) if rng.random() < 0.5 else combine(T, extra)
        T = wrap(T)
        outer = None if rng.random() < 0.1 else {"agg": rng.choice(["sum", "count", "mean", "size"])}
    elif shape == "SF":
        u = ["uf", rng.choice(["sum", "count", "mean"])] if rng.random() < 0.6 else U()
        op = rng.choice(["add", "sub", "mul"])
        T = ["bin", op, u, ["sf"]] if order == "updating-left" else ["bin", op, ["sf"], u]
        T = wrap(T)
        r = rng.random()
        if r < 0.45:
            outer = {"agg": rng.choice(["sum", "count", "mean"])}
        elif r < 0.9:
            outer = {"agg": rng.choice(["sum", "count", "mean", "size"]), "col": rng.choice(cols)}
    elif shape == "US":
        T = wrap(combine(U(), U()))
        order = "updating-only"
    else:
        val = rng.choice(valcols)
        a, b = ["ug", rng.choice(["sum", "count", "mean", "size"]), "g", val], ["ug", rng.choice(["sum", "count", "mean", "size"]), "g", val]
        if rng.random() < 0.3:
            b = U()
        T = wrap(combine(a, b) if rng.random() < 0.5 else combine(b, a))
        order = "updating-only"
        if rng.random() < 0.5:
            outer = {"agg": rng.choice(["sum", "count", "mean"])}
    case = {"kind": "mixed", "order": order, "cols": cols, "batches": batches, "pipe": pipe, "tree": T, "outer": outer}
    if labels:
        case["labels"], case["label_scheme"] = labels, scheme
    return case


def mixed_corpus():
    X, Y = ["col", "x"], ["col", "y"]
    bs = [B([1, 4], y=[1, 2]), B([2], y=[3]), B([]), B([8, 5, None, 3], y=[1, 2, 3, 1]), B([9, 6], y=[2, None])]
    empty_first = [B([])] + bs
    cs = []
    trees = [("updating-left", ["bin", "sub", ["u", "mean", X], ["s", X]]),
             ("updating-right", ["bin", "sub", ["s", X], ["u", "mean", X]]),
             ("updating-left", ["bin", "mul", ["u", "count", X], ["s", X]]),
             ("updating-left", ["bin", "add", ["u", "sum", X], ["s", Y]]),
             ("updating-left", ["bin", "add", ["binr", "mul", ["u", "sum", X], 2], ["s", X]]),
             ("updating-left", ["cmp", "lt", ["u", "mean", X], ["s", X]]),
             ("updating-right", ["cmp", "gt", ["s", X], ["u", "mean", X]]),
             ("updating-left", ["abs", ["bin", "sub", ["u", "size", X], ["s", Y]]]),
             ("updating-left", ["neg", ["bin", "mul", ["u", "mean", Y], ["s", X]]])]
    for order, T in trees:
        for batches in (bs, empty_first):
            for agg in ("sum", "count", "mean", "size"):
                cs.append({"kind": "mixed", "order": order, "cols": COLS, "batches": batches, "pipe": [], "tree": T, "outer": {"agg": agg}})
    for order, T in (("updating-left", ["bin", "sub", ["uf", "mean"], ["sf"]]), ("updating-right", ["bin", "sub", ["sf"], ["uf", "mean"]]),
                     ("updating-left", ["bin", "mul", ["u", "count", X], ["sf"]])):
        for outer in ({"agg": "sum"}, {"agg": "mean", "col": "x"}, {"agg": "count"}):
            cs.append({"kind": "mixed", "order": order, "cols": COLS, "batches": bs, "pipe": [], "tree": T, "outer": outer})
    gb = [B([1, 2, None], g=[0, 1, 2]), B([]), B([3, 3], g=[1, None]), B([5], g=[0])]
    cs.append({"kind": "mixed", "order": "updating-only", "cols": COLS, "batches": gb, "pipe": [],
               "tree": ["bin", "sub", ["ug", "sum", "g", "x"], ["bin", "mul", ["ug", "mean", "g", "x"], ["ug", "count", "g", "x"]]],
               "outer": {"agg": "sum"}})
    cs.append({"kind": "mixed", "order": "updating-only", "cols": COLS, "batches": gb, "pipe": [],
               "tree": ["bin", "sub", ["u", "sum", X], ["bin", "mul", ["u", "mean", X], ["u", "count", X]]], "outer": None})
    return cs


# ------------------------------------------------------------------ exhaustive tier (direct level, shared prefixes)

def exhaustive_tree(ctx, specs, alphabet, max_rows, max_empty):
    """Every composition of every table with <= max_rows rows over `alphabet` (rows (x, g)), with up to
    `max_empty` empty batches anywhere (never two in a row), explored as ONE prefix tree shared by all the
    aggregations in `specs` = [(name, ddof)]: per tree node one `on_new` of each real object, one model
    step each (driver push / batch / pop), and pandas on the concatenated table for each."""
    pd = pdmod()
    import numpy as np
    grouped = any(n.startswith("g") for n, _ in specs)
    aggs = [make_agg(n, d, False) for n, d in specs]
    tnames = [{"gsum": "sum", "gcount": "count", "gsize": "size", "gmean": "mean", "gvar": "var"}.get(n, n) for n, _ in specs]
    by_len = {n: [list(p) for p in itertools.product(alphabet, repeat=n)] for n in range(1, max_rows + 1)}
    lines = []            # shared driver script (without header)
    expect = [[] for _ in specs]   # per spec, per line: None | (path, got, state)
    count = [0]

    def fl(v):
        return NAN if v is None else float(v)

    def frame_of(rows, start):
        return pd.DataFrame({"x": np.array([fl(r[0]) for r in rows], dtype="float64"),
                             "g": np.array([fl(r[1]) for r in rows], dtype="float64")},
                            index=pd.RangeIndex(start, start + len(rows)))

    def case_of(name, ddof, path):
        return {"kind": "direct", "agg": name, "ddof": ddof, "sg": False,
                "batches": [{"x": [r[0] for r in bb], "g": [r[1] for r in bb]} for bb in path],
                "ops": [["new", i] for i in range(len(path))]}

    def visit(accs, path, rows, nempty):
        children = itertools.chain.from_iterable(by_len[n] for n in range(1, max_rows - len(rows) + 1))
        if nempty < max_empty and (not path or path[-1]):
            children = itertools.chain([[]], children)
        for b in children:
            count[0] += 1
            df = frame_of(b, len(rows))
            rows2 = rows + b
            path2 = path + [b]
            whole = frame_of(rows2, 0) if rows2 else None      # the concatenation of the batches so far
            sx = df["x"]
            wx = whole["x"] if whole is not None else None
            lines.append({"op": "push"})
            l = {"op": "batch", "x": [r[0] for r in b]}
            if grouped:
                l["g"] = [r[1] for r in b]
            lines.append(l)
            naccs = []
            for si, ((name, ddof), agg, acc) in enumerate(zip(specs, aggs, accs)):
                acc2, res = direct_step_impl(name, agg, acc, df, False, x=sx)
                nacc = acc if isinstance(res, tuple) else acc2
                naccs.append(nacc)
                got = canon_direct_result(name, res)
                expect[si].append(None)
                expect[si].append((path2, got, direct_state(name, nacc)))
                if whole is not None:
                    want = direct_pandas(name, ddof, [whole], x=wx)
                    if not oracle_same({"agg": tnames[si]}, got, want):
                        sig = "direct:%s:%s" % (name, got[0] + ":" + str(got[1]) if isinstance(got, tuple) else "value-differs")
                        if name == "mean" and not isinstance(got, tuple):
                            if want is None and got == 0:
                                sig = "direct:mean:countless-emits-0-not-nan"
                            elif any(all(r[0] is None for bb in path2[:q] for r in bb) for q in range(1, len(path2))):
                                sig = "direct:mean:count-substitute-persisted"
                        ctx.failure(sig, "exhaustive: %s after batches %s gave %s, pandas on the concatenation gives %s"
                                    % (name, path2, show(got), show(want)), case_of(name, ddof, path2),
                                    expected=show(want), observed=show(got),
                                    oracle="result == pandas aggregation of the concatenation")
            visit(naccs, path2, rows2, nempty + (0 if b else 1))
            lines.append({"op": "pop"})
            for si in range(len(specs)):
                expect[si].append(None)

    with warnings.catch_warnings():
        warnings.simplefilter("ignore")
        visit([None] * len(specs), [], [], 0)
    for si, (name, ddof) in enumerate(specs):
        answers = common.lean_driver("Agg", [{"op": "reset", "mode": "direct", "agg": name, "ddof": ddof}] + lines)
        bad = 0
        for a, e in zip(answers[1:], expect[si]):
            if e is None:
                if "bad-op" in a:
                    bad += 1
                continue
            path, got, ist = e
            ctx.coverage["evaluations"] += 1
            good = "bad-op" not in a
            if good:
                mres = canon_direct_model_result(name, a["result"])
                mst = model_state(name, a["state"])
                good = direct_same(name, got, mres) and ist == mst
            if good:
                ctx.coverage["traces_validated_against_impl"] += 1
            else:
                bad += 1
                if bad <= 3:
                    ctx.disagreement("exhaustive %s after %s: impl result %s state %s, model answered %s"
                                     % (name, path, show(got), show(ist), a), case_of(name, ddof, path))
        ctx.count("exhaustive:%s:ddof%d:nodes" % (name, ddof), count[0])
    return count[0]


# ------------------------------------------------------------------ entry points

def run_cases(ctx, cases):
    lines, spans = [], []
    for c in cases:
        ml = [] if c["kind"] in ("nonfinite", "mixed") else (prog_lines(c) if c["kind"] == "prog" else
                                                  api_lines(c) if c["kind"] == "api" else direct_lines(c))
        spans.append((len(lines), len(lines) + len(ml)))
        lines += ml
    answers = common.lean_driver("Agg", lines) if lines else []
    for c, (a, b) in zip(cases, spans):
        if c["kind"] == "nonfinite":
            check_api(ctx, c, None)          # oracle only: real streamz vs real pandas
        elif c["kind"] == "mixed":
            check_mixed(ctx, c)              # oracle only
        elif c["kind"] == "prog":
            check_prog(ctx, c, answers[a:b])
        elif c["kind"] == "api":
            check_api(ctx, c, answers[a:b])
        else:
            check_direct(ctx, c, answers[a:b])


def quiet():
    logging.getLogger("streamz.core").setLevel(logging.CRITICAL)
    logging.getLogger("streamz").setLevel(logging.CRITICAL)


def run(ctx):
    ctx.audit()
    quiet()
    ctx.assumptions += [
        "column values are small integers or NaN (float64): sums, counts and sums of squares are exact, so state is compared exactly; "
        "floating-point rounding of quotients is outside the model (mean within 1 ulp of the rational, var/std relative 1e-9)",
        "ddof in {0, 1} (for ddof >= 2 and 0 < n = ddof the code yields +-inf where the model says NaN; not exercised)",
        "element-wise operators modelled: + - * unary -, comparisons, & | ~ (no division: x/0 = inf is not a rational)",
        "the synchronous diamond zip of map_partitions pairs the k-th emission of each operand (C01); one aggregation per graph",
        "Series results are compared as finite maps key -> value (index order canonicalised)",
        "Frame has no plain .var()/.std(): var/std over the whole history are reached through Frame.aggregate(Var(ddof)) ** 0.5 and through sdf.expanding().var()/std()",
        "prefixes without any row: the property statement exempts them ('whenever that concatenation has at least one row'), so the oracle makes no "
        "claim there; the model is compared all the same (since the repair of Var in /repo 445f1a7 - a defect under C07 / C11, whose statements "
        "include empty first batches - model and code give NaN there, the raising outcome is gone from the model)",
        "statement programs (kind 'prog'): `sdf[c] = expr` is executed IN PLACE (streamz rebinds sdf.stream / sdf.example) at different "
        "points relative to the creation of derived objects; oracle = pandas executing the same statements in the same order on the "
        "concatenated prefix. Convention (where pandas and the unchanged streamz agree): a groupby OBJECT refers to its frame, so an "
        "aggregation taken from it later sees columns assigned in between; a column, a selection or a filtered frame taken before the "
        "assignment keeps the old values (pandas copies, streamz nodes hang below the old stream); the value column is selected from the "
        "groupby object at aggregation time (pandas' groupby[col] resolves eagerly) and a column used as a by-NAME groupby key is not "
        "assigned after the groupby object exists (pandas resolves by-name keys when the groupby is created, streamz per batch) - these two "
        "orders are not generated; the model receives the functional reading of the program (pipeline + target), except when a "
        "streaming-series grouper was computed from columns overwritten afterwards (oracle only, counted prog:not-sent-to-model)",
        "updating (x) streaming operands (kind 'mixed', ORACLE-ONLY - the Lean model has no 'updating' operands; counted under "
        "'mixed:' and never sent to the driver): trees combine running aggregates (sum/count/mean/size of a column expression, "
        "sum/count/mean of the frame, groupby aggregates) with streaming columns / the streaming frame through + - * comparisons, "
        "unary - and abs, scalar on either side, with the aggregate as LEFT and as RIGHT operand. Convention (checked on the "
        "unchanged tree in both orders): after batch k every running aggregate holds its pandas value over pd.concat(batches[:k+1]) "
        "(batch k included) and is broadcast against the rows of batch k only; the tree's k-th emission is "
        "tree(aggregates of the prefix, rows of batch k); a tree with a streaming leaf is a streaming collection whose outer "
        "sum/count/mean/size after batch k is the pandas aggregation of pd.concat(value_1..value_k); a tree of aggregates only is "
        "an updating collection whose k-th version is compared and whose sum/count/mean reduce that version. Kept out: Var as "
        "operand or outer aggregation (not generated: before the repair of Var its ZeroDivisionError on a row-less prefix aborted the emit "
        "between the two branches of the zip), groupby aggregates against streaming rows (different index), division, boolean labels, unary minus of a comparison "
        "(numpy and pandas reject `-` on booleans)",
        "column labels: a share of the api / direct / program cases (and a corpus) run on frames whose labels are falsy or not strings - "
        "positional ints 0,1,2 (pd.DataFrame(ndarray)), floats 0.0,1.0,2.0, False/True, '' - permuted so that the value column, the by-name "
        "grouping key, the column inside a streaming-series grouper, the aggregated / selected column each take the falsy label; the "
        "harness relabels at its boundary (pandas oracle and streamz see the real labels, the label-agnostic model keeps the names x, y, g). "
        "Kept out of the generated space: ASSIGNING a non-string label - pandas' own DataFrame.assign(**{0: ...}) is a TypeError and "
        "streamz implements both sdf.assign and `sdf[0] = expr` through keyword arguments, so `sdf[0] = expr` raises TypeError "
        "('keywords must be strings') on the unchanged tree although pandas accepts `df[0] = expr`; assignments (pipelines and in-place "
        "programs) therefore only occur with string labels, including '' for an existing or a new column; attribute access (g.x) only "
        "for identifier labels; False/True are not mixed with 0/1 (equal as dictionary keys) and a frame with boolean labels is never "
        "indexed with a list (pandas reads a list of booleans as a row mask)",
        "non-finite values: the Lean model is over exact rationals and has no +-inf, so the cases of kind 'nonfinite' (+-inf written "
        "into the data, or produced by element-wise division by a column containing 0; placed in the first batch the aggregation "
        "receives, in a later batch, or after an initial empty batch) are ORACLE-ONLY: the real stream is compared with real pandas "
        "on the concatenated prefix (NaN equals NaN, inf equals inf of the same sign, finite sums/means/variances relative 1e-9) and "
        "they are never sent to the model driver; they are counted under the 'nonfinite:' keys of the distribution and do not "
        "contribute to traces_validated_against_impl",
    ]
    n_api, n_direct, n_nonfinite, n_prog, n_mixed = ((1000, 550, 250, 300, 260) if not ctx.thorough()
                                                     else (8000, 4000, 3000, 3000, 3000))
    cases = corpus() + nonfinite_corpus() + prog_corpus() + label_corpus() + mixed_corpus()
    # every aggregation gets its share of api cases
    aggs = SCALAR_AGGS
    for i in range(n_api):
        cases.append(gen_api_case(ctx.rng, aggs[i % len(aggs)] if i % 2 == 0 else None))
    for i in range(n_direct):
        cases.append(gen_direct_case(ctx.rng, DIRECT_AGGS[i % len(DIRECT_AGGS)]))
    for i in range(n_nonfinite):
        cases.append(gen_nonfinite_case(ctx.rng))
    for i in range(n_prog):
        cases.append(gen_prog_case(ctx.rng))
    for i in range(n_mixed):
        cases.append(gen_mixed_case(ctx.rng))
    # chunk so that one driver process handles a bounded script
    for i in range(0, len(cases), 2000):
        run_cases(ctx, cases[i:i + 2000])
    if ctx.thorough():
        vals3 = [1, 2, None]
        scalar_alpha = [(v, 0) for v in vals3]
        group_alpha = [(v, g) for v in vals3 for g in (0, 1)]
        nankey_alpha = [(v, g) for v in (1, None) for g in (0, 1, None)]
        scalar = [("sum", 1), ("count", 1), ("size", 1), ("mean", 1), ("var", 1), ("var", 0), ("value_counts", 1)]
        group = [("gsum", 1), ("gcount", 1), ("gsize", 1), ("gmean", 1), ("gvar", 1), ("gvar", 0)]
        exhaustive_tree(ctx, scalar, scalar_alpha, 6, 0)       # every composition of every table with <= 6 rows
        exhaustive_tree(ctx, scalar, scalar_alpha, 5, 1)       # ... <= 5 rows and one empty batch anywhere
        exhaustive_tree(ctx, [("mean", 1), ("var", 1)], scalar_alpha, 4, 3)
        exhaustive_tree(ctx, group, group_alpha, 4, 0)
        exhaustive_tree(ctx, group, group_alpha, 3, 2)
        exhaustive_tree(ctx, group, nankey_alpha, 3, 1)
    ctx.coverage["rule"] = (
        "corpus + seeded generators. api cases: random tables (<=12 rows, 3 columns, values -1..3 and NaN with NaN runs, keys 0..2 and NaN "
        "in phases so that keys vanish and come back) cut into consecutive batches with forced empty batches, behind random pipelines of "
        "filters / assignments / selections over random expression trees, ending in one of 7 column aggregations, 4 frame aggregations or "
        "6 groupby aggregations (column-name or streaming-series grouper). direct cases: initial/on_new/on_old called on the real objects, "
        "state compared after every call. thorough adds every composition of every table with <=6 rows over {1,2,NaN} (<=5 rows with one empty batch anywhere, "
        "<=4 rows with up to 3 empty batches) for the column aggregations and <=4 rows over {1,2,NaN}x{0,1} (<=3 rows with up to 2 empty batches, "
        "or with NaN keys) for the groupby aggregations, as a prefix tree: real object, model and pandas-on-the-concatenation compared at every node. "
        "Statement programs (kind prog) place in-place assignments sdf[c] = expr (new and existing columns) between the creation of a "
        "groupby object / column / selection / filtered frame and the aggregation taken from it. "
        "Oracle-only trees (kind mixed) combine running aggregates with streaming operands in both operand orders and aggregate them again. "
        "A separate oracle-only stream (kind nonfinite, not sent to the model) puts +-inf into the aggregated column. Non-trivial api case: >=2 emissions compared with pandas and (an empty batch or a non-empty pipeline); direct: >=2 oracle claims. "
        "Distinct = distinct case JSON.")


def replay(ctx, data):
    ctx.audit()
    quiet()
    c = data["case"]
    if c["kind"] == "nonfinite":
        check_api(ctx, c, None)
        ctx.coverage["rule"] = "replay of one recorded oracle-only (non-finite) case"
        return
    if c["kind"] == "mixed":
        check_mixed(ctx, c)
        ctx.coverage["rule"] = "replay of one recorded oracle-only (updating x streaming) case"
        return
    if c["kind"] == "prog":
        lines = prog_lines(c)
        check_prog(ctx, c, common.lean_driver("Agg", lines) if lines else [])
        ctx.coverage["rule"] = "replay of one recorded statement program"
        return
    lines = api_lines(c) if c["kind"] == "api" else direct_lines(c)
    answers = common.lean_driver("Agg", lines)
    if c["kind"] == "api":
        check_api(ctx, c, answers)
    else:
        check_direct(ctx, c, answers)
    ctx.coverage["rule"] = "replay of one recorded case"
