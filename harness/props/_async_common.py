"""Shared driver for the asynchronous-pipeline properties (C02, C03, C04, C05 async part, C08)."""
from .. import asynccheck as ac

ALL_KINDS = ["buffer", "delay", "rate_limit", "map_async", "timed_window", "timed_window_unique", "partition_timeout", "latest"]


def sweep(ctx, n, kinds, oracles, signatures, corpus=(), opts=None, allow_zip=True, p_zip=0.15):
    import copy
    for c in corpus:
        c = copy.deepcopy(c)
        ac.evaluate(ctx, c, ac.rerun(c), oracles, signatures)
    rng = ctx.rng
    for i in range(n):
        nodes = ac.gen_pipeline(rng, kinds, allow_zip=allow_zip, p_zip=p_zip)
        flavour = ("future", "coro", "tornado")[i % 3]
        o = dict(opts or {})
        o.setdefault("awaiting", rng.random() < 0.5)
        if ac.none_ok(nodes):
            o["none_ok"] = True
        case, obs = ac.run_adaptive(nodes, rng, rng.randint(6, 16), opts=o, flavour=flavour)
        ac.evaluate(ctx, case, obs, oracles, signatures)
