"""C07 — windowed aggregations equal pandas on exactly the rows inside the window.

Lean: Model/Window.lean (diff_iloc, diff_loc, diff_align, window_accumulator,
windowed_groupby_accumulator, on_new/on_old of every aggregation), Proofs/Window.lean,
Props/C07.lean.

Correspondence (this file).  A case is a window (n=N rows | value=T nanoseconds) and a list of
batches of rows [index_ns, value|None, key].  For every case
  direct   the real `window_accumulator` / `windowed_groupby_accumulator` driven with the real
           `diff_iloc` / `diff_loc` and the real Aggregation objects, batch after batch, for all
           13 aggregations; after every batch the result, the retained frames (`acc['dfs']`),
           the grouper history and the Mean/Var/size states are compared with the Lean model
           fed the same batches;
  api      a seeded selection of full-API pipelines (`sdf.window(n=..)|window(value=..)`,
           `.x.sum() ... .std() .value_counts()`, frame-wide aggregations, `.groupby('k')`,
           `.groupby(w.k)`, `.groupby(sdf.k)`) run on the same batches;
  oracle   (model-free) every observed result, of both levels, is compared with pandas computed
           on the window slice of the concatenated prefix: `prefix.iloc[-N:]` resp.
           `prefix[prefix.index > prefix.index.max() - T]`.
"""
import logging
import math
import warnings
from fractions import Fraction

import numpy as np
import pandas as pd

from .. import common

SCALAR = ["sum", "count", "size", "mean", "var0", "var1", "vc"]
GROUP = ["gsum", "gcount", "gsize", "gmean", "gvar0", "gvar1"]
EXACT = {"sum", "count", "size", "vc", "gsum", "gcount", "gsize"}
S = 10 ** 9


# ------------------------------------------------------------------ frames

_TZ = [None]        # time zone of the index for the case being checked (case["tz"]); labels stay UTC nanoseconds (`asi8`)


def mkframe(rows):
    idx = pd.to_datetime(np.array([r[0] for r in rows], dtype="int64"), unit="ns")
    if _TZ[0]:
        idx = idx.tz_localize("UTC").tz_convert(_TZ[0])
    x = np.array([np.nan if r[1] is None else float(r[1]) for r in rows], dtype=float)
    k = np.array([r[2] for r in rows], dtype="int64")
    return pd.DataFrame({"x": x, "k": k}, index=idx)


def window_slice(case, prefix):
    """The rows the property talks about, by the statement alone."""
    if case["diff"] == "iloc":
        n = case["w"]
        return prefix.iloc[len(prefix) - min(n, len(prefix)):]
    if not len(prefix):
        return prefix
    return prefix[prefix.index > prefix.index.max() - pd.Timedelta(case["w"], "ns")]


def buggy_loc_rows(case, upto):
    """Rows retained by a `diff_loc` whose cut is label-inclusive (classification aid only)."""
    dfs = []
    T = case["w"]
    for b in case["batches"][:upto + 1]:
        if b:
            dfs.append(list(b))
        if dfs:
            mx = max(r[0] for d in dfs for r in d)
            mn = mx - T + 1
            while dfs and min(r[0] for r in dfs[0]) < mn:
                o = 0
                while o < len(dfs[0]) and dfs[0][o][0] <= mn:
                    o += 1
                if o == 0:
                    break
                dfs[0] = dfs[0][o:]
                if not dfs[0]:
                    dfs.pop(0)
    return [r for d in dfs for r in d]


# ------------------------------------------------------------------ canonical values

def num(v):
    """float / numpy scalar -> python float (nan kept)."""
    return float(v)


def _label(k):
    if isinstance(k, (float, np.floating)):
        k = float(k)
        if math.isnan(k):
            return "nan"
        return int(k) if math.isfinite(k) and k == int(k) else k
    if isinstance(k, np.integer):
        return int(k)
    return k


def series_dict(s):
    return {_label(k): num(v) for k, v in s.items()}


def canon_obs(name, r):
    """Observed result of aggregation `name` -> float | dict."""
    base = name.split("@")[0]
    if base in ("vc",) or base.startswith("g") or base.endswith(".gsum"):
        if isinstance(r, pd.DataFrame):
            r = r["x"]
        return series_dict(r)
    if isinstance(r, pd.Series):        # frame-wide aggregation: one entry per column
        return {str(k): num(v) for k, v in r.items()}
    return num(r)


TRANSFORMS = {          # element-wise operators on the window object with the window as the RIGHT operand (reflected operators)
    "tr.rsub.sum": (lambda w: 10 - w.x, "sum"), "tr.radd.mean": (lambda w: 1 + w.x, "mean"), "tr.rmul.sum": (lambda w: 2 * w.x, "sum"),
    "tr.sub.sum": (lambda w: w.x - 10, "sum"), "tr.rsub.count": (lambda w: 10 - w.x, "count"),
}


def expected(name, win):
    """pandas on the window slice."""
    base = name.split("@")[0]
    x = win["x"]
    if base in TRANSFORMS:
        tr, agg = TRANSFORMS[base]
        return num(getattr(tr(win), agg)())
    if base == "tr.rk.gsum":
        return series_dict(win.groupby(3 - win["k"])["x"].sum())
    if base == "sum":
        return num(x.sum())
    if base == "count":
        return num(x.count())
    if base == "size":
        return num(len(x))
    if base == "mean":
        return num(x.mean())
    if base in ("var0", "var1"):
        return num(x.var(ddof=int(base[-1])))
    if base in ("std0", "std1"):
        return num(x.std(ddof=int(base[-1])))
    if base == "vc":
        return series_dict(x.value_counts())
    if base.startswith("df."):
        op = base[3:]
        if op == "sum":
            r = win.sum()
        elif op == "count":
            r = win.count()
        elif op == "mean":
            r = win.mean()
        elif op == "size":
            return num(win.size)
        else:
            r = win.var(ddof=int(op[-1]))
        return {str(k): num(v) for k, v in r.items()}
    g = win.groupby("k")["x"]
    if base == "gsum":
        return series_dict(g.sum())
    if base == "gcount":
        return series_dict(g.count())
    if base == "gsize":
        return series_dict(g.size())
    if base == "gmean":
        return series_dict(g.mean())
    if base in ("gvar0", "gvar1"):
        return series_dict(g.var(ddof=int(base[-1])))
    if base in ("gstd0", "gstd1"):
        return series_dict(g.std(ddof=int(base[-1])))
    raise ValueError(name)


def close(a, b, exact=False):
    if isinstance(a, float) and math.isnan(a):
        return isinstance(b, float) and math.isnan(b)
    if isinstance(b, float) and math.isnan(b):
        return False
    if exact:
        return a == b
    return abs(a - b) <= 1e-9 * max(1.0, abs(a), abs(b))


def same(name, obs, exp):
    """Observed equals pandas.  value_counts: entries with count 0 are ignored."""
    base = name.split("@")[0]
    exact = base in EXACT or base in ("df.sum", "df.count", "df.size")
    if isinstance(exp, dict):
        if not isinstance(obs, dict):
            return False
        if base == "vc":
            obs = {k: v for k, v in obs.items() if v != 0}
        if set(obs) != set(exp):
            return False
        return all(close(obs[k], exp[k], exact) for k in exp)
    if isinstance(obs, dict):
        return False
    return close(obs, exp, exact)


# ------------------------------------------------------------------ real code, direct level

def direct_objects(case, stream):
    from streamz.dataframe import aggregations as A
    if case["diff"] == "iloc":
        diff, window = A.diff_iloc, case["w"]
    else:
        diff, window = A.diff_loc, pd.Timedelta(case["w"], "ns")
    g = None if stream else "k"
    aggs = {
        "sum": A.Sum(), "count": A.Count(), "size": A.Size(), "mean": A.Mean(),
        "var0": A.Var(ddof=0), "var1": A.Var(ddof=1), "vc": A.ValueCounts(),
        "gsum": A.GroupbySum("x", grouper=g), "gcount": A.GroupbyCount("x", grouper=g),
        "gsize": A.GroupbySize("x", grouper=g), "gmean": A.GroupbyMean("x", grouper=g),
        "gvar0": A.GroupbyVar("x", grouper=g, ddof=0), "gvar1": A.GroupbyVar("x", grouper=g, ddof=1),
    }
    return A, diff, window, aggs


def run_direct(case, stream):
    """-> per batch: {name: {"res":..., "dfs":..., ...} | {"raised": "Type"}}"""
    A, diff, window, aggs = direct_objects(case, stream)
    accs = {n: None for n in aggs}
    out = []
    for rows in case["batches"]:
        df = mkframe(rows)
        step = {}
        for n, agg in aggs.items():
            try:
                if n in SCALAR:
                    acc, res = A.window_accumulator(accs[n], df["x"], diff=diff, window=window, agg=agg)
                else:
                    new = (df, df["k"]) if stream else df
                    acc, res = A.windowed_groupby_accumulator(accs[n], new, diff=diff, window=window, agg=agg)
            except Exception as e:          # the accumulate node keeps its previous state
                step[n] = {"raised": type(e).__name__, "msg": str(e)[:200]}
                continue
            accs[n] = acc
            try:
                o = {"res": canon_obs(n, res), "dfs": [[int(i) for i in d.index.asi8] for d in acc["dfs"]]}
                if n == "mean":
                    o["state"] = [num(acc["state"][0]), num(acc["state"][1])]
                if n == "var1":
                    o["state"] = [num(v) for v in acc["state"]]
                if n in GROUP:
                    o["size_state"] = series_dict(acc["size-state"])
                    if "groupers" in acc:
                        o["groupers"] = [[int(v) for v in gr] for gr in acc["groupers"]]
            except Exception as e:      # a result / state that is not a number or a numeric Series
                step[n] = {"raised": "Unreadable" + type(e).__name__, "msg": "result %r: %s" % (res, e)}
                continue
            step[n] = o
        out.append(step)
    return out


# ------------------------------------------------------------------ real code, API level

def _gsel(kind):
    if kind == "col":
        return lambda sdf, w: "k"
    if kind == "list":
        return lambda sdf, w: ["k"]
    if kind == "wser":
        return lambda sdf, w: w.k
    if kind == "ndarr":
        # the grouper is a stream of plain numpy arrays (np.where(...) buckets, codes): one array of keys per batch
        return lambda sdf, w: sdf.k.map_partitions(lambda s: s.values, sdf.k)
    return lambda sdf, w: sdf.k


def api_pipeline(name, sdf, w):
    base, _, gk = name.partition("@")
    if base in TRANSFORMS:
        tr, agg = TRANSFORMS[base]
        return getattr(tr(w), agg)()
    if base == "tr.rk.gsum":
        return w.groupby(3 - w.k).x.sum()
    if base == "sum":
        return w.x.sum()
    if base == "count":
        return w.x.count()
    if base == "size":
        return w.x.size
    if base == "mean":
        return w.x.mean()
    if base in ("var0", "var1"):
        return w.x.var(ddof=int(base[-1]))
    if base in ("std0", "std1"):
        return w.x.std(ddof=int(base[-1]))
    if base == "vc":
        return w.x.value_counts()
    if base == "df.sum":
        return w.sum()
    if base == "df.count":
        return w.count()
    if base == "df.mean":
        return w.mean()
    if base == "df.size":
        return w.size
    if base in ("df.var0", "df.var1"):
        return w.var(ddof=int(base[-1]))
    g = w.groupby(_gsel(gk or "col")(sdf, w))
    if gk == "frame":
        g = w.groupby("k")
    else:
        g = g.x
    if base == "gsum":
        return g.sum()
    if base == "gcount":
        return g.count()
    if base == "gsize":
        return g.size()
    if base == "gmean":
        return g.mean()
    if base in ("gvar0", "gvar1"):
        return g.var(ddof=int(base[-1]))
    if base in ("gstd0", "gstd1"):
        return g.std(ddof=int(base[-1]))
    raise ValueError(name)


API_NAMES = (
    ["sum", "count", "size", "mean", "var0", "var1", "std0", "std1", "vc",
     "df.sum", "df.count", "df.mean", "df.size", "df.var1"]
    + [b + "@" + g for b in ["gsum", "gcount", "gsize", "gmean", "gvar0", "gvar1", "gstd1"]
       for g in ["col", "list", "wser", "sser", "ndarr"]]
    + ["gsum@frame", "gmean@frame", "gcount@frame"]
    + sorted(TRANSFORMS) + ["tr.rk.gsum"]
)


def run_api(case, name):
    """Full API.  -> per batch: observation dict (as run_direct) for pipeline `name`."""
    from streamz.dataframe import DataFrame
    example = mkframe([[0, 1, 0]])
    sdf = DataFrame(example=example)
    with_state = "std" not in name
    # every spelling of the window size: keyword or positional; a row count as Python int or numpy integer scalar (a size read from
    # an array or a frame); a duration as pd.Timedelta
    spell, nf = case.get("spell", "kw"), case.get("n_form", "int")
    if case["diff"] == "iloc":
        nw = case["w"] if nf == "int" else getattr(np, nf)(case["w"])
        w = sdf.window(nw, with_state=with_state) if spell == "pos" else sdf.window(n=nw, with_state=with_state)
    else:
        val = pd.Timedelta(case["w"], "ns")
        w = sdf.window(val, with_state=with_state) if spell == "pos" else sdf.window(value=val, with_state=with_state)
    try:
        L = api_pipeline(name, sdf, w).stream.sink_to_list()
    except Exception as e:      # noqa: BLE001 - building the pipeline runs the accumulator on the example frame
        return [{"raised": type(e).__name__, "msg": "while the pipeline was built: " + str(e)[:200]} for _ in case["batches"]]
    out = []
    for rows in case["batches"]:
        before = len(L)
        try:
            sdf.emit(mkframe(rows))
        except Exception as e:
            out.append({"raised": type(e).__name__, "msg": str(e)[:200]})
            continue
        if len(L) != before + 1:
            out.append({"raised": "NoEmission", "msg": "%d results for one batch" % (len(L) - before)})
            continue
        r = L[-1]
        o = {}
        if with_state:
            acc, r = r
            o["dfs"] = [[int(i) for i in d.index.asi8] for d in acc["dfs"]]
        try:
            o["res"] = canon_obs(name, r)
        except Exception as e:
            o = {"raised": "Unreadable" + type(e).__name__, "msg": "result %r: %s" % (r, e)}
        out.append(o)
    return out


# ------------------------------------------------------------------ model

def model_lines(case):
    d = case["diff"]
    lines = [{"op": "reset", "diff": d, "w": case["w"], "stream": bool(case.get("stream"))}]
    for rows in case["batches"]:
        lines.append({"op": "batch", "rows": rows})
    return lines


def frac(s):
    return None if s is None else Fraction(s)


def model_value(name, ans):
    """Model result of aggregation `name` in the same canonical form as canon_obs (floats)."""
    v = ans[name]
    if v == "assert":
        return "assert"
    if name == "sum":
        return float(frac(v))
    if name == "mean":
        return float("nan") if v is None else float(frac(v))
    if name in ("count", "size"):
        return float(v)
    if name in ("var0", "var1"):
        return float("nan") if v is None else float(frac(v))
    if name == "vc":
        return {_key(frac(k)): float(c) for k, c in v}
    if name in ("gsum",):
        return {k: float(frac(x)) for k, x in v}
    if name in ("gcount", "gsize"):
        return {k: float(x) for k, x in v}
    return {k: (float("nan") if x is None else float(frac(x))) for k, x in v}


def _key(q):
    return int(q) if q.denominator == 1 else float(q)


def has_dup_keys(name, ans):
    v = ans[name]
    return isinstance(v, list) and len({json_key(p[0]) for p in v}) != len(v)


def json_key(k):
    return str(k)


# ------------------------------------------------------------------ checking one case

def classify(case, k, name, o, win, prefix):
    """Stable signature naming the failing mechanism.  When the accumulator state was observed
    the retained frames decide: wrong rows retained -> the diff function; right rows, wrong
    number -> the aggregation."""
    base = name.split("@")[0]
    obs = o["res"]
    retained_ok = None
    if "dfs" in o:
        retained_ok = [i for d in o["dfs"] for i in d] == [int(i) for i in win.index.asi8]
    if case["diff"] == "loc" and retained_ok is False:
        if _buggy_loc_explains(case, k, o):
            return "diff-loc-inclusive-cut"
        got = [i for d in o["dfs"] for i in d]
        want = [int(i) for i in win.index.asi8]
        return "loc:window-rows-missing" if len(got) < len(want) else "loc:rows-outside-window-retained"
    if case["diff"] == "iloc" and retained_ok is False:
        return "iloc:retained-rows"
    if base == "mean" and not isinstance(obs, dict) and _mean_plus_one(obs, win):
        return "mean-substitute-persisted"
    if case["diff"] == "loc" and retained_ok is None:
        bwin = mkframe(buggy_loc_rows(case, k))
        try:
            if len(bwin) != len(win) and not (isinstance(obs, float) and math.isnan(obs)) and same(name, obs, expected(name, bwin)):
                return "diff-loc-inclusive-cut"
        except Exception:
            pass
    return "%s:%s" % (case["diff"], base)


def _buggy_loc_explains(case, k, o):
    return [i for d in o["dfs"] for i in d] == [r[0] for r in buggy_loc_rows(case, k)]


def _mean_plus_one(obs, win):
    c = int(win["x"].count())
    s = float(win["x"].sum())
    return isinstance(obs, float) and not math.isnan(obs) and close(obs, s / (c + 1))


def jsafe(x):
    """JSON-able (string keys, no NaN objects) rendering of an observation for the replay file."""
    if isinstance(x, dict):
        return {str(k): jsafe(v) for k, v in x.items()}
    if isinstance(x, (list, tuple)):
        return [jsafe(v) for v in x]
    if isinstance(x, float) and (math.isnan(x) or math.isinf(x)):
        return repr(x)
    return x


def check_obs(ctx, case, k, name, o, win, prefix, level, crashed=None, hint=None):
    """Model-free oracle on one observation.  `crashed`: names of pipelines of this case whose
    value window already lost its newest row (IndexError in diff_loc) - everything they do
    afterwards (restart from an empty accumulator) is attributed to that mechanism."""
    base = name.split("@")[0]
    crashed = crashed if crashed is not None else set()
    if "raised" in o:
        sig = "raised:%s:%s" % (o["raised"], base)
        if case["diff"] == "loc" and (o["raised"] == "IndexError" or name in crashed):
            sig = "diff-loc-inclusive-cut"       # the newest row itself was cut away: the deque ran empty
            crashed.add(name)
        ctx.failure(sig,
                    "%s %s raised %s (%s) at batch %d" % (level, name, o["raised"], o.get("msg"), k),
                    case, observed=jsafe(o), oracle="the aggregation emits a result for every batch")
        return False
    exp = expected(name, win)
    obs = o["res"]
    if same(name, obs, exp):
        return True
    if name in crashed:
        sig = "diff-loc-inclusive-cut"
    elif "dfs" not in o and hint:
        sig = hint          # no state observable (std): the accumulator-level run of this case names the mechanism
    else:
        sig = classify(case, k, name, o, win, prefix)
    ctx.failure(sig, "%s %s after batch %d: observed %r, pandas on the window %r" % (level, name, k, obs, exp),
                case, expected=jsafe(exp), observed=jsafe(obs),
                oracle="result == pandas(%s) on the window slice of the concatenated prefix" % base)
    return False


def check_case(ctx, case, answers):
    """Runs the real code at both levels, the oracle, and the comparison with the model."""
    stream = bool(case.get("stream"))
    ctx.count("diff:" + case["diff"])
    ctx.count("grouper:" + ("stream" if stream else "column"))
    _TZ[0] = case.get("tz")
    if _TZ[0]:
        ctx.count("tz-aware-index")
    batches = case["batches"]
    frames = [mkframe(b) for b in batches]
    prefixes, wins = [], []
    for k in range(len(batches)):
        p = pd.concat(frames[:k + 1])
        prefixes.append(p)
        wins.append(window_slice(case, p))
    total = sum(len(b) for b in batches)
    decayed = total - len(wins[-1]) if batches else 0
    keys_left = keys_back = False
    seen, gone = set(), set()
    for k in range(len(batches)):
        cur = set(int(v) for v in wins[k]["k"])
        if gone & cur:
            keys_back = True
        gone = (gone | (seen - cur)) - cur
        if seen - cur:
            keys_left = True
        seen |= cur
    if any(len(b) > (case["w"] if case["diff"] == "iloc" else 10 ** 30) for b in batches):
        ctx.count("batch-larger-than-window")
    if any(not b for b in batches[1:]):
        ctx.count("empty-batch-inside-run")
    if keys_left:
        ctx.count("key-left-window")
    if keys_back:
        ctx.count("key-reentered-window")
    if decayed:
        ctx.count("rows-decayed")
    ctx.case(case, nontrivial=decayed > 0)

    slog = logging.getLogger("streamz")
    level = slog.level
    slog.setLevel(logging.CRITICAL + 1)      # accumulate logs every exception it re-raises
    try:
        _check_case(ctx, case, answers, stream, batches, prefixes, wins)
    finally:
        slog.setLevel(level)


def _check_case(ctx, case, answers, stream, batches, prefixes, wins):
    with warnings.catch_warnings():
        warnings.simplefilter("ignore")
        direct = run_direct(case, stream)
        ok = True
        crashed = set()
        for k, step in enumerate(direct):
            for name, o in step.items():
                ok &= check_obs(ctx, case, k, name, o, wins[k], prefixes[k], "direct", crashed)
        # mechanism seen at the accumulator level: wrong rows retained after batch j (for pipelines
        # whose state cannot be observed)
        hints, cur = [], None
        for k, step in enumerate(direct):
            o = step.get("sum", {})
            if cur is None:
                if o.get("raised") == "IndexError" and case["diff"] == "loc":
                    cur = "diff-loc-inclusive-cut"
                elif "dfs" in o and [i for d in o["dfs"] for i in d] != [int(i) for i in wins[k].index.asi8]:
                    cur = classify(case, k, "sum", o, wins[k], prefixes[k])
            hints.append(cur)
        for name in case.get("api", []):
            obs = run_api(case, name)
            ctx.count("api:" + name.split("@")[0])
            crashed = set()
            for k, o in enumerate(obs):
                ok &= check_obs(ctx, case, k, name, o, wins[k], prefixes[k], "api", crashed, hints[k])
                # API level and direct level must see the same retained frames
                if "dfs" in o and "sum" in direct[k] and "dfs" in direct[k]["sum"] and o["dfs"] != direct[k]["sum"]["dfs"]:
                    ctx.disagreement("api %s retains %r, direct level %r (batch %d)" % (name, o["dfs"], direct[k]["sum"]["dfs"], k), case)
                    ok = False

    if answers is None:
        return
    # ---- comparison with the Lean model
    bad = None
    for k, step in enumerate(direct):
        ans = answers[1 + k]
        if "bad-op" in ans:
            bad = "model answered %r" % (ans,)
            break
        for name, o in step.items():
            if has_dup_keys(name, ans):
                bad = "model result %s has duplicate keys: %r" % (name, ans[name])
                break
            if "raised" in o:
                if o["raised"] == "AssertionError" and model_value(name, ans) == "assert":
                    continue
                bad = "batch %d %s: code raised %s, model %r" % (k, name, o["raised"], ans[name])
                break
            mv = model_value(name, ans)
            if mv == "assert" or not same_model(name, o["res"], mv):
                bad = "batch %d %s: code %r, model %r" % (k, name, o["res"], mv)
                break
            mdfs = ans["dfs"] if name in SCALAR else ans["gdfs"]
            if o["dfs"] != mdfs:
                bad = "batch %d %s: retained frames code %r, model %r" % (k, name, o["dfs"], mdfs)
                break
            if name == "mean":
                ms = [float(frac(ans["mean_state"][0])), float(ans["mean_state"][1])]
                if o["state"] != ms:
                    bad = "batch %d Mean state: code %r, model %r" % (k, o["state"], ms)
                    break
            if name == "var1":
                ms = [float(frac(ans["var_state"][0])), float(frac(ans["var_state"][1])), float(ans["var_state"][2])]
                if o["state"] != ms:
                    bad = "batch %d Var state: code %r, model %r" % (k, o["state"], ms)
                    break
            if name in GROUP:
                if o["size_state"] != {kk: float(v) for kk, v in ans["gsize_state"]}:
                    bad = "batch %d %s size-state: code %r, model %r" % (k, name, o["size_state"], ans["gsize_state"])
                    break
                if o.get("groupers") != ans["groupers"]:
                    bad = "batch %d %s groupers: code %r, model %r" % (k, name, o.get("groupers"), ans["groupers"])
                    break
        if bad:
            break
    if bad:
        ctx.disagreement(bad, case)
    else:
        ctx.coverage["traces_validated_against_impl"] += 1


def same_model(name, obs, mv):
    """Code vs model: same keys (zero entries of value_counts included), same numbers."""
    exact = name in EXACT
    if isinstance(mv, dict):
        if not isinstance(obs, dict) or set(obs) != set(mv):
            return False
        return all(close(obs[k], mv[k], exact) for k in mv)
    return not isinstance(obs, dict) and close(obs, mv, exact)


# ------------------------------------------------------------------ generators

VALUES = [None, None, 0, 1, 1, 2, 3, 5, -2, 7]


def gen_rows(rng, n, t, step, keys, nan_run):
    rows = []
    for _ in range(n):
        t += rng.choice(step)
        v = None if nan_run else rng.choice(VALUES)
        rows.append([t, v, rng.choice(keys)])
    return rows, t


def gen_case(rng, thorough):
    diff = rng.choice(["iloc", "loc"])
    stream = rng.random() < 0.5
    nb = rng.randint(1, 7 if not thorough else 10)
    if diff == "iloc":
        w = rng.choice([1, 1, 2, 3, 4]) if rng.random() < 0.9 else rng.choice([5, 8])
        gran = rng.choice(["s", "ns"])
    else:
        gran = rng.choice(["s", "s", "ns", "mixed"]) if not thorough else rng.choice(["s", "ns", "ns", "mixed", "mixed"])
        w = rng.randint(1, 5)
    # index increments (non-decreasing, ties allowed)
    if gran == "s":
        step = [0, S, S, 2 * S, 3 * S]
        W = w * S if diff == "loc" else w
    elif gran == "ns":
        step = [0, 0, 1, 1, 2, 3]
        W = w
    else:   # seconds plus a few nanoseconds: lands exactly on / next to the window boundary
        step = [0, 1, S - 1, S, S, S + 1, 2 * S, 2 * S - 1]
        W = w * S if diff == "loc" else w
    t = rng.choice([0, 5 * S, 1_600_000_000 * S])
    keyset = rng.choice([[0, 1], [0, 1, 2], [0, 1, 2, 3], [0]])
    batches = []
    phase_keys = keyset
    for i in range(nb):
        r = rng.random()
        if r < 0.18:
            n = 0
        elif r < 0.55:
            n = rng.randint(1, 2)
        elif r < 0.85:
            n = rng.randint(2, 4)
        else:
            n = rng.randint(5, 8)        # larger than the window
        if rng.random() < 0.35:           # keys leave and re-enter: restrict the alphabet for a while
            phase_keys = [rng.choice(keyset)] if rng.random() < 0.6 else keyset
        rows, t = gen_rows(rng, n, t, step, phase_keys, nan_run=rng.random() < 0.15)
        batches.append(rows)
    if rng.random() < 0.15:
        batches.insert(0, [])             # empty first batch
    napi = 2 if not thorough else 3
    api = rng.sample(API_NAMES, napi)
    case = {"diff": diff, "w": W, "gran": gran, "stream": stream, "batches": batches, "api": api}
    if rng.random() < 0.4:
        case["spell"] = "pos"
    if rng.random() < 0.2:
        case["tz"] = rng.choice(["UTC", "Europe/Berlin", "America/New_York"])     # a time-zone-aware DatetimeIndex
    if diff == "iloc" and rng.random() < 0.4:
        case["n_form"] = rng.choice(["int64", "int32", "int16"])      # (unsigned numpy scalars wrap in diff_iloc's subtraction: not a spelling the property covers)
    return case


CORPUS = [
    # diff_loc boundary: the row at exactly mx - T + 1ns shares its batch with an older row
    {"diff": "loc", "w": 3, "gran": "ns", "stream": False, "api": ["sum", "gsum@col", "count"],
     "batches": [[[1, 1, 0], [2, 2, 1]], [[3, 3, 0], [4, None, 1]]]},
    {"diff": "loc", "w": 2 * S, "gran": "mixed", "stream": True, "api": ["mean", "gsize@wser"],
     "batches": [[[5 * S, 1, 0], [5 * S + 1, 2, 1], [6 * S, 3, 0]], [[7 * S, 5, 2]], [], [[7 * S, 1, 1], [9 * S, 2, 1]]]},
    # Mean: empty first batch, all-NaN window, then values
    {"diff": "iloc", "w": 2, "gran": "s", "stream": False, "api": ["mean", "df.mean", "gmean@col"],
     "batches": [[], [[S, 1, 0], [2 * S, 2, 1]], [[3 * S, 3, 0], [4 * S, None, 1]], [], [[5 * S, 5, 2], [5 * S, 6, 2], [6 * S, 7, 0]]]},
    {"diff": "iloc", "w": 1, "gran": "s", "stream": False, "api": ["mean", "std1"],
     "batches": [[[S, None, 0]], [[2 * S, 5, 0]], [[3 * S, None, 1]], [[4 * S, 7, 1], [5 * S, 3, 0]]]},
    {"diff": "loc", "w": 2 * S, "gran": "s", "stream": False, "api": ["mean", "vc"],
     "batches": [[[S, None, 0], [S, None, 1]], [[2 * S, 4, 0]], [[9 * S, None, 0]], [[10 * S, 6, 1]]]},
    # batch larger than the window, keys leaving and re-entering
    {"diff": "iloc", "w": 3, "gran": "s", "stream": True, "api": ["gsum@sser", "gvar1@wser", "gcount@list"],
     "batches": [[[S, 1, 0], [2 * S, 2, 1], [3 * S, 3, 2], [4 * S, 5, 0], [5 * S, 7, 0]], [], [[6 * S, 1, 0], [7 * S, 2, 0], [8 * S, 3, 0]],
                 [[9 * S, None, 1]], [[10 * S, 2, 2], [11 * S, 2, 2], [12 * S, 2, 2], [13 * S, 2, 1]]]},
    {"diff": "loc", "w": 3 * S, "gran": "s", "stream": True, "api": ["gmean@sser", "gstd1@col", "df.sum"],
     "batches": [[[0, 1, 0], [S, 2, 1], [S, 3, 1]], [[2 * S, 5, 2]], [], [[8 * S, 1, 0], [8 * S, 1, 0], [9 * S, 2, 1], [10 * S, None, 1], [12 * S, 4, 0]], [[12 * S, 0, 3]]]},
    {"diff": "loc", "w": 2 * S, "gran": "s", "stream": False, "api": ["sum", "gsum@col", "count"], "tz": "Europe/Berlin",
     "batches": [[[1 * S, 1, 0], [2 * S, 2, 1]], [[3 * S, 3, 0]], [[4 * S, 4, 1], [5 * S, 5, 1]]]},
    {"diff": "loc", "w": 3 * S, "gran": "s", "stream": True, "api": ["mean", "gmean@wser"], "tz": "UTC",
     "batches": [[[1 * S, 1, 0]], [[2 * S, 2, 1], [3 * S, 3, 0]], [], [[7 * S, 4, 1]]]},
    {"diff": "iloc", "w": 2, "gran": "s", "stream": False, "api": ["sum", "gsum@col"], "n_form": "int64", "spell": "kw",
     "batches": [[[1 * S, 1, 0], [2 * S, 2, 1]], [[3 * S, 3, 0]], [[4 * S, 4, 1], [5 * S, 5, 1]]]},
    {"diff": "iloc", "w": 4, "gran": "ns", "stream": False, "api": ["vc", "size", "df.size"],
     "batches": [[[1, 2, 0], [1, 2, 0], [2, 3, 0]], [[2, 2, 1], [3, None, 1]], [[4, 3, 0], [5, 3, 0], [5, 3, 0], [6, 3, 1], [7, 1, 1]]]},
]


def run(ctx):
    ctx.audit()
    ctx.assumptions += [
        "index labels are integers (nanoseconds of a DatetimeIndex); value windows assume a non-decreasing index over the whole run (the documented requirement of window(value=...)) and T >= 1ns",
        "values are small-integer valued floats or NaN, so sums, counts and sums of squares are exact in binary64 and equal the model's rationals; quotients (mean, var, std) are compared with relative/absolute tolerance 1e-9",
        "std is var ** 0.5 applied by a downstream map node; it is checked against pandas at the API level only",
        "Mean is modelled as repaired by the C06 fix (NaN for a window without any non-NaN value, true count stored); on a tree without that fix the oracle reports signature mean-substitute-persisted",
        "before any row has been seen a column's var / std is NaN like pandas' (Var used to raise ZeroDivisionError there: repaired in /repo 445f1a7, and judged like every other batch)",
        "value_counts keeps entries whose count dropped to 0; the oracle ignores zero entries (every value present in the window is reported with its exact count)",
        "var/std with ddof in {0, 1} only",
        "group keys are integers (no NaN keys); the streaming grouper is derived from the same source batch as the frame (zip of two branches of one source)",
    ]
    n = 140 if not ctx.thorough() else 2000
    cases = [dict(c) for c in CORPUS] + [gen_case(ctx.rng, ctx.thorough()) for _ in range(n)]
    lines, spans = [], []
    for c in cases:
        ml = model_lines(c)
        spans.append((len(lines), len(lines) + len(ml)))
        lines += ml
    answers = common.lean_driver("Window", lines)
    for c, (a, b) in zip(cases, spans):
        check_case(ctx, c, answers[a:b])
    ctx.coverage["rule"] = (
        "corpus of boundary cases + seeded generator: window n in 1..8 rows or T in 1..5 (seconds on second-granular, nanoseconds on "
        "nanosecond-granular, seconds on mixed second+-1ns timestamps), 1-10 batches of 0-8 rows with ties, empty batches (also first), "
        "all-NaN runs, key alphabets restricted for a while so that keys leave and re-enter; column or streaming grouper. Per case: 13 "
        "aggregations at the accumulator level after every batch + 2-3 full-API pipelines. Non-trivial: at least one row decayed out of the "
        "window. Distinct = distinct case JSON.")


def replay(ctx, data):
    ctx.audit()
    case = data["case"]
    answers = common.lean_driver("Window", model_lines(case))
    check_case(ctx, case, answers)
    ctx.coverage["rule"] = "replay of one recorded case"
