"""C05 — checkpoint liveness/balance: counts equal live holders and return to zero.

Lean: Model/Graph.lean (retain/release effects, RefTable), Props/C05.lean.  Correspondence:
reference counts of every counter after every operation and the set of callbacks fired by
it, implementation vs model (blocking mode and virtual loop with harness-completed
consumers).  Oracle (model-free): count == number of legitimate holders computed from the
node's documented meaning (unfilled partition/window, latest value of a combining node,
unflushed collect, unfinished asynchronous consumer); never negative.
"""
from .. import asynccheck as ac, graphcheck
from . import _async_common as A
from .c02 import corr_modules, lean_extra

ASPECTS = ("flow", "err", "counts", "fires", "starts")
CHECKS = ("sem", "refs")
SIGS = ("count-mismatch", "negative-count")
SIGS_B = ("final-count", "count-resurrected", "negative-count", "callback-missing")

CORPUS = [
    # partition_unique keep=last: the replaced element is falsy (0, then None) - its reference must be released all the same
    {"mode": "sync", "nodes": [{"kind": "source", "ups": []}, {"kind": "partition_unique", "ups": [0], "n": 2, "key": ["modk", 2], "keep": "last"},
                               {"kind": "sink", "mode": "sync", "f": ["id"], "ups": [1]}],
     "ops": [{"op": "emit", "node": 0, "val": v, "md": [{"tag": i + 1, "ref": i + 1}]} for i, v in enumerate((0, 2, 4, 1, 0, 2, 3))]},
    {"mode": "sync", "nodes": [{"kind": "source", "ups": []}, {"kind": "partition_unique", "ups": [0], "n": 3, "key": ["bucketNone", 3], "keep": "last"},
                               {"kind": "sink", "mode": "sync", "f": ["id"], "ups": [1]}],
     "ops": [{"op": "emit", "node": 0, "val": v, "md": [{"tag": i + 1, "ref": i + 1}]} for i, v in enumerate((None, 3, 0, 1, 6, 2))]},
    {"mode": "sync", "nodes": [{"kind": "source", "ups": []}, {"kind": "partition_unique", "ups": [0], "n": 2, "key": ["modk", 2], "keep": "first"},
                               {"kind": "sink", "mode": "sync", "f": ["id"], "ups": [1]}],
     "ops": [{"op": "emit", "node": 0, "val": v, "md": [{"tag": i + 1, "ref": i + 1}]} for i, v in enumerate((0, 2, 4, 1, 3))]},
    {"mode": "async", "nodes": [{"kind": "source", "ups": []}, {"kind": "collect", "ups": [0]}, {"kind": "sink", "mode": "async", "ups": [1]}],
     "ops": [{"op": "emit", "node": 0, "val": 1, "md": [{"tag": 1, "ref": 1}]}, {"op": "flush", "node": 1}, {"op": "sinkdone", "tok": 0}]},
]


def run(ctx):
    ctx.audit(extra_modules=lean_extra("C05"))
    n = 300 if not ctx.thorough() else 10000
    graphcheck.run_family(ctx, n, ASPECTS, CHECKS, SIGS, corpus=CORPUS, flavours=("future", "coro", "tornado"))
    # asynchronous holding nodes: balance at the final quiescent point, never negative, never rising after zero
    A.sweep(ctx, n // 2, A.ALL_KINDS, ["balance"], SIGS_B, opts={"small_alphabet": True, "p_nomd": 0.2})
    # ... with start() / stop();start() on nodes of the running pipeline (a stopped worker or poller must not strand a reference)
    A.sweep(ctx, n // 6, A.ALL_KINDS, ["balance"], SIGS_B, opts={"small_alphabet": True, "p_start": 0.18, "p_restart": 0.6})
    from .c02 import saturation_races
    for i, (nodes, script) in enumerate(saturation_races(ctx.thorough())):
        case, obs = ac.run_adaptive(nodes, ctx.rng, len(script), opts={"script": script}, flavour=("future", "coro", "tornado")[i % 3])
        ac.evaluate(ctx, case, obs, ["balance"], SIGS_B)
        ctx.count("directed:map_async-races-and-restarts")
    for m in corr_modules():
        m.run(ctx, "C05", 30 if not ctx.thorough() else 1000)
    ctx.coverage["rule"] = ("as C01 with a fresh reference counter on ~80% of the metadata entries; counts are read after every operation "
                            "(each is a quiescent point: the synchronous part has finished and the loop has settled). "
                            "Non-trivial: pipeline has a holding/dropping node and >= 8 flow events.")
    ctx.assumptions += ["asynchronous holding nodes (buffer, delay, timed windows, map_async, latest) are covered by the per-node event-loop models, not by this deterministic model",
                        "runs in which a user function raised are excluded from the balance oracle (retains made by aborted frames stay, by design)"]


def replay(ctx, data):
    ctx.audit(extra_modules=lean_extra("C05"))
    case = data["case"]
    if any(op["op"] in ("advance", "settle", "jobdone") for op in case["ops"]):
        ac.evaluate(ctx, case, ac.rerun(case), ["balance"], SIGS_B)
        ctx.coverage["rule"] = "replay of one recorded case"
        return
    graphcheck.replay_case(ctx, data["case"], ASPECTS, CHECKS, SIGS)
    ctx.coverage["rule"] = "replay of one recorded case"
