"""C03 — backpressure: emit waits for downstream, in-flight data is bounded, no deadlock.

Lean: Model/Graph.lean (tokens returned by `_emit` = awaitables; `passRet` per kind), Props/C03.lean
(emit_waits: the awaitable of an emission contains every consumer token started through
transparent nodes), per-node event-loop models for the bounds and "no lost wake-up"
(Props/AsyncBuffer.lean: buffer, map_async; Props/AsyncZip.lean: zip(maxsize)).
Correspondence: (A) deterministic differential of emit-awaitable status against the model while
the harness completes consumers one by one, three consumer flavours; (B) node-group modules.
Oracle (model-free): (A) no emit completes while a transparently reached consumer invocation
is unfinished; (B) on random asynchronous pipelines: same clause, accepted-minus-handed-on <= bound
at every settled point, and no pending emit once every consumer has finished and time has
passed; (C) threaded operation (loop in a background thread, real time, small sample): the
blocking emit returns only after the consumer has finished and re-raises its exception.
"""
import threading
import time

from .. import asynccheck as ac, graphcheck
from . import _async_common as A
from .c02 import corr_modules, lean_extra

ASPECTS = ("flow", "err", "starts", "emits")
CHECKS = ("emitwait",)
SIGS_A = ("emit-early", "emit-stuck")
SIGS_B = ("emit-early", "emit-stuck", "bound-exceeded", "bound-exceeded-by-one", "zip-maxsize-admits-all-blocked", "emit-raised")
KINDS = ["buffer", "buffer", "map_async", "rate_limit", "delay", "timed_window", "partition_timeout"]

CORPUS_A = [
    # slice used to drop the awaitable (repaired 50b9d2a)
    {"mode": "async", "flavour": "coro", "nodes": [{"kind": "source", "ups": []}, {"kind": "slice", "ups": [0], "start": None, "end": None, "step": None},
                                                    {"kind": "sink", "mode": "async", "ups": [1]}],
     "ops": [{"op": "emit", "node": 0, "val": 1, "md": []}, {"op": "emit", "node": 0, "val": 2, "md": []}, {"op": "sinkdone", "tok": 1}, {"op": "sinkdone", "tok": 0}]},
    # one-to-many nodes: the emit waits for the consumers of EVERY piece, whatever order they finish in (last piece first, middle piece last)
    {"mode": "async", "flavour": "future", "nodes": [{"kind": "source", "ups": []}, {"kind": "map", "f": ["rep", 3], "ups": [0]}, {"kind": "flatten", "ups": [1]},
                                                      {"kind": "sink", "mode": "async", "ups": [2]}],
     "ops": [{"op": "emit", "node": 0, "val": 1, "md": []}, {"op": "sinkdone", "tok": 2}, {"op": "sinkdone", "tok": 0}, {"op": "sinkdone", "tok": 1},
             {"op": "emit", "node": 0, "val": 2, "md": []}, {"op": "sinkdone", "tok": 5}, {"op": "sinkdone", "tok": 4}, {"op": "sinkdone", "tok": 3}]},
    {"mode": "async", "flavour": "tornado", "nodes": [{"kind": "source", "ups": []}, {"kind": "map", "f": ["pair"], "ups": [0]}, {"kind": "flatten", "ups": [1]},
                                                       {"kind": "map", "f": ["inc"], "ups": [2]}, {"kind": "sink", "mode": "async", "ups": [3]}, {"kind": "sink", "mode": "async", "ups": [2]}],
     "ops": [{"op": "emit", "node": 0, "val": 5, "md": []}, {"op": "sinkdone", "tok": 3}, {"op": "sinkdone", "tok": 2}, {"op": "sinkdone", "tok": 1}, {"op": "sinkdone", "tok": 0}]},
]

CORPUS_B = [
    # a consumer raises during one zip emission; every later emission must still go through (nothing stays parked)
    {"mode": "async", "flavour": "future", "nodes": [{"kind": "source", "ups": []}, {"kind": "source", "ups": []}, {"kind": "zipmax", "ups": [0, 1], "maxsize": 1},
                                                      {"kind": "map", "f": ["sumTup"], "ups": [2]}, {"kind": "sink", "mode": "sync", "f": ["failIf", 3, 0], "ups": [3]}],
     "ops": [{"op": "settle"}, {"op": "emit", "node": 0, "val": 1, "md": []}, {"op": "emit", "node": 1, "val": 2, "md": []},
             {"op": "emit", "node": 0, "val": 4, "md": []}, {"op": "emit", "node": 1, "val": 6, "md": []},
             {"op": "emit", "node": 0, "val": 7, "md": []}, {"op": "emit", "node": 1, "val": 9, "md": []}, {"op": "advance", "dt": 1}]},
    # three inputs, two of them more than maxsize ahead, then the slow one catches up: every parked emit must complete
    {"mode": "async", "flavour": "future", "nodes": [{"kind": "source", "ups": []}, {"kind": "source", "ups": []}, {"kind": "source", "ups": []},
                                                      {"kind": "zipmax", "ups": [0, 1, 2], "maxsize": 1}, {"kind": "sink", "mode": "sync", "f": ["id"], "ups": [3]}],
     "ops": [{"op": "settle"}] + [{"op": "emit", "node": n, "val": v, "md": []} for v in (1, 2, 3) for n in (0, 2)] +
            [{"op": "emit", "node": 1, "val": v, "md": []} for v in (7, 8, 9)] + [{"op": "advance", "dt": 1}]},
    # recorded: map_async(parallelism=1) has two jobs in flight
    {"mode": "async", "flavour": "future", "nodes": [{"kind": "source", "ups": []}, {"kind": "map_async", "f": ["inc"], "parallelism": 1, "ups": [0]},
                                                      {"kind": "sink", "mode": "sync", "f": ["id"], "ups": [1]}],
     "ops": [{"op": "settle"}] + [{"op": "emit", "node": 0, "val": v, "md": [{"tag": v, "ref": v}]} for v in (1, 2, 3)] +
            [{"op": "jobdone", "job": 0}, {"op": "jobdone", "job": 1}, {"op": "jobdone", "job": 2}, {"op": "advance", "dt": 1}]},
    # recorded: zip(maxsize=1) admits every blocked producer at once
    {"mode": "async", "flavour": "future", "nodes": [{"kind": "source", "ups": []}, {"kind": "source", "ups": []}, {"kind": "zipmax", "ups": [0, 1], "maxsize": 1},
                                                      {"kind": "sink", "mode": "sync", "f": ["id"], "ups": [2]}],
     "ops": [{"op": "settle"}] + [{"op": "emit", "node": 0, "val": v, "md": []} for v in (1, 2, 3, 4)] + [{"op": "emit", "node": 1, "val": 9, "md": []}, {"op": "advance", "dt": 1}]},
]


def threaded_sample(ctx, n):
    """Blocking emit with the loop in a background thread (real time; coarse)."""
    import asyncio
    from streamz import Stream
    for i in range(n):
        delay = 0.01 * (1 + i % 3)
        fail = i % 4 == 3
        state = {"finished": 0}

        async def consumer(x, delay=delay, fail=fail, state=state):
            await asyncio.sleep(delay)
            if fail:
                raise ValueError("consumer failed")
            state["finished"] += 1

        src = Stream(asynchronous=False)
        pipe = src.map(lambda x: x + 1)
        if i % 2:
            pipe = pipe.rate_limit(0.005)
        pipe.sink(consumer)
        raised = None
        t0 = time.time()
        # sync() waits for the loop thread in slices (`while not e.is_set(): e.wait(10)`): in a third of the runs the slices are
        # shortened to 5 ms, so that "the consumer takes longer than one slice" is reachable without waiting ten seconds
        import threading as _threading
        import streamz.core as _sc
        short = i % 3 == 1

        class _FastEvent(_threading.Event):
            def wait(self, timeout=None):
                return _threading.Event.wait(self, None if timeout is None else min(timeout, 0.005))

        class _Shim:
            Event = _FastEvent

            def __getattr__(self, name):
                return getattr(_threading, name)
        if short:
            _sc.threading = _Shim()
        try:
            src.emit(i)
        except Exception as e:  # noqa: BLE001
            raised = type(e).__name__
        finally:
            _sc.threading = _threading
        case = {"threaded": True, "delay": delay, "fail": fail, "rate_limit": bool(i % 2), "short_wait_slices": short}
        ctx.case(case, nontrivial=True)
        ctx.count("threaded")
        if fail and raised != "ValueError":
            ctx.failure("threaded-exception-lost", "blocking emit returned %r although the consumer raised ValueError" % raised, case)
        if not fail and (raised or state["finished"] != 1):
            ctx.failure("threaded-emit-early", "blocking emit returned after %.3fs with the consumer unfinished (finished=%d, raised=%r)"
                        % (time.time() - t0, state["finished"], raised), case)


def threaded_nested_sample(ctx, n):
    """A consumer that re-emits into another loop-bound blocking stream (a.sink(b.emit)) while the loop runs in a
    background thread: the outer blocking emit must return (no deadlock) after the inner consumer has finished."""
    from streamz import Stream
    for i in range(n):
        got = []
        a = Stream(asynchronous=False)
        b = Stream(asynchronous=False)
        if i % 2:
            b = b.map(lambda x: x + 1)
        a.buffer(1) if i % 3 == 2 else None
        b.sink(got.append)
        forwards = 1
        if (i // 6) % 3 == 1:
            # two sibling consumers, each re-emitting into a loop-bound blocking stream, while ONE element is handled
            c = Stream(asynchronous=False)
            c.sink(got.append)
            a.sink(b.emit)
            a.sink(c.emit)
            forwards = 2
        elif (i // 6) % 3 == 2:
            def twice(x, b=b):
                b.emit(x)
                b.emit(x)
            a.sink(twice)
            forwards = 2
        else:
            a.sink(b.emit)
        box = {}

        def work():
            try:
                a.emit(i)
                box["ok"] = True
            except Exception as e:  # noqa: BLE001
                box["err"] = type(e).__name__
        t = threading.Thread(target=work, daemon=True)
        t.start()
        t.join(30)
        case = {"threaded": True, "nested": True, "variant": i % 18}
        ctx.case(case, nontrivial=True)
        ctx.count("threaded-nested")
        if t.is_alive():
            ctx.failure("threaded-nested-emit-deadlock", "blocking emit() did not return within 30 s when its consumer re-emits into another "
                        "blocking stream on the same loop thread (nested emit)", case)
            return
        if box.get("err") or len(got) != forwards:
            ctx.failure("threaded-nested-emit-lost", "nested blocking emit: outer emit %r, inner consumer received %r" % (box, got), case)


SOURCE_SIGS = ("poll-before-downstream-done", "take-before-downstream-done")


def source_backpressure(ctx, n, cases=None):
    """(D) sources await the awaitables of their own emission before reading more (sources.py: from_periodic, from_textfile,
    filenames, from_iterable): the C18 source harness with a consumer that returns a Future the harness resolves later; only the
    two backpressure statements of its oracle are claimed here."""
    import os
    import shutil
    import tempfile
    from . import c18
    if cases is None:
        cases = [c for c in (dict(c) for c in c18.CORPUS) if c.get("sink") == "future"]
        k = 0
        while len(cases) < n and k < 20 * n:
            k += 1
            c = c18.gen_case(ctx.rng, c18.KINDS[k % len(c18.KINDS)])
            if c.get("sink") == "future":
                cases.append(c)
    scratch = tempfile.mkdtemp(prefix="verif-c03-", dir=os.environ.get("VERIF_SCRATCH"))
    try:
        for c in cases:
            log = c18.observe(c, scratch)
            ctx.count("source:" + c["kind"])
            ctx.case({"source": c}, nontrivial=any(ev["e"] == "emit" for ev in log))
            bad = c18.oracle(c, log)
            if bad is not None and bad[0] in SOURCE_SIGS:
                ctx.failure("source:" + bad[0], "%s: %s" % (c["kind"], bad[1]), {"source": c},
                            oracle="a source reads on only when every awaitable its emission returned is done")
    finally:
        shutil.rmtree(scratch, ignore_errors=True)


def run(ctx):
    ctx.audit(extra_modules=lean_extra("C03"))
    n = 150 if not ctx.thorough() else 1200
    graphcheck.run_family(ctx, n, ASPECTS, CHECKS, SIGS_A, modes=("async",), corpus=CORPUS_A, flavours=("future", "coro", "tornado"))
    A.sweep(ctx, n, KINDS, ["backpressure"], SIGS_B, corpus=CORPUS_B)
    for m in corr_modules():
        m.run(ctx, "C03", 40 if not ctx.thorough() else 300)
    threaded_sample(ctx, 12 if not ctx.thorough() else 120)
    threaded_nested_sample(ctx, 18 if not ctx.thorough() else 54)
    source_backpressure(ctx, 60 if not ctx.thorough() else 500)
    ctx.coverage["rule"] = ("(A) graph-family generator in asynchronous mode with harness-completed consumers of three flavours; (B) asynchronous pipelines as in C02 "
                            "with awaited and un-awaited producers; (C) 12/120 threaded blocking emits; (D) 60/500 source histories (from_periodic, from_textfile, "
                            "filenames, from_iterable under start/stop histories) with a consumer whose Future the harness resolves later. Non-trivial as in C01/C02.")
    ctx.assumptions += ["'accepted' = the emit awaitable completed; 'handed on' = the node called _emit; bounds are checked when the node directly follows the entry point",
                        "threaded operation is sampled in real time; OS thread scheduling is not modelled",
                        "a zip producer that is more than maxsize ahead of the other input is legitimately blocked (not a deadlock)"]


def replay(ctx, data):
    ctx.audit(extra_modules=lean_extra("C03"))
    case = data["case"]
    if "source" in case:
        source_backpressure(ctx, 1, [case["source"]])
    elif case.get("threaded") and case.get("nested"):
        threaded_nested_sample(ctx, 18)
    elif case.get("threaded"):
        threaded_sample(ctx, 12)
    elif any(op["op"] in ("advance", "settle", "jobdone") for op in case["ops"]) or any(n["kind"] in ac.HOLDING for n in case["nodes"]):
        ac.evaluate(ctx, case, ac.rerun(case), ["backpressure"], SIGS_B)
    else:
        graphcheck.replay_case(ctx, case, ASPECTS, CHECKS, SIGS_A)
    ctx.coverage["rule"] = "replay of one recorded case"
