"""C16 — failures reach the emitter, keep node state intact, are never checkpointed.

Lean: Model/Graph.lean (`UpdRes.err`, `Res.err` / `Res.carried`, abort semantics of the
interpreter), Props/C16.lean.  Correspondence: deterministic differential (flow, exception
class at emit, awaitable status, callbacks, counts) on pipelines of directly connected nodes
where user functions, sinks and asynchronous consumers fail on chosen inputs, plus
ill-typed inputs.  Oracle (model-free):
  * whenever a user function raised during an emission, the emit call raised that exception
    class (blocking mode) or raised / returned an awaitable carrying it (asynchronous mode);
  * no reference counter of a failed emission ever fires;
  * metamorphic: the emissions of every function node equal those of a FRESH node of the
    same (real) class fed that node's arrivals with the failing ones removed.
"""
import copy

from .. import graphcheck, graphlib

ASPECTS = ("flow", "err", "emits", "fires", "counts", "starts")
FUNCTION_KINDS = ("map", "starmap", "filter", "accumulate", "unique", "partition_unique")


def fresh_outputs(nd, values):
    """Real node of the same class, fresh, fed `values`: list of canon'ed outputs."""
    case = {"mode": "sync", "nodes": [{"kind": "source", "ups": []}, dict(nd, ups=[0]),
                                      {"kind": "sink", "mode": "sync", "f": ["id"], "ups": [1]}],
            "ops": [{"op": "emit", "node": 0, "val": v, "md": []} for v in values]}
    obs = graphlib.run_case(case)
    out = []
    for o in obs:
        out += [e[2] for e in o["log"] if e[0] == "emit" and e[1] == 1]
    return out


def oracle(case, obs):
    problems = []
    nodes = case["nodes"]
    arrivals = {i: [] for i in range(len(nodes))}      # (value, failed?)
    emissions = {i: [] for i in range(len(nodes))}
    failed_refs = set()
    fired = []
    for k, (op, o) in enumerate(zip(case["ops"], obs)):
        log = o["log"]
        raised = [e for e in log if e[0] == "fnraise"]
        status = None
        if op["op"] == "emit" and case["mode"] == "async" and o.get("emits"):
            status = o["emits"][-1]
        if raised and op["op"] == "emit":
            cls = raised[0][2]
            reported = o["err"] == "raised:" + cls or (status or "").startswith("raised:" + cls)
            if not reported:
                problems.append(("exception-swallowed", "op %d %r: the function of node %d (%s) raised %s but emit reported err=%r awaitable=%r"
                                 % (k, op, raised[0][1], nodes[raised[0][1]]["kind"], cls, o["err"], status)))
        failed = bool(raised) or bool(o["err"]) or (status or "").startswith("raised")
        if failed and op["op"] == "emit":
            failed_refs |= {e["ref"] for e in op.get("md", []) if e.get("ref")}
        if op["op"] == "sinkfail":
            pass
        fired += [(k, e[1]) for e in log if e[0] == "fire"]
        last = None
        for e in log:
            if e[0] == "arrive":
                arrivals[e[1]].append([e[3], False])
                last = e[1]
            elif e[0] == "fnraise" and arrivals[e[1]]:
                arrivals[e[1]][-1][1] = True
            elif e[0] == "emit":
                emissions[e[1]].append(e[2])
    # consumer failures: the elements they were handling have failed too
    tok_tags = {}
    ref_of_tag = {e["tag"]: e.get("ref") for op in case["ops"] if op["op"] == "emit" for e in op.get("md", [])}
    for op, o in zip(case["ops"], obs):
        prev = None
        for e in o["log"]:
            if e[0] == "arrive":
                prev = e
            elif e[0] == "start" and prev is not None:
                tok_tags[e[2]] = prev[4]
        if op["op"] == "sinkfail":
            failed_refs |= {ref_of_tag.get(t) for t in tok_tags.get(op["tok"], []) if ref_of_tag.get(t)}
    # a failing awaitable consumer: the awaitable of the emission that started it must carry the exception
    if case["mode"] == "async" and obs and not any(op["op"] == "multi" for op in case["ops"]):
        started_in = {}      # tok -> index (among the emit operations) of the emission during which the consumer was started
        n_emit = 0
        for op, o in zip(case["ops"], obs):
            if op["op"] == "emit":
                for e in o["log"]:
                    if e[0] == "start":
                        started_in[e[2]] = n_emit
                n_emit += 1
        final = obs[-1].get("emits") or []
        for k, (op, o) in enumerate(zip(case["ops"], obs)):
            if op["op"] == "sinkfail" and op["tok"] in started_in and not (o.get("err") or "").startswith("invalid-op"):
                idx = started_in[op["tok"]]
                if idx < len(final) and final[idx] == "done":
                    problems.append(("exception-swallowed", "op %d %r: the awaitable consumer started by emit #%d failed, but the awaitable of that emit "
                                     "completed normally (emit statuses at the end: %r)" % (k, op, idx, final)))
                    break
    for k, r in fired:
        if r in failed_refs:
            problems.append(("failed-callback", "op %d: completion callback of ref %d fired although the processing of its element raised" % (k, r)))
            break
    edited = any(op["op"] in ("connect", "disconnect", "destroy", "drop") for op in case["ops"])
    if not edited:
        for i, nd in enumerate(nodes):
            if nd["kind"] not in FUNCTION_KINDS or not any(f for _, f in arrivals[i]):
                continue
            good = [graphlib.decanon_keep(v) for v, f in arrivals[i] if not f]
            want = fresh_outputs(nd, good)
            if emissions[i] != want:
                problems.append(("state-after-failure:" + nd["kind"],
                                 "node %d (%s): emitted %r; a fresh node fed its arrivals without the failing ones emits %r"
                                 % (i, nd["kind"], emissions[i], want)))
                break
    return problems


CORPUS = [
    # a one-to-many node in front of awaitable consumers: the failure of the consumer of a NON-last piece must reach the emitter
    {"mode": "async", "flavour": "coro", "nodes": [{"kind": "source", "ups": []}, {"kind": "map", "f": ["rep", 3], "ups": [0]}, {"kind": "flatten", "ups": [1]},
                                                    {"kind": "sink", "mode": "async", "ups": [2]}],
     "ops": [{"op": "emit", "node": 0, "val": 1, "md": [{"tag": 1, "ref": 1}]}, {"op": "sinkfail", "tok": 0}, {"op": "sinkdone", "tok": 1}, {"op": "sinkdone", "tok": 2},
             {"op": "emit", "node": 0, "val": 2, "md": [{"tag": 2, "ref": 2}]}, {"op": "sinkdone", "tok": 3}, {"op": "sinkfail", "tok": 4}, {"op": "sinkdone", "tok": 5}]},
    {"mode": "async", "flavour": "future", "nodes": [{"kind": "source", "ups": []}, {"kind": "map", "f": ["pair"], "ups": [0]}, {"kind": "flatten", "ups": [1]},
                                                      {"kind": "map", "f": ["inc"], "ups": [2]}, {"kind": "sink", "mode": "async", "ups": [3]}, {"kind": "sink", "mode": "async", "ups": [2]}],
     "ops": [{"op": "emit", "node": 0, "val": 5, "md": [{"tag": 1, "ref": 1}]}, {"op": "sinkdone", "tok": 3}, {"op": "sinkdone", "tok": 2}, {"op": "sinkfail", "tok": 1},
             {"op": "sinkdone", "tok": 0}]},
    {"mode": "sync", "nodes": [{"kind": "source", "ups": []},
                               {"kind": "accumulate", "ups": [0], "f": ["failAdd", 3, 1], "has_start": False, "start": None, "returns_state": False, "with_state": False},
                               {"kind": "sink", "mode": "sync", "f": ["id"], "ups": [1]}],
     "ops": [{"op": "emit", "node": 0, "val": v, "md": [{"tag": i + 1, "ref": i + 1}]} for i, v in enumerate((2, 1, 3, 4, 5))]},
    {"mode": "async", "nodes": [{"kind": "source", "ups": []}, {"kind": "map", "f": ["failIf", 2, 0], "ups": [0]},
                                {"kind": "sliding_window", "ups": [1], "n": 2, "partial": True}, {"kind": "sink", "mode": "async", "ups": [2]}],
     "ops": [{"op": "emit", "node": 0, "val": 1, "md": [{"tag": 1, "ref": 1}]}, {"op": "emit", "node": 0, "val": 2, "md": [{"tag": 2, "ref": 2}]},
             {"op": "emit", "node": 0, "val": 3, "md": [{"tag": 3, "ref": 3}]}, {"op": "sinkfail", "tok": 0}, {"op": "sinkdone", "tok": 1}]},
    # an awaitable consumer failing below unique(hashable=False) / unique with maxsize: every storage form of unique hands the consumers' awaitables back
    {"mode": "async", "flavour": "future", "nodes": [{"kind": "source", "ups": []}, {"kind": "unique", "ups": [0], "maxsize": None, "key": ["id"], "hashable": False},
                                                      {"kind": "sink", "mode": "async", "ups": [1]}],
     "ops": [{"op": "emit", "node": 0, "val": 1, "md": [{"tag": 1, "ref": 1}]}, {"op": "sinkfail", "tok": 0},
             {"op": "emit", "node": 0, "val": 2, "md": [{"tag": 2, "ref": 2}]}, {"op": "sinkdone", "tok": 1}]},
    {"mode": "async", "flavour": "coro", "nodes": [{"kind": "source", "ups": []}, {"kind": "unique", "ups": [0], "maxsize": 2, "key": ["modk", 3], "hashable": False},
                                                    {"kind": "sink", "mode": "async", "ups": [1]}],
     "ops": [{"op": "emit", "node": 0, "val": 1, "md": [{"tag": 1, "ref": 1}]}, {"op": "sinkdone", "tok": 0},
             {"op": "emit", "node": 0, "val": 2, "md": [{"tag": 2, "ref": 2}]}, {"op": "sinkfail", "tok": 1}]},
    {"mode": "async", "flavour": "tornado", "nodes": [{"kind": "source", "ups": []}, {"kind": "unique", "ups": [0], "maxsize": 1, "key": ["id"], "hashable": True},
                                                       {"kind": "sink", "mode": "async", "ups": [1]}],
     "ops": [{"op": "emit", "node": 0, "val": 1, "md": [{"tag": 1, "ref": 1}]}, {"op": "sinkfail", "tok": 0}]},
    # the user function below a one-to-many node raises StopIteration / KeyError / a falsy exception: no frame on the way up may take it
    # for its own control flow (flatten iterates, pluck indexes, unique looks keys up)
]
for _exc in ("StopIteration", "KeyError", "FalsyError"):
    for _mode in ("sync", "async"):
        CORPUS.append({"mode": _mode, "exc": _exc, "nodes": [{"kind": "source", "ups": []}, {"kind": "map", "f": ["rep", 3], "ups": [0]}, {"kind": "flatten", "ups": [1]},
                                                              {"kind": "map", "f": ["failIf", 2, 0], "ups": [2]}, {"kind": "sink", "mode": "sync", "f": ["id"], "ups": [3]}],
                       "ops": [{"op": "emit", "node": 0, "val": v, "md": [{"tag": i + 1, "ref": i + 1}]} for i, v in enumerate((1, 2, 3))]})
        CORPUS.append({"mode": _mode, "exc": _exc, "nodes": [{"kind": "source", "ups": []}, {"kind": "map", "f": ["pair"], "ups": [0]}, {"kind": "pluck", "pick": 0, "ups": [1]},
                                                              {"kind": "unique", "ups": [2], "maxsize": 2, "key": ["failIf", 3, 1], "hashable": True},
                                                              {"kind": "sink", "mode": "sync", "f": ["failIf", 3, 2], "ups": [3]}],
                       "ops": [{"op": "emit", "node": 0, "val": v, "md": [{"tag": i + 1, "ref": i + 1}]} for i, v in enumerate((3, 1, 2, 4))]})


def evaluate(ctx, case, obs, answers):
    for n in case["nodes"]:
        ctx.count("kind:" + n["kind"])
    ctx.count("mode:" + case["mode"])
    nfail = sum(1 for o in obs for e in o["log"] if e[0] == "fnraise")
    ctx.count("function-failures", nfail)
    ctx.count("ops-with-exception", sum(1 for o in obs if o["err"]))
    ctx.case({"mode": case["mode"], "nodes": case["nodes"], "ops": case["ops"]}, nontrivial=nfail > 0 or any(o["err"] for o in obs))
    probs = oracle(case, obs) + graphcheck.oracle_nodup(case, obs)
    if probs:
        sig, what = probs[0]

        def still(trial):
            o2 = graphcheck.rerun(trial, flavour=case.get("flavour", "future"))
            return any(p[0] == sig for p in oracle(trial, o2) + graphcheck.oracle_nodup(trial, o2))
        ctx.failure(sig, what, graphcheck.shrink(case, still), oracle=sig)
    if answers is not None:
        diff = graphcheck.compare(case, obs, answers, ASPECTS)
        if diff is not None:
            ctx.disagreement(diff, case)
        else:
            ctx.coverage["traces_validated_against_impl"] += 1


def threaded_sample(ctx, n):
    """Blocking emit with the event loop in a background thread (real time, small sample): the
    exception of a failing function / asynchronous consumer must be raised by emit()."""
    import asyncio
    from streamz import Stream
    for i in range(n):
        where = ("map", "async-sink", "sync-sink", "async-sink-after-rate-limit", "second-async-sink", "third-of-three-async-sinks")[i % 6]
        fail_on = i % 3
        from .. import catalogue
        exc_name = ("ValueError", "FalsyError", "KeyError")[(i // 6) % 3]       # (a falsy exception instance: an empty error collection)
        exc_cls = catalogue.EXC_KINDS[exc_name]

        def boom(x, exc_cls=exc_cls):
            if x == fail_on:
                raise exc_cls("user function failed")
            return x

        async def aboom(x):
            await asyncio.sleep(0.002)
            return boom(x)

        src = Stream(asynchronous=False)
        got = []
        if where == "map":
            src.map(boom).sink(got.append)
        elif where == "sync-sink":
            src.sink(boom)
        elif where == "async-sink":
            src.sink(aboom)
        elif where == "second-async-sink":
            # several awaitable consumers of one element: the failure of ANY of them is the failure of the emit
            async def fine(x):
                await asyncio.sleep(0.001)
            src.sink(fine)
            src.sink(aboom)
        elif where == "third-of-three-async-sinks":
            async def fine(x):
                await asyncio.sleep(0.003)
            src.sink(fine)
            src.map(lambda x: x).sink(fine)
            src.sink(aboom)
        else:
            src.rate_limit(0.001).sink(aboom)
        case = {"threaded": True, "where": where, "fail_on": fail_on, "exc": exc_name}
        ctx.case(case, nontrivial=True)
        ctx.count("threaded:" + where)
        for x in range(3):
            raised = None
            try:
                src.emit(x)
            except Exception as e:  # noqa: BLE001
                raised = type(e).__name__
            if x == fail_on and raised != exc_name:
                ctx.failure("threaded-exception-lost:" + where + (":falsy-exception" if exc_name == "FalsyError" else ""),
                            "blocking emit(%d) returned normally (raised=%r) although the %s raised %s" % (x, raised, where, exc_name), case)
            if x != fail_on and raised:
                ctx.failure("threaded-spurious-exception:" + where, "blocking emit(%d) raised %s" % (x, raised), case)


DF_BUILDERS = {
    "sum": lambda sdf: sdf.x.sum(),
    "mean": lambda sdf: sdf.x.mean(),
    "groupby-sum": lambda sdf: sdf.groupby("g").x.sum(),
    "groupby-mean": lambda sdf: sdf.groupby("g").x.mean(),
    "window-sum": lambda sdf: sdf.window(n=3).x.sum(),
    "window-mean": lambda sdf: sdf.window(n=3).x.mean(),
    "window-groupby-sum": lambda sdf: sdf.window(n=3).groupby("g").x.sum(),
    "window-groupby-mean": lambda sdf: sdf.window(n=4).groupby("g").x.mean(),
    "rolling-sum": lambda sdf: sdf.x.rolling(2).sum(),
    "cumsum": lambda sdf: sdf.x.cumsum(),
    "expanding-sum": lambda sdf: sdf.expanding().x.sum(),
}


def dataframe_fault_sample(ctx, n):
    """The same clauses one layer up: the 'user function' of an accumulate node is one of streamz's own dataframe
    accumulators.  A frame that makes it raise (a missing column) must be reported by emit, and the frames that follow
    must give what a fresh pipeline gives for the good frames only (real code as its own reference)."""
    import pandas as pd
    from streamz import Stream
    from streamz.dataframe import DataFrame
    rng = ctx.rng

    def canon(r):
        return r.to_json() if isinstance(r, (pd.DataFrame, pd.Series)) else repr(r)

    def run_df(name, frames):
        src = Stream()
        sdf = DataFrame(src, example=pd.DataFrame({"x": [1.0], "g": [0]}))
        out, errs = [], []
        DF_BUILDERS[name](sdf).stream.sink(out.append)
        for f in frames:
            try:
                src.emit(f)
                errs.append(None)
            except Exception as e:  # noqa: BLE001
                errs.append(type(e).__name__)
        return [canon(r) for r in out], errs

    names = sorted(DF_BUILDERS)
    for i in range(n):
        name = names[i % len(names)]
        sizes = [rng.choice([1, 1, 2, 3]) for _ in range(rng.randint(3, 6))]
        v = 0
        good = []
        for sz in sizes:
            good.append(pd.DataFrame({"x": [float(v + j + 1) for j in range(sz)], "g": [rng.choice([0, 1, 2]) for _ in range(sz)]}))
            v += sz
        k = rng.randint(1, len(good) - 1)
        bad = pd.DataFrame({"y": [9.0], "g": [rng.choice([0, 1])]}) if rng.random() < 0.7 else pd.DataFrame({"x": [9.0], "h": [1]})
        case = {"dataframe": True, "agg": name, "sizes": sizes, "bad_at": k, "bad_cols": list(bad.columns)}
        ctx.case(case, nontrivial=True)
        ctx.count("dataframe:" + name)
        got, errs = run_df(name, good[:k] + [bad] + good[k:])
        ref, rerrs = run_df(name, good)
        if any(rerrs):
            continue
        if errs[k] is None:
            # the frame happened to be acceptable to this aggregation (e.g. it does not use the missing column)
            continue
        if any(e for j, e in enumerate(errs) if j != k):
            ctx.failure("state-after-failure:dataframe:" + name, "%s: after a frame that raised %s, later valid frames raise %r"
                        % (name, errs[k], [e for j, e in enumerate(errs) if j != k and e]), case)
        elif got != ref:
            ctx.failure("state-after-failure:dataframe:" + name, "%s: after a frame that raised %s the results for the later valid frames differ "
                        "from those of a pipeline that never saw the failing frame" % (name, errs[k]), case)


def textfile_sink_sample(ctx, n):
    """sink_to_textfile is a sink whose 'user function' is the file's write(): elements that are not str, a file closed under the
    pipeline, a file-like whose write() raises.  Every failure must be raised by emit, the element's counter must not fire, the
    elements before and after must be in the file exactly once."""
    import io
    from streamz import Stream
    from streamz.core import RefCounter

    class Flaky(io.StringIO):
        def __init__(self, bad):
            super().__init__()
            self.bad, self.calls = bad, 0

        def write(self, text):
            self.calls += 1
            if self.calls in self.bad:
                raise OSError("disk full")
            return super().write(text)

    rng = ctx.rng
    for i in range(n):
        items = [rng.choice(["a", "bb", "", "c d", 7, None, "e"]) for _ in range(rng.randint(3, 8))]
        close_at = rng.choice([None, None, rng.randrange(len(items))])
        bad = {k for k in range(1, len(items) + 1) if rng.random() < 0.2}
        case = {"textfile_sink": True, "items": items, "close_at": close_at, "bad_writes": sorted(bad), "via_map": rng.random() < 0.5}
        fobj = Flaky(bad)
        src = Stream()
        node = src.map(lambda x: x) if case["via_map"] else src
        snk = node.sink_to_textfile(fobj)
        fired, outcomes, expect = [], [], []
        closed = False
        for k, x in enumerate(items):
            if close_at == k:
                fobj.close()
                closed = True
            rc = RefCounter(cb=lambda k=k: fired.append(k), loop=graphlib.ImmediateLoop())     # the callback runs inside release()
            will_fail = closed or not isinstance(x, str) or (not closed and (fobj.calls + 1) in bad)
            try:
                src.emit(x, metadata=[{"ref": rc}])
                outcomes.append("ok")
            except Exception as e:      # noqa: BLE001
                outcomes.append(type(e).__name__)
            if not will_fail:
                expect.append(x)
            if (outcomes[-1] == "ok") == will_fail:
                ctx.failure("textfile-sink:" + ("exception-swallowed" if will_fail else "spurious-exception"),
                            "sink_to_textfile: element %d (%r) of %r %s: emit outcome %r" % (
                                k, x, items, "could not be written (file closed / not a str / write() raised)" if will_fail else "is writable", outcomes[-1]),
                            case, oracle="a failing sink raises in emit; nothing else does")
                break
            if (k in fired) == will_fail:
                ctx.failure("textfile-sink:" + ("failed-callback" if will_fail else "callback-missing"),
                            "sink_to_textfile: element %d (%r): completion callback fired=%r although %s" % (
                                k, x, k in fired, "its write failed" if will_fail else "it was written"), case)
                break
        else:
            if not closed:
                text = fobj.getvalue()
                if text != "".join(e + "\n" for e in expect):
                    ctx.failure("textfile-sink:contents", "file holds %r, written successfully were %r" % (text, expect), case)
        ctx.case(case, nontrivial=any(o != "ok" for o in outcomes) and any(o == "ok" for o in outcomes))
        ctx.count("textfile-sink")
        snk.destroy()


def touchy_key_cases(ctx, cases=None):
    """unique() runs user code of its own: the keys' __eq__ (hashable=False: list history) or __hash__ (hashable=True).  A key whose
    comparison / hash raises is a failing user function of that node: emit raises, the element goes nowhere, the history is what it was
    (later elements are filtered as if the failing one had not been offered), its callback does not fire."""
    from streamz import Stream, RefCounter
    from .. import graphlib

    class Key:
        def __init__(self, v, touchy=False):
            self.v, self.touchy = v, touchy

        def __eq__(self, other):
            if self.touchy or getattr(other, "touchy", False):
                raise ValueError("keys cannot be compared")
            return isinstance(other, Key) and self.v == other.v

        def __hash__(self):
            if self.touchy:
                raise ValueError("key cannot be hashed")
            return hash(self.v)

        def __repr__(self):
            return "K%s%d" % ("!" if self.touchy else "", self.v)
    if cases is None:
        cases = [{"touchy_key": True, "hashable": h, "maxsize": m, "seq": seq}
                 for h in (False, True) for m in (None, 1, 2)
                 for seq in ([1, 2, -3, 1, 2, 4], [1, -3, 1, 1, 5], [1, 2, 3, -9, 2, 3, 1])]
    for case in cases:
        src = Stream()
        got, fired = [], []
        node = src.unique(hashable=case["hashable"], maxsize=case["maxsize"])
        node.sink(lambda k: got.append(k.v))
        # reference: the same real node class fed only the elements that did not fail
        ref_src = Stream()
        ref_got = []
        ref_src.unique(hashable=case["hashable"], maxsize=case["maxsize"]).sink(lambda k: ref_got.append(k.v))
        problems = []
        for i, v in enumerate(case["seq"]):
            k = Key(abs(v), touchy=v < 0)
            rc = RefCounter(cb=lambda i=i: fired.append(i), loop=graphlib.ImmediateLoop())
            try:
                src.emit(k, metadata=[{"ref": rc}])
                raised = False
            except ValueError:
                raised = True
            if v < 0:
                if not raised:
                    problems.append(("exception-swallowed", "emit #%d (key %r, whose comparison/hash raises) returned normally" % (i, k)))
                if i in fired:
                    problems.append(("callback-after-failure", "the callback of failing emit #%d fired" % i))
            else:
                if raised:
                    problems.append(("spurious-exception", "emit #%d (key %r) raised" % (i, k)))
                ref_src.emit(Key(v))
        if not problems and got != ref_got:
            problems.append(("state-changed-by-failure", "delivered %r; a fresh unique fed only the non-failing elements delivers %r" % (got, ref_got)))
        ctx.case(case, nontrivial=True)
        ctx.count("touchy-key:hashable=%s" % case["hashable"])
        for sig, what in problems[:1]:
            ctx.failure(sig + ":unique-key", "unique(hashable=%s, maxsize=%r), keys %r (negative: comparison/hash raises): %s"
                        % (case["hashable"], case["maxsize"], case["seq"], what), case)


def flush(ctx, batch):
    """Model comparison + oracles for a chunk of cases (chunked to keep memory bounded in the thorough tier)."""
    from .. import common
    lines, spans = [], []
    for case, _ in batch:
        ml = graphcheck.model_lines(case)
        spans.append((len(lines), len(lines) + len(ml)))
        lines += ml
    answers = common.lean_driver("Graph", lines) if lines else []
    for (case, obs), (a, b) in zip(batch, spans):
        evaluate(ctx, case, obs, answers[a:b])
    del batch[:]


def run(ctx):
    from .. import common, gen_graph
    ctx.audit()
    threaded_sample(ctx, 18 if not ctx.thorough() else 90)
    dataframe_fault_sample(ctx, 44 if not ctx.thorough() else 660)
    textfile_sink_sample(ctx, 40 if not ctx.thorough() else 600)
    touchy_key_cases(ctx)
    rng = ctx.rng
    n = 300 if not ctx.thorough() else 10000
    batch = []
    for c in CORPUS:
        c = copy.deepcopy(c)
        batch.append((c, graphcheck.rerun(c)))
    for i in range(n):
        mode = ("sync", "async")[i % 2]
        nodes = gen_graph.gen_pipeline(rng, mode, fail_prob=0.35, malformed=0.08)
        nodes = [nd for nd in nodes]
        if any(nd["kind"] == "partition" for nd in nodes):
            # partition is a buffering (coroutine) node: outside "directly connected" pipelines
            for nd in nodes:
                if nd["kind"] == "partition":
                    nd.update({"kind": "sliding_window", "partial": True})
                    nd.pop("key", None)
        graphcheck.normalise_literals(nodes)
        flavour = ("future", "coro", "tornado")[i % 3] if mode == "async" else "future"
        case, obs = graphcheck.run_adaptive(nodes, mode, rng, rng.randint(6, 16),
                                            opts={"p_weird": 0.08, "p_sinkfail": 0.25,
                                                  "exc": (None, None, "StopIteration", "KeyError", "FalsyError", "OSError")[(i // 2) % 6]}, flavour=flavour)
        case["flavour"] = flavour
        batch.append((case, obs))
        if len(batch) >= 500:
            flush(ctx, batch)
    flush(ctx, batch)
    ctx.coverage["rule"] = ("pipelines of directly connected nodes (partition replaced: it is a buffering node) in blocking and asynchronous mode; "
                            "35% of the function slots hold a function failing on a residue class, 8% ill-typed functions, 8% ill-typed values, 25% of "
                            "consumer completions are failures. Non-trivial: at least one user function raised or an emit reported an exception.")
    ctx.assumptions += ["'the node whose function raised' is identified by a logging wrapper around the catalogue function (harness side)",
                        "reference for 'as if the failing element had not been offered': a fresh node of the same real class"]


def replay(ctx, data):
    from .. import common
    ctx.audit()
    case = data["case"]
    if case.get("threaded"):
        threaded_sample(ctx, 18)
        ctx.coverage["rule"] = "replay: threaded sample"
        return
    if case.get("touchy_key"):
        touchy_key_cases(ctx, [case])
        ctx.coverage["rule"] = "replay of one recorded case"
        return
    if case.get("textfile_sink"):
        textfile_sink_sample(ctx, 40)
        ctx.coverage["rule"] = "replay: textfile sink sample"
        return
    if case.get("dataframe"):
        dataframe_fault_sample(ctx, 44)
        ctx.coverage["rule"] = "replay: dataframe fault sample"
        return
    obs = graphcheck.rerun(case, flavour=case.get("flavour", "future"))
    evaluate(ctx, case, obs, common.lean_driver("Graph", graphcheck.model_lines(case)))
    ctx.coverage["rule"] = "replay of one recorded case"
