"""C09 — Kafka batches: gap-free offsets, commit after processing, at-least-once.

Lean: Model/Kafka.lean, Proofs/Kafka.lean, Props/C09.lean.
Correspondence (this file): the REAL `Stream.from_kafka_batched` runs on the
virtual-time loop against `harness/fake_confluent_kafka.py` (installed as
`confluent_kafka`); the harness produces messages, adds partitions, truncates
(retention), lets one poll interval pass, completes batches (releases the
reference the harness's downstream node holds) and crashes/restarts the source
(same group id, fresh configuration dict).  After every step the emitted
`(partition, low, high)` tuples, the messages returned by the real
`get_message_batch`, every `commit` call and the offsets a restarted source reads
are diffed against the Lean model run on the same history.
Half of the histories contain failures below the source: the handling of a chosen
batch raises synchronously (in get_message_batch, in a map function, in a
synchronous sink) or its awaited consumer (a real `sink(async fn)`) raises later;
the model's `fail p i` action.  Such a batch must never be committed and must be
delivered again after crash + restart (unless a LATER batch of the partition was
completed, which is out-of-order completion).
Oracle (model-free): the clauses of the property evaluated on what the fake broker saw.
"""
import logging
import sys

from tornado.ioloop import IOLoop

from .. import common, vloop
from .. import fake_confluent_kafka as fck

TOPIC = "t"
GROUP = "g"
NONE = -1001
POLL = 1.0


class Starved(Exception):
    """get_message_batch found no message and would sleep (forever, timeout=None)."""


class _FakeTime:
    """Replacement for the `time` module inside streamz.sources while a case runs."""

    def __init__(self, loop, broker=None):
        self.loop = loop
        self.broker = broker
        self.starved = 0

    def time(self):
        return self.loop.time()

    def sleep(self, dt):
        if self.broker is not None and getattr(self.broker, "last_poll_none", True) is False:
            return          # get_message_batch sleeps 0.1 s after a message it skips (empty value): it will poll again
        self.starved += 1
        raise Starved("get_message_batch would block: no message at the requested offset")


# ------------------------------------------------------------------ implementation runner

class Poison(Exception):
    """Raised by the harness somewhere below the source while a chosen batch is being handled."""


class Incarnation:
    """One process: a real from_kafka_batched pipeline plus the harness's downstream nodes.

        FromKafkaBatched -> starmap(get_message_batch*) -> map(inspect) -> [sink(sync probe)] -> consumer

    * `get_message_batch*` is the real function wrapped so that the harness sees every (partition,
      low, high) handed down and can make the call raise after it has read the messages ("gmb");
    * `inspect` is a map function that raises for an armed batch ("map");
    * the sync probe is a real `sink(fn)` whose function raises for an armed batch ("sink");
    * the consumer is either `Hold` (a node that keeps the batch's reference until the harness
      completes it) or a real `sink(async_fn)` whose coroutine waits for a future the harness
      resolves (complete) or fails ("asink": a failing awaitable consumer).
    """

    def __init__(self, case, bname, loop):
        from streamz import Stream
        import streamz.sources as ssources

        inc = self
        self.attempts = []     # every batch handed down, emission order: {"p","lo","hi","msgs","failed","held","done",..}
        self.reported = 0
        self.current = None
        self.armed = {}        # partition -> mode ("gmb" | "map" | "sink") for the next batch of that partition
        self.errors = []
        self.consumer_kind = case.get("consumer", "hold")
        orig = ssources.get_message_batch

        def gmb(kafka_params, topic, partition, keys, low, high, **kw):
            a = {"p": partition, "lo": low, "hi": high, "msgs": None, "failed": None, "held": False,
                 "done": False, "meta": None, "fut": None, "mode": inc.armed.pop(partition, None)}
            inc.attempts.append(a)
            inc.current = a
            a["msgs"] = orig(kafka_params, topic, partition, keys, low, high, **kw)
            if a["mode"] == "gmb":
                a["failed"] = "gmb"
                raise Poison("get_message_batch failed for partition %d [%d,%d]" % (partition, low, high))
            return a["msgs"]

        def inspect(msgs):
            a = inc.current
            if a["mode"] == "map":
                a["failed"] = "map"
                raise Poison("map function failed")
            return msgs

        def probe(msgs):
            a = inc.current
            if a["mode"] == "sink":
                a["failed"] = "sink"
                raise Poison("synchronous sink failed")

        class Hold(Stream):
            """Downstream consumer under harness control: keeps the batch's reference until told."""

            def update(self, x, who=None, metadata=None):
                self._retain_refs(metadata)
                a = inc.current
                a["meta"] = metadata
                a["held"] = True

        def consume(x):
            # an awaitable consumer: the future is resolved (or failed) by the harness
            a = inc.current
            a["fut"] = loop.create_future()
            a["held"] = True
            return a["fut"]

        params = {"bootstrap.servers": bname, "group.id": GROUP}
        if case["reset"] != "default":
            params["auto.offset.reset"] = case["reset"]
        self.params = params
        kw = {}
        if case.get("npart_cfg") is not None:
            kw["npartitions"] = case["npart_cfg"]
        self.stream = Stream.from_kafka_batched(
            TOPIC, params, poll_interval=POLL, max_batch_size=case["mb"],
            refresh_partitions=case["refresh"], keys=bool(case.get("keys")), asynchronous=True,
            loop=IOLoop.current(), **kw)
        self.raw = self.stream.upstreams[0]
        if self.stream.func is not orig:
            raise common.HarnessError("from_kafka_batched no longer maps get_message_batch over the source")
        self.stream.func = gmb
        node = self.stream.map(inspect)
        self.probe = node.sink(probe)
        if self.consumer_kind == "asink":
            self.consumer = node.sink(consume)
        else:
            self.hold = Hold(node)
        self.stream.start()
        if case.get("double_start"):
            # start() called on a second leaf of the pipeline as well: Stream.start() walks upstream and reaches the source again,
            # before the first poll has run - still one polling loop
            self.probe.start()

    def new_batches(self):
        out = self.attempts[self.reported:]
        self.reported = len(self.attempts)
        return out

    def of_partition(self, p):
        return [a for a in self.attempts if a["p"] == p]

    def inflight(self):
        return [a for a in self.attempts if a["held"] and not a["done"] and not a["failed"]]

    def complete(self, a):
        a["done"] = True
        if self.consumer_kind == "asink":
            a["fut"].set_result(None)
        else:
            self.hold._release_refs(a["meta"])

    def fail_consumer(self, a):
        """The awaited consumer raises (asink only)."""
        a["failed"] = "asink"
        a["fut"].set_exception(Poison("awaited consumer failed"))

    def crash(self):
        self.raw.stopped = True
        if self.raw.consumer is not None:
            self.raw.consumer.dead = True
        for a in self.attempts:
            a["meta"] = None


def msg_offsets(msgs, p):
    """Offsets encoded in the message values the real get_message_batch returned."""
    out = []
    for m in msgs:
        v = m["value"] if isinstance(m, dict) else m
        s = v.decode()
        pp, oo = s.split("-")
        out.append([int(pp[1:]), int(oo[1:])])
    if any(q != p for q, _ in out):
        return [["wrong-partition", q, o] for q, o in out]
    return [o for _, o in out]


_case_no = [0]


def run_impl(case, ops):
    """Run `ops` (list) on the real code.  Returns (events, resolved_ops).

    events[i] describes what op i did: {"op", "emit":[[p,lo,hi,[offsets]]], "commit":[[p,off]],
    "positions":[..] (restart), "wm":{p:[low,high]} (watermarks when the op ended), "n_iter"}.
    """
    import streamz.sources as ssources
    fck.install()
    _case_no[0] += 1
    bname = "b%d" % _case_no[0]
    fck.BROKERS.pop(bname, None)
    br = fck.broker(bname)
    br.create_topic(TOPIC, case["nparts"])
    events = []
    resolved = []

    async def main(loop):
        ft = _FakeTime(loop, br)
        old_time = ssources.time
        ssources.time = ft
        inc = None
        try:
            for op in ops:
                mark = len(br.log)
                ev = {"op": op[0], "emit": [], "commit": []}
                rop = list(op)
                if op[0] == "produce":
                    if op[1] < len(br.topics[TOPIC]):
                        tm = case.get("tomb")
                        if tm:
                            # some messages carry an empty value (tombstones): get_message_batch skips them.  Never the last message
                            # of a produce operation, so that a range never ends in a tombstone with nothing behind it.
                            for j in range(op[2]):
                                off = br.topics[TOPIC][op[1]].high
                                if j < op[2] - 1 and off % tm[0] == tm[1]:
                                    br.produce(TOPIC, op[1], 1, value=b"")
                                    ev.setdefault("tomb", []).append([op[1], off])
                                else:
                                    br.produce(TOPIC, op[1], 1)
                        else:
                            br.produce(TOPIC, op[1], op[2])
                elif op[0] == "add":
                    br.add_partitions(TOPIC, op[1])
                elif op[0] == "trunc":
                    if op[1] < len(br.topics[TOPIC]):
                        br.truncate(TOPIC, op[1], op[2])
                elif op[0] == "poll":
                    if inc is not None:
                        await vloop.advance(POLL, loop)
                elif op[0] == "complete":
                    rop = ["complete", 0, 9999]
                    if inc is not None and inc.inflight():
                        fl = inc.inflight()
                        b = None
                        if op[1] == "oldest":
                            # in-order mode: only the first unfinished batch of a partition may complete;
                            # a partition whose first unfinished batch failed is blocked for ever
                            firsts = []
                            for p in sorted(set(x["p"] for x in fl)):
                                first = [x for x in inc.of_partition(p) if not x["done"]][0]
                                if first in fl:
                                    firsts.append(first)
                            if firsts:
                                b = firsts[op[2] % len(firsts)]
                        else:
                            b = fl[op[2] % len(fl)]
                        if b is not None:
                            rop = ["complete", b["p"], inc.of_partition(b["p"]).index(b)]
                            inc.complete(b)
                            await vloop.settle(loop)
                elif op[0] == "arm":
                    # the next batch of partition op[2] fails synchronously in get_message_batch / map / sink
                    if inc is not None:
                        inc.armed[op[2]] = op[1]
                elif op[0] == "failc":
                    # the awaited consumer of an in-flight batch raises (asink consumer only)
                    rop = ["fail", 0, 9999]
                    if inc is not None and inc.consumer_kind == "asink" and inc.inflight():
                        fl = inc.inflight()
                        b = fl[op[1] % len(fl)]
                        rop = ["fail", b["p"], inc.of_partition(b["p"]).index(b)]
                        inc.fail_consumer(b)
                        await vloop.settle(loop)
                elif op[0] == "restart":
                    if inc is not None:
                        inc.crash()
                    inc = Incarnation(case, bname, loop)
                    await vloop.settle(loop)
                else:
                    raise ValueError(op)
                if inc is not None:
                    for b in inc.new_batches():
                        ev["emit"].append([b["p"], b["lo"], b["hi"], msg_offsets(b["msgs"] or [], b["p"])])
                        if b["failed"]:
                            ev.setdefault("failed", []).append([b["p"], inc.of_partition(b["p"]).index(b), b["failed"]])
                        elif not b["held"]:
                            ev.setdefault("error", []).append("batch [%d,%d] of partition %d did not reach the consumer" % (b["lo"], b["hi"], b["p"]))
                    if inc.errors:
                        ev["error"] = ev.get("error", []) + list(inc.errors)
                        inc.errors = []
                for rec in br.log[mark:]:
                    if rec[0] == "commit":
                        ev["commit"].append([rec[2], rec[3]])
                    elif rec[0] == "committed?":
                        # the first query of a (re)start seeds `positions`; later ones are refresh_partitions discoveries
                        key = "positions" if op[0] == "restart" and "positions" not in ev else "discovered"
                        ev.setdefault(key, [])
                        ev[key] += [o for _, o in rec[2]]
                    elif rec[0] == "dead-call":
                        ev.setdefault("error", []).append("call on the consumer of a crashed process: " + rec[1])
                    elif rec[0] == "consumer" and rec[2] != "false":
                        ev.setdefault("error", []).append("consumer created with enable.auto.commit=%s" % rec[2])
                if ft.starved:
                    ev.setdefault("error", []).append("get_message_batch starved %d time(s)" % ft.starved)
                    ft.starved = 0
                ev["wm"] = [list(br.watermarks(TOPIC, p)) for p in range(len(br.topics[TOPIC]))]
                ev["committed"] = [br.committed(GROUP, TOPIC, p) for p in range(len(br.topics[TOPIC]))]
                events.append(ev)
                resolved.append(rop)
            if inc is not None:
                inc.crash()
                await vloop.advance(POLL, loop)
        finally:
            ssources.time = old_time
        return events

    # failures below the source are logged by streamz (starmap/map: logger.exception) and by tornado
    # ("Exception in callback"); that is expected noise here
    logging.disable(logging.CRITICAL)
    try:
        vloop.run(main)
    finally:
        logging.disable(logging.NOTSET)
    fck.BROKERS.pop(bname, None)
    return events, resolved


# ------------------------------------------------------------------ model side

def model_lines(case, rops, events):
    """Driver lines for a resolved history; returns (lines, index map op -> [line numbers]).

    A batch whose handling raised synchronously while an op's poll emitted it becomes a `fail` line
    right after that poll."""
    lines = [{"op": "reset", "mb": case["mb"], "refresh": case["refresh"],
              "latest": case["reset"] in ("latest", "default"),
              "npart_cfg": case.get("npart_cfg"), "nparts": case["nparts"]}]
    where = []
    started = False
    for op, ev in zip(rops, events):
        idx = []
        if op[0] == "produce":
            lines.append({"op": "produce", "p": op[1], "k": op[2]}); idx = [len(lines) - 1]
        elif op[0] == "add":
            lines.append({"op": "add", "m": op[1]}); idx = [len(lines) - 1]
        elif op[0] == "trunc":
            lines.append({"op": "trunc", "p": op[1], "k": op[2]}); idx = [len(lines) - 1]
        elif op[0] == "poll":
            if started:
                lines.append({"op": "poll"}); idx = [len(lines) - 1]
        elif op[0] == "complete":
            if started:
                lines.append({"op": "complete", "p": op[1], "i": op[2]}); idx = [len(lines) - 1]
        elif op[0] == "fail":
            if started:
                lines.append({"op": "fail", "p": op[1], "i": op[2]}); idx = [len(lines) - 1]
        elif op[0] == "restart":
            started = True
            # start() runs the first loop iteration at once
            lines.append({"op": "restart"}); lines.append({"op": "poll"}); idx = [len(lines) - 2, len(lines) - 1]
        if op[0] in ("poll", "restart") and started:
            for p, k, _mode in ev.get("failed", []):
                lines.append({"op": "fail", "p": p, "i": k}); idx.append(len(lines) - 1)
        where.append(idx)
    return lines, where


def compare_with_model(ctx, item, events, rops, answers, where):
    """Diff implementation events against the model's answers.  True when they agree."""
    tombs = {}
    for i, (ev, op, idx) in enumerate(zip(events, rops, where)):
        for p, off in ev.get("tomb", []):
            tombs.setdefault(p, set()).add(off)
        want = {"emit": [], "commit": []}
        for k in idx:
            a = answers[k]
            if "bad-op" in a:
                ctx.disagreement("driver refused line for op %d %r: %r" % (i, op, a), item)
                return False
            want["emit"] += a.get("emit", [])
            want["commit"] += a.get("commit", [])
            if "positions" in a:
                want["positions"] = a["positions"]
        # the model knows ranges, not values: the offsets of empty-valued messages (skipped by get_message_batch) are put back
        got = {"emit": [[p, lo, hi, sorted(set(offs) | {t for t in tombs.get(p, ()) if lo <= t <= hi})] for p, lo, hi, offs in ev["emit"]],
               "commit": ev["commit"]}
        if "positions" in want:
            got["positions"] = ev.get("positions")
        if got != want:
            ctx.disagreement("op %d %r: implementation %r, model %r" % (i, op, got, want), item)
            return False
    return True


# ------------------------------------------------------------------ oracle (no model)

def ceil_div(a, b):
    return -(-a // b)


class Oracle:
    """Evaluates the property's clauses on the observations of one run.

    fails: list of (signature, description).  Signatures name the failing mechanism.
    """

    def __init__(self, case):
        self.case = case
        self.mb = case["mb"]
        self.latest = case["reset"] in ("latest", "default")
        self.fails = []
        self.inc = None
        self.stats = {"ranges": 0, "commits": 0, "redelivered": 0, "crashes_checked": 0, "failed": 0, "failed_redelivered": 0}

    def fail(self, sig, what):
        self.fails.append(("c09:" + sig, what))

    def feed(self, events, rops):
        prev_wm, prev_comm = [[0, 0]] * self.case["nparts"], [NONE] * self.case["nparts"]
        tombs = {}
        for i, (ev, op) in enumerate(zip(events, rops)):
            for p_, off_ in ev.get("tomb", []):
                tombs.setdefault(p_, set()).add(off_)
            for e in ev.get("error", []):
                if "starved" in e:
                    self.fail("batch-unreadable", "op %d %r: %s (a range reaches past the messages that exist)" % (i, op, e))
                elif "auto.commit" in e:
                    self.fail("auto-commit-on", "op %d: %s" % (i, e))
                else:
                    self.fail("harness-observed-error", "op %d %r: %s" % (i, op, e))
            wm = ev["wm"]
            if op[0] == "restart":
                self.crash_check_prepare(prev_wm)
                pos = ev.get("positions") or []
                if pos != prev_comm[:len(pos)]:
                    self.fail("start-not-at-committed", "restart read offsets %r, the group's committed offsets are %r" % (pos, prev_comm))
                old = self.inc
                self.inc = {"start": {p: c for p, c in enumerate(pos)}, "known0": set(range(len(pos))), "exist0": len(wm),
                            "hi0": {p: wm[p][1] for p in range(len(wm))},
                            "ranges": {}, "ooo": set(), "pending": old["required"] if old else None,
                            "pending_failed": old["required_failed"] if old else {},
                            "prev_start_none": None}
            inc = self.inc
            for p, lo, hi, offs in ev["emit"]:
                self.stats["ranges"] += 1
                low, high = wm[p]
                if not (lo <= hi):
                    self.fail("empty-range", "op %d: range [%d,%d] of partition %d is empty" % (i, lo, hi, p))
                if hi >= high:
                    self.fail("passes-high-watermark", "op %d: range [%d,%d] of partition %d, high watermark %d" % (i, lo, hi, p, high))
                if hi - lo + 1 > self.mb:
                    self.fail("exceeds-max-batch-size", "op %d: range [%d,%d] of partition %d has %d > %d messages" % (i, lo, hi, p, hi - lo + 1, self.mb))
                rs = inc["ranges"].setdefault(p, [])
                if rs:
                    plo, phi = rs[-1][0], rs[-1][1]
                    if lo <= phi:
                        self.fail("ranges-overlap", "op %d: partition %d range [%d,%d] after [%d,%d]" % (i, p, lo, hi, plo, phi))
                    elif lo != max(phi + 1, low):
                        self.fail("ranges-gap", "op %d: partition %d range [%d,%d] after [%d,%d] (low watermark %d)" % (i, p, lo, hi, plo, phi, low))
                else:
                    start = inc["start"].get(p, prev_comm[p] if p < len(prev_comm) else NONE)
                    inc["start"].setdefault(p, start)
                    if start != NONE:
                        want = max(start, low)
                        if lo != want:
                            sig = "refresh-ignores-committed" if p not in inc["known0"] else "first-range-not-at-committed"
                            self.fail(sig, "op %d: first range of partition %d is [%d,%d]; committed offset %d, low watermark %d" % (i, p, lo, hi, start, low))
                    else:
                        if self.latest and p < inc["exist0"]:
                            want = max(inc["hi0"][p], low)
                        else:
                            want = low
                        if lo != want:
                            self.fail("first-range-not-at-reset-position", "op %d: first range of partition %d is [%d,%d]; no committed offset, reset position %d (%s)" % (i, p, lo, hi, want, self.case["reset"]))
                if offs != [o for o in range(lo, hi + 1) if o not in tombs.get(p, ())]:
                    self.fail("batch-content", "op %d: get_message_batch for partition %d [%d,%d] returned offsets %r" % (i, p, lo, hi, offs))
                rs.append([lo, hi, False, False])      # lo, hi, completely processed, processing raised
            # failures below the source: synchronous ones come with the poll that emitted the batch,
            # a failing awaited consumer is an op of its own
            newly_failed = [(p, k) for p, k, _ in ev.get("failed", [])]
            if op[0] == "fail" and inc is not None and op[2] != 9999:
                newly_failed.append((op[1], op[2]))
            for p, k in newly_failed:
                rs = inc["ranges"].get(p, [])
                if k < len(rs):
                    rs[k][3] = True
                    self.stats["failed"] += 1
            if inc is not None:
                for p, off in ev["commit"]:
                    for lo, hi, done, failed in inc["ranges"].get(p, []):
                        if failed and hi + 1 == off:
                            self.fail("failed-batch-committed",
                                      "op %d %r: offset %d of partition %d committed although the processing of batch [%d,%d] raised "
                                      "(it was never completely processed)" % (i, op, off, p, lo, hi))
            # commits
            if op[0] == "complete" and inc is not None and op[2] != 9999:
                p, k = op[1], op[2]
                rs = inc["ranges"].get(p, [])
                if k < len(rs):
                    if any(not r[2] for r in rs[:k]):
                        inc["ooo"].add(p)
                    if not rs[k][2]:
                        rs[k][2] = True
                        if ev["commit"] != [[p, rs[k][1] + 1]]:
                            self.fail("commit-mismatch", "op %d: batch [%d,%d] of partition %d completed; commits seen %r, expected exactly [[%d,%d]]"
                                      % (i, rs[k][0], rs[k][1], p, ev["commit"], p, rs[k][1] + 1))
                        self.stats["commits"] += 1
            elif ev["commit"]:
                self.fail("commit-before-processed", "op %d %r: commit(s) %r while no batch was completed" % (i, op, ev["commit"]))
            prev_wm, prev_comm = wm, ev["committed"]
        self.final_wm = prev_wm

    def crash_check_prepare(self, wm_now):
        """At a crash: which offsets must the next incarnation deliver again."""
        inc = self.inc
        if inc is None:
            return
        req, freq = {}, {}
        for p, rs in inc["ranges"].items():
            if p in inc["ooo"] or not rs:
                continue
            start = rs[0][0]
            need = set(range(max(start, wm_now[p][0]), wm_now[p][1]))
            fneed = set()
            for lo, hi, done, failed in rs:
                if done:
                    need -= set(range(lo, hi + 1))
                if failed:
                    fneed |= set(range(lo, hi + 1))
            req[p] = need
            freq[p] = fneed & need
        inc["required"] = req
        inc["required_failed"] = freq

    def check_redelivery(self):
        """Call after a run that ended with restart + draining polls."""
        inc = self.inc
        if inc is None or not inc.get("pending"):
            return
        self.stats["crashes_checked"] += 1
        for p, need in inc["pending"].items():
            if p not in inc["start"] and p not in inc["ranges"]:
                continue        # partition outside this configuration's npartitions
            got = set()
            for lo, hi, _, _ in inc["ranges"].get(p, []):
                got |= set(range(lo, hi + 1))
            low_now = self.final_wm[p][0]
            missing = sorted(o for o in need - got if o >= low_now)
            self.stats["redelivered"] += len(need & got)
            fneed = inc["pending_failed"].get(p, set())
            self.stats["failed_redelivered"] += len(fneed & got)
            if missing:
                if inc["start"].get(p, NONE) == NONE and self.latest:
                    self.fail("latest-uncommitted-restart-skips",
                              "partition %d: offsets %r were emitted (or pending) and never completely processed before the crash, no offset was "
                              "committed yet, and the restarted source (auto.offset.reset=latest) began at the new high watermark" % (p, missing))
                elif set(missing) & fneed:
                    self.fail("failed-batch-not-redelivered", "partition %d: offsets %r belong to a batch whose processing raised before the crash; "
                              "they were not delivered again (restart read committed offset %r)" % (p, sorted(set(missing) & fneed), inc["start"].get(p)))
                else:
                    self.fail("at-least-once-lost", "partition %d: offsets %r not completely processed before the crash were not delivered again "
                              "(restart read committed offset %r)" % (p, missing, inc["start"].get(p)))


def drain_ops(case, ops):
    """Enough polls for a restarted source to reach every high watermark."""
    total = sum(op[2] for op in ops if op[0] == "produce")
    return [["poll"]] * (ceil_div(total, case["mb"]) + 1)


# ------------------------------------------------------------------ cases

def gen_case(rng):
    nparts = rng.choice([1, 1, 2, 2, 3])
    case = {"mb": rng.randint(1, 4), "reset": rng.choice(["earliest", "earliest", "latest", "default"]),
            "refresh": rng.random() < 0.5, "nparts": nparts, "npart_cfg": None, "keys": rng.random() < 0.25}
    if rng.random() < 0.2:
        case["npart_cfg"] = rng.randint(1, nparts)
    if rng.random() < 0.25:
        case["double_start"] = True
    if rng.random() < 0.2:
        m = rng.choice([2, 3, 3, 4])
        case["tomb"] = [m, rng.randrange(m)]      # offsets in this residue class carry an empty value (unless last of their produce op)
    inorder = rng.random() < 0.6
    # half of the histories contain failures below the source
    faulty = rng.random() < 0.5
    case["consumer"] = "asink" if faulty and rng.random() < 0.35 else "hold"
    total = nparts
    ops = []
    for _ in range(rng.randint(0, 2)):
        ops.append(["produce", rng.randrange(nparts), rng.randint(1, 5)])
    ops.append(["restart"])
    n = rng.choice([6, 12, 18, 25])
    while len(ops) < n:
        if faulty and rng.random() < 0.10:
            if case["consumer"] == "asink" and rng.random() < 0.6:
                ops.append(["failc", rng.randrange(6)])
            else:
                p = rng.randrange(total)
                ops.append(["arm", rng.choice(["gmb", "map", "sink"]), p])
                if rng.random() < 0.6:
                    ops += [["produce", p, rng.randint(1, 4)], ["poll"]]
            continue
        r = rng.random()
        if r < 0.30:
            ops.append(["produce", rng.randrange(total), rng.choice([1, 1, 2, 3, 5, 7])])
        elif r < 0.55:
            ops.append(["poll"])
        elif r < 0.82:
            ops.append(["complete", "oldest" if inorder or rng.random() < 0.5 else "any", rng.randrange(6)])
        elif r < (0.90 if case["refresh"] else 0.85) and total < 3:
            m = rng.randint(1, 3 - total)
            ops.append(["add", m])
            total += m
            if rng.random() < 0.7:      # data in the new partition before the source has seen it
                ops.append(["produce", total - 1, rng.randint(1, 5)])
                if rng.random() < 0.7:
                    ops += [["poll"], ["produce", total - 1, rng.randint(1, 3)]]
        elif r < 0.91:
            ops.append(["trunc", rng.randrange(total), rng.randint(1, 3)])
        elif r < 0.97:
            ops.append(["restart"])
        else:
            ops.append(["poll"])
    return {"case": case, "ops": ops}


def C(mb, reset, refresh, nparts, npart_cfg=None, consumer="hold"):
    return {"mb": mb, "reset": reset, "refresh": refresh, "nparts": nparts, "npart_cfg": npart_cfg, "consumer": consumer}


CORPUS = [
    # the design-time probe: two partitions, slow consumer, restart resumes at the committed offset
    {"case": C(3, "earliest", False, 2), "ops": [["produce", 0, 5], ["produce", 1, 2], ["restart"], ["poll"], ["complete", "oldest", 0],
                                                    ["complete", "oldest", 0], ["complete", "oldest", 0], ["produce", 0, 2], ["restart"], ["poll"]]},
    # batch-size clamp exactly at the boundary (high == lowest + mb, and one more)
    {"case": C(2, "earliest", False, 1), "ops": [["produce", 0, 2], ["restart"], ["produce", 0, 3], ["poll"], ["poll"], ["poll"]]},
    # latest: nothing before start is delivered; later messages are
    {"case": C(4, "latest", False, 1), "ops": [["produce", 0, 3], ["restart"], ["produce", 0, 2], ["poll"], ["complete", "oldest", 0], ["restart"], ["produce", 0, 1], ["poll"]]},
    # default reset (= latest), partition added on the fly is read from its beginning
    {"case": C(3, "default", True, 1), "ops": [["restart"], ["add", 1], ["produce", 1, 4], ["poll"], ["poll"], ["complete", "oldest", 0], ["complete", "oldest", 0]]},
    # latest: a partition created while the source runs is still read from its beginning (reset was switched to earliest)
    {"case": C(3, "latest", True, 1), "ops": [["restart"], ["add", 1], ["produce", 1, 2], ["poll"], ["produce", 1, 2], ["poll"], ["complete", "oldest", 0]]},
    # out-of-order completion then crash (the in-order proviso matters)
    {"case": C(2, "earliest", False, 1), "ops": [["produce", 0, 4], ["restart"], ["poll"], ["complete", "any", 1], ["restart"], ["poll"]]},
    # retention passes the consumer's position: the clamp to the low watermark
    {"case": C(2, "earliest", False, 1), "ops": [["produce", 0, 6], ["restart"], ["trunc", 0, 4], ["poll"], ["poll"], ["complete", "oldest", 0]]},
    # explicit npartitions smaller than the topic + refresh_partitions: the discovered partition has a committed offset
    {"case": C(2, "earliest", True, 2), "ops": [["produce", 1, 4], ["restart"], ["poll"], ["complete", "oldest", 0], ["restart"]]},
    {"case": C(2, "earliest", True, 2, 1), "ops": [["produce", 1, 4], ["restart"], ["poll"], ["complete", "oldest", 0], ["restart"], ["poll"]]},
    {"case": C(2, "latest", True, 2, 1), "ops": [["restart"], ["produce", 1, 4], ["poll"], ["complete", "oldest", 0], ["produce", 1, 2], ["restart"], ["poll"]]},
    # a batch whose processing raises (poison message) is never committed and comes again after the crash:
    # A=[0,2] processed -> 3 committed; B=[3,4] raises in get_message_batch / a map function / a synchronous sink
    {"case": C(3, "earliest", False, 1), "ops": [["produce", 0, 3], ["restart"], ["complete", "oldest", 0], ["produce", 0, 2],
                                                    ["arm", "gmb", 0], ["poll"], ["poll"]]},
    {"case": C(3, "earliest", False, 1), "ops": [["produce", 0, 3], ["restart"], ["complete", "oldest", 0], ["produce", 0, 2],
                                                    ["arm", "map", 0], ["poll"], ["poll"]]},
    {"case": C(3, "earliest", False, 1), "ops": [["produce", 0, 3], ["restart"], ["complete", "oldest", 0], ["produce", 0, 2],
                                                    ["arm", "sink", 0], ["poll"], ["produce", 0, 1], ["poll"]]},
    # the very first batch of an incarnation raises (nothing committed yet)
    {"case": C(2, "earliest", False, 2), "ops": [["produce", 1, 2], ["arm", "map", 1], ["restart"], ["arm", "map", 1], ["produce", 1, 2], ["poll"], ["poll"]]},
    # a failing awaited consumer (real sink(async fn)): first batch completes, second one's coroutine raises
    {"case": C(2, "earliest", False, 1, consumer="asink"), "ops": [["produce", 0, 4], ["restart"], ["poll"], ["complete", "oldest", 0],
                                                                      ["failc", 0], ["poll"]]},
    # failure, then a LATER batch of the partition completes (out of order: the proviso of the property does not hold)
    {"case": C(2, "earliest", False, 1), "ops": [["produce", 0, 2], ["arm", "map", 0], ["restart"], ["produce", 0, 2], ["poll"],
                                                    ["complete", "any", 0], ["poll"]]},
    # failure in one partition does not disturb the other one
    {"case": C(2, "latest", True, 2), "ops": [["restart"], ["produce", 0, 2], ["produce", 1, 2], ["arm", "gmb", 0], ["poll"],
                                                 ["complete", "oldest", 0], ["produce", 0, 1], ["poll"], ["complete", "oldest", 0]]},
    # crash with a committed offset and several in-flight batches
    {"case": C(1, "earliest", False, 2), "ops": [["produce", 0, 3], ["produce", 1, 3], ["restart"], ["poll"], ["poll"], ["complete", "oldest", 0], ["complete", "oldest", 1]]},
]


# ------------------------------------------------------------------ checking

def probe_points(ctx, item):
    n = len(item["ops"])
    if "probe" in item:
        return [item["probe"]]
    if ctx.thorough():
        return list(range(1, n + 1))
    pts = {n}
    for _ in range(2):
        pts.add(ctx.rng.randint(1, n))
    return sorted(pts)


def run_item(ctx, item, k):
    """Implementation run of ops[:k] + crash/restart + drain, with oracle.  Returns a record."""
    case, ops = item["case"], item["ops"]
    full = ops[:k] + [["restart"]] + drain_ops(case, ops[:k])
    events, rops = run_impl(case, full)
    orc = Oracle(case)
    orc.feed(events, rops)
    orc.check_redelivery()
    return {"item": {"case": case, "ops": ops, "probe": k}, "events": events, "rops": rops, "oracle": orc}


def judge(ctx, rec, answers, where):
    item, orc = rec["item"], rec["oracle"]
    case = item["case"]
    ctx.count("reset:" + case["reset"])
    ctx.count("mb:%d" % case["mb"])
    ctx.count("refresh:%s" % case["refresh"])
    if case.get("keys"):
        ctx.count("keys=True")
    ctx.count("npartitions:" + ("explicit" if case["npart_cfg"] is not None else "from-broker"))
    ctx.count("crash-probes-with-redelivery-check", orc.stats["crashes_checked"])
    ctx.count("ranges-emitted", orc.stats["ranges"])
    ctx.count("commits", orc.stats["commits"])
    ctx.count("offsets-redelivered-after-crash", orc.stats["redelivered"])
    ctx.count("batches-whose-processing-raised", orc.stats["failed"])
    ctx.count("offsets-of-failed-batches-redelivered-after-crash", orc.stats["failed_redelivered"])
    ctx.count("consumer:" + case.get("consumer", "hold"))
    for ev in rec["events"]:
        for _p, _k, mode in ev.get("failed", []):
            ctx.count("failure-in:" + mode)
    if any(op[0] == "fail" and op[2] != 9999 for op in rec["rops"]):
        ctx.count("failure-in:asink")
    if any(op[0] == "trunc" for op in item["ops"][:item["probe"]]):
        ctx.count("with-truncation")
    if any(op[0] == "add" for op in item["ops"][:item["probe"]]):
        ctx.count("with-partition-added")
    ctx.case(item, nontrivial=orc.stats["ranges"] >= 2 and orc.stats["commits"] >= 1)
    seen = set()
    for sig, what in orc.fails:
        if sig in seen:
            continue
        seen.add(sig)
        ctx.failure(sig, "from_kafka_batched: " + what, item, oracle="C09 clauses on the fake broker's call log")
    if answers is not None:
        if compare_with_model(ctx, item, rec["events"], rec["rops"], answers, where):
            ctx.coverage["traces_validated_against_impl"] += 1


ASSUMPTIONS = [
    "the Kafka client is an in-memory fake of confluent_kafka (harness/fake_confluent_kafka.py); librdkafka and a real broker are not exercised",
    "one source per consumer group (no rebalancing, nobody else commits for the group); partitions are only ever added",
    "message values are non-empty, except that a fifth of the histories put empty-valued messages (tombstones) inside produce operations, never as "
    "the last message of one (get_message_batch skips falsy values; it would wait forever for a tombstone with nothing behind it)",
    "an explicit npartitions argument never exceeds the number of partitions of the topic",
    "a crash is modelled at the granularity of harness events (between two events the loop is quiescent); a restart uses a fresh copy of the configuration",
    "downstream of the source the batch's reference is held by a harness node until the harness completes the batch, or (consumer=asink) by the "
    "real sink(async fn) until the harness resolves/fails the awaited future (C04 covers real downstream nodes in general)",
    "failures below the source are injected by the harness: the wrapped get_message_batch raising after it has read the messages, a map function, "
    "a synchronous sink function, or the awaited consumer raising; a batch whose handling raised is never retried within the incarnation",
]


def run(ctx):
    ctx.audit()
    ctx.assumptions += ASSUMPTIONS
    n_hist = 300 if not ctx.thorough() else 2000
    items = [dict(it) for it in CORPUS] + [gen_case(ctx.rng) for _ in range(n_hist)]
    recs = []
    for it in items:
        for k in probe_points(ctx, it):
            recs.append(run_item(ctx, it, k))
    lines, spans = [], []
    for rec in recs:
        ml, where = model_lines(rec["item"]["case"], rec["rops"], rec["events"])
        spans.append((len(lines), len(lines) + len(ml), where))
        lines += ml
    answers = common.lean_driver("Kafka", lines)
    for rec, (a, b, where) in zip(recs, spans):
        judge(ctx, rec, answers[a:b], where)
    ctx.coverage["rule"] = (
        "corpus of %d boundary histories + seeded random histories (1-3 partitions, max_batch_size 1-4, reset earliest/latest/default, "
        "refresh_partitions on/off, explicit npartitions in 20%%, <=25 actions: produce/poll/complete(in-order or any)/add partitions/"
        "truncate/crash+restart); every history is run on the real source up to a crash point k, crashed, restarted and drained "
        "(quick: k = end + 2 random points; thorough: every k). Non-trivial: >=2 ranges emitted and >=1 commit. Distinct = distinct (history, k) JSON."
        % len(CORPUS))


def replay(ctx, data):
    ctx.audit()
    item = data["case"]
    k = item.get("probe", len(item["ops"]))
    rec = run_item(ctx, item, k)
    ml, where = model_lines(item["case"], rec["rops"], rec["events"])
    answers = common.lean_driver("Kafka", ml)
    judge(ctx, rec, answers, where)
    ctx.coverage["rule"] = "replay of one recorded history"
