"""C13 — rate_limit spaces emissions by at least the interval and keeps order; delay keeps order and count.

Lean: Model/RateLimit.lean (functional `plan` / `delayPlan` and the event-loop transition systems),
Props/C13.lean (spacing, order, count, no delay after idle, earliest feasible schedule; for every
action sequence of the event-loop models: deliveries are a prefix of arrivals at every instant,
equal at quiescence, and follow the functional plan).

Correspondence (this file): the REAL `rate_limit` / `delay` nodes run on the virtual-time loop
(harness/vloop.py; `streamz.core.time` and tornado's `IOLoop.time` are the virtual clock) with 1-4
concurrent producers (awaiting `emit` or not, emitting into one source or into separate sources joined
by `union`), bursts, gaps just below / at / above the interval, long idle gaps, a synchronous or a slow
(awaitable) downstream, and consumers that REJECT some elements (a synchronous sink raising, an awaitable
consumer failing; un-awaited producers keep the exception in the emit's awaitable).  A rejected element
went through the limiter like any other: the hand-over instants of ALL elements are compared with the
model (whose `next` bookkeeping knows nothing of consumer failures) and judged by the oracle.  For delay
a rejection ends the `cb` coroutine; see ASSUMPTIONS for what C13 still claims there.  All instants are exact multiples of 1/1024 s ("ticks"), so every float the
code computes is exact.  The observed event sequence (arrivals, deliveries, downstream completions,
with their instants) is replayed through the Lean event-loop model — every observed event must be an
enabled action of the model — and the delivery instants are compared EXACTLY with the functional model.
The model-free oracle evaluates the property statement on the observations alone.
"""
import asyncio
import logging

from .. import common, vloop

TICK = 1024.0


# ------------------------------------------------------------------ running the real node

def _ticks(t):
    """Virtual instant in ticks: an int when exact (always, for the unchanged code), else the float."""
    v = t * TICK
    return int(v) if v == int(v) else v


def interval_arg(case):
    """The `interval` argument handed to the node: seconds as a float, or a pandas-style string."""
    if case.get("interval_str"):
        return case["interval_str"]
    if case.get("interval_np"):
        # whole seconds as a Python int or a numpy scalar (an interval read from an array or a frame)
        import numpy as np
        f = case["interval_np"]
        return int(case["interval"] // TICK) if f == "int" else getattr(np, f)(case["interval"] / TICK if f == "float64" else case["interval"] // TICK)
    return case["interval"] / TICK


def cost_of(case, x):
    costs = case.get("costs") or []
    return costs[x % len(costs)] if costs else 0


class Rejected(Exception):
    """Raised by the harness's consumer for the elements listed in case["fail"]."""


class Runaway(KeyboardInterrupt):
    """Aborts a run whose node hands over without end (possibly inside one loop callback, where the loop's
    callback budget cannot help).  Derived from KeyboardInterrupt because tornado coroutines and asyncio
    handles swallow everything else."""


def is_slow(case):
    """Is there an awaitable consumer below the node?"""
    return any(case.get("costs") or []) or (bool(case.get("fail")) and case.get("fail_mode") == "awaitable")


def run_impl(case):
    """Run the real node.  Returns dict(events=[...], c0=ticks, errors=[...], rejected=[...], loop_rejected=n).

    events (in the order they happened):
      ["a", t, x]        producer is about to call emit(x) (== the node's update(x) is entered)
      ["d", t, x, sync]  the node handed x to its downstream (recorded BEFORE the consumer accepts or
                         rejects it, so a failing hand-over is recorded too); sync = inside emit(x) itself
      ["f", t, x]        awaitable consumer only: the awaitable for x completed successfully
      ["r", t, x]        the consumer rejected x (raised `Rejected`, synchronously or from its awaitable)
    rejected      = elements whose emit() awaitable failed with `Rejected`
    loop_rejected = number of `Rejected` exceptions that ended a loop callback (delay's `cb` coroutine)
    errors        = any other exception seen by a producer or by the loop
    """
    from streamz import Stream

    kind = case["kind"]
    interval = interval_arg(case)
    slow = is_slow(case)
    fail = set(case.get("fail") or [])
    fail_sync = case.get("fail_mode", "sync") == "sync"
    errors = []
    rejected = []
    loop_rejected = [0]
    futures = []
    n_elements = sum(len(p["gaps"]) for p in case["producers"])
    runaway = []

    class Events(list):
        """The event log, capped: a node that hands over for ever must not exhaust memory."""
        def append(self, e):
            if len(self) < 40 * n_elements + 200:
                list.append(self, e)
            elif not runaway:
                runaway.append("more than %d events for %d elements" % (len(self), n_elements))

    events = Events()

    # payloads: an element is the integer id unless case["payloads"] gives it a falsy stand-in (None, '', False, (), b''); each
    # stand-in occurs at most once per case and is recognised by identity, never by truthiness or equality
    specials = {"N": None, "E": "", "F": False, "T": (), "B": b""}
    payloads = {int(k): v for k, v in (case.get("payloads") or {}).items()}

    def enc(x):
        return specials[payloads[x]] if x in payloads else x

    def dec(obj):
        for x, code in payloads.items():
            if specials[code] is obj and not (type(obj) is int):
                return x
        return obj

    def note(x, exc):
        if isinstance(exc, Rejected):
            rejected.append(x)
        elif exc is not None:
            errors.append("emit(%r): %r" % (x, exc))

    async def main(loop):
        now = lambda: _ticks(loop.time())  # noqa: E731
        loop.max_handles = 20000 * (n_elements + 5)    # a correct run needs a few dozen callbacks per element

        def on_loop_exception(_loop, context):
            exc = context.get("exception")
            if isinstance(exc, Rejected):
                loop_rejected[0] += 1
            else:
                errors.append("loop: %r %r" % (context.get("message"), exc))

        loop.set_exception_handler(on_loop_exception)
        if case["start"]:
            await asyncio.sleep(case["start"] / TICK)
        nprod = len(case["producers"])
        if case.get("dask_api"):
            # the same node reached through the DaskStream API (streamz/dask.py re-registers rate_limit / delay for DaskStream;
            # neither submits work: no cluster is involved)
            from streamz.dask import DaskStream as SourceClass
        else:
            SourceClass = Stream
        if case["topology"] == "union" and nprod > 1:
            sources = [SourceClass(asynchronous=True) for _ in range(nprod)]
            head = sources[0].union(*sources[1:])
        else:
            sources = [SourceClass(asynchronous=True)] * nprod
            head = sources[0]
        node = getattr(head, kind)(interval)
        c0 = now()
        in_emit = [None]

        def recorder(x):
            x = dec(x)
            if runaway:
                raise Runaway()
            events.append(["d", now(), x, in_emit[0] == x])
            if fail_sync and x in fail:
                events.append(["r", now(), x])
                raise Rejected(x)

        node.sink(recorder)
        if slow:
            async def consumer(x):
                x = dec(x)
                c = cost_of(case, x)
                if c:
                    await asyncio.sleep(c / TICK)
                if not fail_sync and x in fail:
                    events.append(["r", now(), x])
                    raise Rejected(x)
                events.append(["f", now(), x])
            node.sink(consumer)
        await vloop.settle(loop)          # delay: let `cb` start (its first `last = time()` is c0)

        async def producer(p, spec):
            for k, gap in enumerate(spec["gaps"]):
                if gap:
                    await asyncio.sleep(gap / TICK)
                x = p * 100 + k
                events.append(["a", now(), x])
                in_emit[0] = x
                try:
                    fut = sources[p].emit(enc(x))
                finally:
                    in_emit[0] = None
                if spec["await"]:
                    try:
                        await fut
                    except Exception as e:      # noqa: BLE001  (classified by note())
                        note(x, e)
                else:
                    futures.append((x, fut))    # the exception, if any, stays in the emit's awaitable

        await asyncio.gather(*[producer(p, spec) for p, spec in enumerate(case["producers"])])
        n = sum(len(s["gaps"]) for s in case["producers"])
        horizon = (n + 2) * (case["interval"] + max(case.get("costs") or [0]) + 1)
        await vloop.advance(horizon / TICK, loop)
        for x, f in futures:
            if f is None:
                continue
            if not f.done():
                if not (kind == "delay" and fail):
                    errors.append("emit(%r) never completed" % (x,))
            elif not f.cancelled():
                note(x, f.exception())
        return c0

    # tornado reports an exception that ends a callback coroutine (delay's `cb`) on its application logger
    class Catch(logging.Handler):
        def emit(self, record):
            exc = record.exc_info[1] if record.exc_info else None
            if isinstance(exc, Rejected):
                loop_rejected[0] += 1
            else:
                errors.append("log: %s %r" % (record.getMessage(), exc))

    app_log = logging.getLogger("tornado.application")
    saved = (app_log.propagate, list(app_log.handlers), app_log.level, logging.root.manager.disable)
    app_log.handlers[:] = [Catch()]
    app_log.propagate = False
    app_log.setLevel(logging.ERROR)
    logging.disable(logging.NOTSET)      # harness/run.py silences logging globally; this one logger is needed
    c0 = 0
    try:
        c0 = vloop.run(main)
    except Runaway:
        pass
    except RuntimeError as e:
        if "handle budget exhausted" not in str(e):
            raise
        runaway.append("the loop ran %s callbacks without finishing" % (20000 * (n_elements + 5),))
    finally:
        app_log.propagate, app_log.handlers[:], level, disabled = saved
        app_log.setLevel(level)
        logging.disable(disabled)
    return {"events": list(events), "c0": c0, "errors": errors, "rejected": sorted(rejected),
            "loop_rejected": loop_rejected[0], "runaway": runaway[:1]}


# ------------------------------------------------------------------ model lines

def model_lines(case, obs):
    """Observed event sequence -> driver input lines.

    A consumer failure changes nothing in rate_limit's bookkeeping (each `update` is its own coroutine;
    `next` was booked before the sleep), so the failing hand-over is an ordinary `deliver`.  For delay the
    failure ends the `cb` coroutine: in the event-loop model the coroutine simply stays in `emitting`
    for ever (no `done` action follows the failing hand-over), so nothing is taken from the queue again.
    """
    kind = case["kind"]
    slow = is_slow(case)
    rejected_now = set(e[2] for e in obs["events"] if e[0] == "r")
    lines = [{"op": "reset", "model": kind, "interval": case["interval"], "clock": obs["c0"]}]
    for e in obs["events"]:
        if e[0] == "a":
            lines.append({"op": "arrive", "t": e[1], "x": e[2], "c": cost_of(case, e[2])})
        elif e[0] == "d":
            if kind == "rate_limit":
                if not e[3]:
                    lines.append({"op": "deliver", "t": e[1], "x": e[2]})
            else:
                lines.append({"op": "deliver", "t": e[1], "x": e[2]})
                if not slow and e[2] not in rejected_now:
                    # synchronous downstream: `yield self._emit(...)` returns at once
                    lines.append({"op": "done", "t": e[1]})
        elif e[0] == "f" and kind == "delay":
            lines.append({"op": "done", "t": e[1]})
    lines.append({"op": "end"})
    return lines


# ------------------------------------------------------------------ oracle (model-free)

def oracle(case, obs):
    """The property statement evaluated on the observations.  Returns list of (signature, text).

    Hand-overs are ALL calls of the downstream, whether the consumer then accepts or rejects the element:
    a rejected element went through the limiter like any other and occupies its slot.  For rate_limit the
    whole statement (spacing, order, none lost, no delay after idle) is evaluated on all of them.  For delay
    a rejecting consumer ends the node's `cb` coroutine (the code has no recovery), so after the first
    rejection only the safety half is claimed: the hand-overs so far are a prefix of the arrivals, in
    order, each once; "none lost at quiescence" is claimed only for runs without a rejection.
    """
    kind = case["kind"]
    delay_ended = kind == "delay" and any(e[0] == "r" for e in obs["events"])
    I = case["interval"]
    bad = []
    arrived = []      # elements in arrival order
    arr_t = {}
    delivered = []    # (t, x) in delivery order
    idle_expect = {}  # x -> instant at which it must be delivered (arrived on an idle line)
    for e in obs["events"]:
        if e[0] == "a":
            t, x = e[1], e[2]
            if kind == "rate_limit" and len(delivered) == len(arrived) and (not delivered or delivered[-1][0] + I <= t):
                idle_expect[x] = t
            arrived.append(x)
            arr_t[x] = t
        elif e[0] == "d":
            t, x = e[1], e[2]
            if kind == "rate_limit" and delivered and t - delivered[-1][0] < I:
                bad.append(("rate_limit:spacing", "elements %r and %r delivered %s ticks apart, interval %d ticks"
                            % (delivered[-1][1], x, t - delivered[-1][0], I)))
            delivered.append((t, x))
            seq = [y for _, y in delivered]
            if seq != arrived[:len(seq)]:
                if seq.count(x) > 1:
                    bad.append((kind + ":duplicate", "element %r delivered twice" % (x,)))
                elif x not in arr_t:
                    bad.append((kind + ":invented", "element %r delivered but never arrived" % (x,)))
                else:
                    bad.append((kind + ":order", "delivered %r, arrival order %r" % (seq, arrived[:len(seq)])))
            elif t < arr_t[x]:
                bad.append((kind + ":early", "element %r delivered at %s before it arrived at %s" % (x, t, arr_t[x])))
            if x in idle_expect and idle_expect[x] != t:
                bad.append(("rate_limit:delayed-after-idle",
                            "element %r arrived at %s on a line idle for >= the interval but was delivered at %s"
                            % (x, idle_expect[x], t)))
    if len(delivered) < len(arrived) and not delay_ended:
        bad.append((kind + ":lost", "%d elements arrived, %d delivered at quiescence (missing %r)"
                    % (len(arrived), len(delivered), [x for x in arrived if x not in [y for _, y in delivered]])))
    # keep the first finding per signature
    seen, res = set(), []
    for sig, text in bad:
        if sig not in seen:
            seen.add(sig)
            res.append((sig, text))
    return res


# ------------------------------------------------------------------ generators

INTERVALS = [1, 2, 3, 5, 8, 16, 100, 128, 1024, 1536]


def gen_gap(rng, I, style):
    r = rng.random()
    if style == "burst":
        return 0 if r < 0.8 else rng.choice([1, I, 3 * I + 1])
    if style == "steady":
        return rng.choice([I, I, I, max(I - 1, 0), I + 1])
    if style == "idle":
        return rng.choice([2 * I, 3 * I + 2, I + 1, 5 * I]) if r < 0.6 else 0
    # mixed
    if r < 0.35:
        return 0
    if r < 0.55:
        return rng.randint(1, max(1, I - 1)) if I > 1 else 1
    if r < 0.7:
        return I
    if r < 0.8:
        return I + 1
    if r < 0.9:
        return rng.choice([2, 3]) * I
    return 3 * I + rng.randint(0, I)


LONG = [("1d", 86400), ("24h", 86400), ("36h", 129600), ("2 days", 172800), ("1h", 3600), ("90min", 5400), ("1d 1s", 86401)]


def gen_case(rng, kind):
    I = rng.choice(INTERVALS) if rng.random() < 0.96 else 0
    long_str = None
    if rng.random() < 0.06:
        long_str, secs = rng.choice(LONG)       # intervals of hours and days, given as strings (virtual time: no cost)
        I = secs * 1024
    nprod = rng.choice([1, 1, 2, 2, 3, 4])
    producers = []
    for _ in range(nprod):
        style = rng.choice(["burst", "steady", "idle", "mixed", "mixed"])
        n = rng.randint(1, 6 if nprod <= 2 else 4)
        producers.append({"await": rng.random() < 0.4, "gaps": [gen_gap(rng, I, style) for _ in range(n)]})
    r = rng.random()
    if r < (0.6 if kind == "rate_limit" else 0.45):
        costs = []
    else:
        costs = [rng.choice([0, 0, 1, max(I - 1, 0), I, I + 3, 2 * I]) for _ in range(rng.randint(1, 4))]
        if not any(costs):
            costs = []
    case = {"kind": kind, "interval": I, "topology": rng.choice(["single", "union"]),
            "start": rng.choice([0, 0, 7, 1000]), "producers": producers, "costs": costs}
    if long_str:
        case["interval_str"] = long_str
    elif I and I % TICK == 0 and rng.random() < 0.4:
        case["interval_np"] = rng.choice(["int", "int64", "int32", "float64"])
    elif I and (I * 1000) % 1024 == 0 and rng.random() < 0.5:
        case["interval_str"] = "%dms" % (I * 1000 // 1024)     # convert_interval() path (pandas Timedelta)
    if rng.random() < 0.35:
        # the consumer rejects one or two elements (never only the very last arrival: what matters is
        # what happens to the elements around and after the rejected one)
        ids = [p * 100 + k for p, spec in enumerate(producers) for k in range(len(spec["gaps"]))]
        case["fail"] = sorted(rng.sample(ids, min(len(ids), rng.choice([1, 1, 2]))))
        case["fail_mode"] = rng.choice(["sync", "awaitable"])
    if rng.random() < 0.15:
        case["dask_api"] = True
    if rng.random() < 0.3:
        # one or two elements are falsy objects (None first of all) instead of integers
        ids = [p * 100 + k for p, spec in enumerate(producers) for k in range(len(spec["gaps"]))]
        codes = ["N"] + rng.sample(["E", "F", "T", "B"], 4)
        case["payloads"] = {str(x): c for x, c in zip(rng.sample(ids, min(len(ids), rng.choice([1, 1, 2]))), codes)}
    return case


def P(aw, *gaps):
    return {"await": aw, "gaps": list(gaps)}


def C(kind, I, producers, costs=(), topology="single", start=0):
    return {"kind": kind, "interval": I, "topology": topology, "start": start,
            "producers": producers, "costs": list(costs)}


CORPUS = [
    # through the DaskStream API: idle, then a burst
    dict(C("rate_limit", 8, [P(False, 20, 0, 0, 0)]), dask_api=True),
    dict(C("delay", 8, [P(False, 0, 0, 3)]), dask_api=True),
    # intervals of a day and more, given as strings: a burst of three is spread over days
    dict(C("rate_limit", 86400 * 1024, [P(False, 0, 0, 0)]), interval_str="1d"),
    dict(C("rate_limit", 129600 * 1024, [P(True, 0, 5, 0)]), interval_str="36h"),
    dict(C("delay", 172800 * 1024, [P(False, 0, 1024, 0)]), interval_str="2 days"),
    # None and other falsy payloads in the middle of a burst: they are elements like any other
    dict(C("delay", 8, [P(False, 0, 0, 0, 0, 0, 0)]), payloads={"2": "N", "4": "E"}),
    dict(C("delay", 8, [P(True, 0, 3, 0, 20, 0)], costs=[3]), payloads={"1": "N"}),
    dict(C("rate_limit", 8, [P(False, 0, 0, 0, 0, 0)]), payloads={"0": "N", "3": "F"}),
    dict(C("rate_limit", 8, [P(True, 0, 0, 30, 0)], costs=[2]), payloads={"2": "N", "3": "T"}),
    # one burst of five (the shape of the existing test_rate_limit), exact timing here
    C("rate_limit", 10, [P(False, 0, 0, 0, 0, 0)]),
    # burst, arrival during the backlog, arrival exactly when a slot opens, arrival after a long idle gap
    C("rate_limit", 10, [P(False, 0, 0, 0, 25, 5, 100)]),
    # two producers that do not await each other, same instants
    C("rate_limit", 16, [P(False, 0, 0, 16), P(False, 0, 16, 0)], topology="union"),
    # arrivals exactly `interval` apart (now == old_next: no sleep), then one tick early
    C("rate_limit", 8, [P(False, 0, 8, 8, 7, 8)], start=7),
    # clock far from 0 at the first arrival (max(now, next) with next = 0)
    C("rate_limit", 5, [P(False, 0, 0), P(True, 3, 0)], start=1000),
    # awaiting producer against a non-awaiting one, slow downstream
    C("rate_limit", 10, [P(True, 0, 0, 0), P(False, 5, 0, 30)], costs=[3, 12]),
    # four producers
    C("rate_limit", 3, [P(False, 0, 1), P(True, 0, 0), P(False, 2, 2), P(True, 1, 7)], topology="union"),
    # interval 0: everything passes at once
    C("rate_limit", 0, [P(False, 0, 0, 3, 0)]),
    C("rate_limit", 0, [P(False, 0, 0, 3, 0), P(True, 0, 3)], start=7),
    # interval given as a string (convert_interval): '500ms' = 512 ticks
    dict(C("rate_limit", 512, [P(False, 0, 0, 100, 512, 2000)]), interval_str="500ms"),
    dict(C("rate_limit", 1024, [P(False, 0, 0, 0, 3000)]), interval_np="int64"),
    dict(C("rate_limit", 2048, [P(False, 0, 0), P(True, 5, 0)]), interval_np="int32"),
    dict(C("delay", 1024, [P(False, 0, 0, 100)]), interval_np="int64"),
    dict(C("delay", 2048, [P(True, 0, 1024)]), interval_np="float64"),
    dict(C("delay", 1536, [P(False, 0, 0, 100)]), interval_str="1500ms"),
    # consumer rejects the second element of a backlog; an arrival after the rejection, while a later-booked
    # element is still sleeping (a @0, bad @I, c @2I, d arrives at 1.5 I -> @3I)
    dict(C("rate_limit", 1024, [P(False, 0), P(False, 51), P(False, 102), P(False, 1536)]), fail=[100], fail_mode="sync"),
    dict(C("rate_limit", 10, [P(False, 0, 1, 1, 13, 0), P(True, 2, 20)]), fail=[1], fail_mode="sync"),
    # the same with an awaitable consumer that fails after a while (the rejection lands between two slots)
    dict(C("rate_limit", 10, [P(False, 0, 1, 1, 13, 0)], costs=[4]), fail=[1], fail_mode="awaitable"),
    dict(C("rate_limit", 10, [P(False, 0, 0, 0, 0, 26, 0)], costs=[0, 13]), fail=[1, 2], fail_mode="awaitable"),
    # rejected element on an idle line, then a burst
    dict(C("rate_limit", 8, [P(False, 0, 30, 0, 0), P(False, 31)], topology="union"), fail=[1], fail_mode="sync"),
    # delay: burst, idle coroutine passes the element at once, interval separates iteration starts
    C("delay", 10, [P(False, 0, 0, 0)]),
    # delay with a rejecting consumer: `cb` ends at the rejected hand-over, the rest stays queued
    dict(C("delay", 10, [P(False, 0, 0, 0, 40)]), fail=[1], fail_mode="sync"),
    dict(C("delay", 10, [P(False, 0, 0, 0), P(True, 5, 30)], costs=[3]), fail=[100], fail_mode="awaitable"),
    C("delay", 10, [P(False, 9, 1, 0)]),
    C("delay", 10, [P(False, 0, 0, 0), P(True, 5, 0, 30)], costs=[3]),
    # delay with a downstream slower than the interval
    C("delay", 10, [P(False, 0, 0, 0, 40)], costs=[15, 3, 0]),
    C("delay", 4, [P(True, 0, 4, 4, 3), P(False, 4, 0, 9)], topology="union", start=7),
    C("delay", 0, [P(False, 0, 0, 2)]),
]


# ------------------------------------------------------------------ checking

def nontrivial(case, obs):
    """A case is non-trivial when at least one element was actually held back and one was not."""
    arr = {e[2]: e[1] for e in obs["events"] if e[0] == "a"}
    held = [e for e in obs["events"] if e[0] == "d" and e[1] > arr.get(e[2], e[1])]
    direct = [e for e in obs["events"] if e[0] == "d" and e[1] == arr.get(e[2], -1)]
    return bool(held) and bool(direct)


def check_case(ctx, case, obs, answers):
    kind = case["kind"]
    I = case["interval"]
    n = sum(len(p["gaps"]) for p in case["producers"])
    ctx.count("kind:" + kind)
    ctx.count("producers:%d" % len(case["producers"]))
    ctx.count("downstream:" + ("slow" if is_slow(case) else "sync"))
    rejected_now = [e[2] for e in obs["events"] if e[0] == "r"]
    if case.get("fail"):
        ctx.count("consumer rejects (%s)" % case.get("fail_mode", "sync"))
    if kind == "rate_limit" and rejected_now:
        t_r = min(e[1] for e in obs["events"] if e[0] == "r")
        booked = {e[2]: e[1] for e in obs["events"] if e[0] == "a"}
        handed = {e[2]: e[1] for e in obs["events"] if e[0] == "d"}
        if any(booked[x] <= t_r < handed.get(x, t_r) for x in booked) and any(t > t_r for t in booked.values()):
            ctx.count("rejection while later-booked elements sleep, then a new arrival")
    if any(p["await"] for p in case["producers"]) and not all(p["await"] for p in case["producers"]):
        ctx.count("mixed awaiting/non-awaiting producers")
    arr_times = [e[1] for e in obs["events"] if e[0] == "a"]
    if len(set(arr_times)) < len(arr_times):
        ctx.count("simultaneous arrivals")
    dl = [(e[1], e[2]) for e in obs["events"] if e[0] == "d"]
    arr = {e[2]: e[1] for e in obs["events"] if e[0] == "a"}
    if any(t > arr.get(x, t) for t, x in dl):
        ctx.count("cases with a held-back element")
    held_t = set(t for t, x in dl if t > arr.get(x, t))
    if any(t in held_t for t in arr_times):
        ctx.count("arrival at the very instant a held-back element is released")
    if kind == "rate_limit" and any(b[0] - a[0] == I for a, b in zip(dl, dl[1:])):
        ctx.count("deliveries exactly one interval apart")
    ctx.case(case, nontrivial=nontrivial(case, obs))
    if obs["errors"]:
        ctx.failure(kind + ":exception", "emit raised: " + obs["errors"][0], case)
    if obs.get("runaway"):
        ctx.failure(kind + ":runaway", "%s(%d ticks) never came to rest: %s" % (kind, I, obs["runaway"][0]), case,
                    observed={"events": obs["events"][:60]})
        return
    for sig, text in oracle(case, obs):
        ctx.failure(sig, "%s(%d ticks): %s" % (kind, I, text), case,
                    expected="spacing >= interval, arrival order, every element exactly once, no delay after idle",
                    observed={"events": obs["events"]},
                    oracle="property statement evaluated on the observed arrival/delivery instants (ticks of 1/1024 s)")
    if answers is None:
        return
    if any(not isinstance(e[1], int) for e in obs["events"]):
        ctx.disagreement("%s(%d): an event happened at an instant that is not a whole tick (the model's instants always are): %r"
                         % (kind, I, obs["events"]), case)
        return
    lines = model_lines(case, obs)
    if len(answers) != len(lines):
        ctx.disagreement("driver answered %d lines for %d" % (len(answers), len(lines)), case)
        return
    dt = {x: t for t, x in dl}
    sync = {e[2]: e[3] for e in obs["events"] if e[0] == "d"}
    for ln, a in zip(lines, answers):
        if "err" in a or "bad-op" in a:
            ctx.disagreement("%s: observed event %r is not an enabled action of the event-loop model: %r; events %r"
                             % (kind, ln, a, obs["events"]), case)
            return
        if ln["op"] == "arrive" and kind == "rate_limit":
            x = ln["x"]
            if a.get("due") != dt.get(x) or a.get("sync") != sync.get(x):
                ctx.disagreement("rate_limit(%d): element %r arrived at %d: model due %r sync %r, real delivery at %r sync %r; events %r"
                                 % (I, x, ln["t"], a.get("due"), a.get("sync"), dt.get(x), sync.get(x), obs["events"]), case)
                return
    # who gets to see the consumer's exception: the producer of that element (rate_limit: `update` is the
    # coroutine the producer's emit awaits); nobody but the loop for delay (`update` is just `queue.put`)
    if kind == "rate_limit":
        want_rej, want_loop = sorted(set(rejected_now)), 0
    else:
        want_rej, want_loop = [], (1 if rejected_now else 0)
    if obs["rejected"] != want_rej or obs["loop_rejected"] != want_loop:
        ctx.disagreement("%s(%d): consumer rejected %r; emit awaitables that failed %r (expected %r), exceptions ending a loop "
                         "callback %d (expected %d); events %r" % (kind, I, rejected_now, obs["rejected"], want_rej,
                                                                 obs["loop_rejected"], want_loop, obs["events"]), case)
        return
    end = answers[-1]
    want = [[t, x] for t, x in dl]
    if kind == "delay" and rejected_now:
        # `cb` ended at the first rejected hand-over: everything that arrived after that element is still queued
        arrived = [e[2] for e in obs["events"] if e[0] == "a"]
        want_pending = arrived[len(want):]
        ok = (end.get("outs") == want and (end.get("plan") or [])[:len(want)] == want and end.get("pending") == want_pending
              and want and want[-1][1] == rejected_now[0] and len(rejected_now) == 1)
        if not ok:
            ctx.disagreement("delay(%d) with a rejecting consumer: real deliveries %r; event-loop model outs %r queue %r; "
                             "functional model %r; events %r" % (I, want, end.get("outs"), end.get("pending"), end.get("plan"),
                                                               obs["events"]), case)
            return
        ctx.coverage["traces_validated_against_impl"] += 1
        return
    if end.get("outs") != want or end.get("plan") != want or end.get("pending") != [] or len(want) != n:
        ctx.disagreement("%s(%d): real deliveries %r; event-loop model outs %r pending %r; functional model %r"
                         % (kind, I, want, end.get("outs"), end.get("pending"), end.get("plan")), case)
        return
    ctx.coverage["traces_validated_against_impl"] += 1


ASSUMPTIONS = [
    "instants are whole ticks of 1/1024 s on the virtual clock; timers fire exactly when due (lateness of a real clock/loop is not modelled: with late timers rate_limit's spacing is only as good as the timer)",
    "the clock is monotone and `rate_limit.next` starts at 0 <= time() (core.py __init__)",
    "reference counting inside rate_limit/delay (_retain_refs/_release_refs) is not modelled (C04)",
    "delay: `interval` separates the starts of the coroutine's loop iterations (the code reads `last` before waiting on the queue), "
    "so an element that finds the coroutine idle is passed on at once; C13 only claims order and count for delay",
    "hand-over = the node calling its downstream, whether the consumer then accepts or rejects (raises on) the element; a rejected "
    "element occupies its slot like any other.  rate_limit: the full statement is evaluated on all hand-overs, and the model's `next` "
    "bookkeeping is unaffected by a consumer failure (the failure reaches only the awaitable of that element's emit)",
    "delay with a rejecting consumer: the exception ends delay's `cb` coroutine (reported only to the loop's exception handler), nothing "
    "is handed over afterwards and later arrivals stay queued; modelled as the coroutine staying in `emitting` for ever.  After a rejection "
    "C13 claims only the safety half for delay (hand-overs so far are a prefix of the arrivals, in order, each once); "
    "'none lost at quiescence' is claimed for runs without a rejection",
]


def run(ctx):
    ctx.audit()
    ctx.assumptions += ASSUMPTIONS
    n_rl, n_dl = (200, 100) if not ctx.thorough() else (6500, 3500)
    cases = list(CORPUS)
    cases += [gen_case(ctx.rng, "rate_limit") for _ in range(n_rl)]
    cases += [gen_case(ctx.rng, "delay") for _ in range(n_dl)]
    observed = [run_impl(c) for c in cases]
    lines, spans = [], []
    for c, o in zip(cases, observed):
        ml = model_lines(c, o)
        spans.append((len(lines), len(lines) + len(ml)))
        lines += ml
    answers = common.lean_driver("RateLimit", lines)
    for c, o, (a, b) in zip(cases, observed, spans):
        check_case(ctx, c, o, answers[a:b])
    ctx.coverage["rule"] = (
        "corpus of boundary cases + seeded generator: interval from {0,1,2,3,5,8,16,100,128,1024,1536} ticks (given as float seconds or as a '...ms' string), 1-4 producers "
        "(each awaiting emit or not; one shared source or separate sources joined by union), 1-6 elements per producer with gaps "
        "drawn per producer style (burst / steady at the interval +-1 / idle gaps / mixed), node created at virtual instant 0, 7 or 1000 ticks, "
        "synchronous or slow awaitable downstream (cost 0..2*interval per element); in 35% of the cases the consumer rejects (raises on) "
        "one or two elements, synchronously or from its awaitable, and the hand-over instants of all elements incl. the rejected ones are checked. Every case runs the real node on the virtual loop, "
        "replays the observed events through the Lean event-loop model and diffs delivery instants exactly with the functional model. "
        "Non-trivial: at least one element was held back and at least one passed without delay. Distinct = distinct case JSON.")


def replay(ctx, data):
    ctx.audit()
    ctx.assumptions += ASSUMPTIONS
    case = data["case"]
    obs = run_impl(case)
    answers = common.lean_driver("RateLimit", model_lines(case, obs))
    check_case(ctx, case, obs, answers)
    ctx.coverage["rule"] = "replay of one recorded case"
